"""Checker self-validation: mutants (must be reported with the expected rule/construct) and
behaviour-preserving twins (must stay silent), applied through the in-memory SourceSet overlay.

A mutant is a dict:
  prop      property id
  name      short id
  file      repo-relative path (or 'edits': [(file, old, new), ...])
  old/new   exact text replacement (old must occur exactly `count` times, default 1)
  expect    'fire' | 'silent'
  rule      (fire) rule id that must report;  construct (optional) substring of the construct
Definitions live in selftest/mutants/<ID>.py as a list MUTANTS.
"""
import importlib
import json
import multiprocessing as mp
import os
import sys
import time

HERE = os.path.dirname(os.path.abspath(__file__))
VERIF = os.path.dirname(HERE)
if VERIF not in sys.path:
    sys.path.insert(0, VERIF)


def load_mutants(prop=None):
    out = []
    d = os.path.join(HERE, 'mutants')
    if not os.path.isdir(d):
        return out
    for f in sorted(os.listdir(d)):
        if f.endswith('.py') and f != '__init__.py':
            pid = f[:-3]
            if prop and pid != prop:
                continue
            m = importlib.import_module(f'selftest.mutants.{pid}')
            for x in m.MUTANTS:
                x = dict(x)
                x.setdefault('prop', pid)
                out.append(x)
    # the stored changes of independent sub-agents: breaking ones (seeded/<PROP>_<k>) must be reported by their property's check, behaviour-preserving ones
    # (neutral/<PROP>_n<k>) must leave EVERY check silent - here: the check of the slice
    # reverts/<PROP>_r<commit>: the reverse of a `fix:` commit of the repository - the defect as it was in the tree; the property's check must report it again
    for kind, expect in (('seeded', 'fire'), ('reverts', 'fire'), ('neutral', 'silent')):
        d2 = os.path.join(VERIF, kind)
        if not os.path.isdir(d2):
            continue
        for name in sorted(os.listdir(d2)):
            pf = os.path.join(d2, name, 'patch.diff')
            if not os.path.isfile(pf):
                continue
            own = name.split('_')[0]
            if kind in ('seeded', 'reverts'):
                if prop and own != prop:
                    continue
                out.append(dict(prop=own, name=f'{"seed" if kind == "seeded" else "revert"}-{name}', patch=pf, expect='fire', rule=None))
            else:
                for pid in ([prop] if prop else [own]):
                    out.append(dict(prop=pid, name=f'neutral-{name}', patch=pf, expect='silent'))
    return out


class StalePatch(Exception):
    pass


def apply_unified_diff(repo, difftext):
    """{file: new text} for a unified diff against the files of `repo`, applied in memory (hunks located by their context, so line drift is tolerated;
    a hunk whose context is not found exactly once near its stated position raises StalePatch)"""
    out = {}
    cur = None
    hunks = []
    files = []
    for line in difftext.splitlines():
        if line.startswith('+++ '):
            path = line[4:].strip()
            path = path[2:] if path.startswith('b/') else path
            cur = (path, [])
            files.append(cur)
        elif line.startswith('@@') and cur is not None:
            import re
            m_ = re.match(r'@@ -(\d+)', line)
            cur[1].append([int(m_.group(1)), []])
        elif cur is not None and cur[1] and (line[:1] in ' +-' or line == '') and not line.startswith('--- '):
            cur[1][-1][1].append(line if line else ' ')
    for path, hs in files:
        if path == '/dev/null':
            continue
        fp = os.path.join(repo, path)
        lines = open(fp, encoding='utf-8').read().split('\n') if os.path.isfile(fp) else []
        offset = 0
        for start, body in hs:
            old = [l[1:] for l in body if l[:1] in ' -']
            new = [l[1:] for l in body if l[:1] in ' +']
            cands = [i for i in range(len(lines) - len(old) + 1) if lines[i:i + len(old)] == old] if old else [max(start - 1 + offset, 0)]
            if not cands:
                raise StalePatch(f'{path}: hunk at line {start} does not match the current source')
            i = min(cands, key=lambda c: abs(c - (start - 1 + offset)))
            lines[i:i + len(old)] = new
            offset += len(new) - len(old)
        txt = '\n'.join(lines)
        if path.endswith('.py'):
            import warnings
            with warnings.catch_warnings():
                warnings.simplefilter('ignore')
                compile(txt, path, 'exec')
        out[path] = txt
    return out


def build_overlay(m, repo):
    if m.get('patch'):
        with open(m['patch'], encoding='utf-8') as f:
            return apply_unified_diff(repo, f.read())
    edits = m.get('edits') or [(m['file'], m['old'], m['new'])]
    overlay = {}
    for e in edits:
        file, old, new = e[0], e[1], e[2]
        cnt = e[3] if len(e) > 3 else m.get('count', 1)
        if old is None:                     # new file
            overlay[file] = new
            continue
        txt = overlay.get(file)
        if txt is None:
            with open(os.path.join(repo, file), encoding='utf-8') as f:
                txt = f.read()
        if txt.count(old) != cnt:
            raise RuntimeError(f"mutant {m['prop']}/{m['name']}: anchor text occurs {txt.count(old)}x in {file}, expected {cnt}")
        txt = txt.replace(old, new)
        import warnings
        with warnings.catch_warnings():
            warnings.simplefilter("ignore")
            compile(txt, file, "exec")          # the variant must still compile
        overlay[file] = txt
    return overlay


def run_mutant(args):
    m, repo = args
    from sa import core
    t0 = time.time()
    try:
        try:
            overlay = build_overlay(m, repo)
        except StalePatch as e:
            return (m, True, f'SKIPPED (stale patch: {e})', time.time() - t0)
        mod = importlib.import_module(f"sa.rules.{m['prop']}")
        rc, ctx, out = core.run_property(m['prop'], mod, repo=repo, tier='quick', overlay=overlay,
                                         write_evidence=False, quiet=True)
    except Exception as e:
        import traceback
        return (m, False, f'exception: {e!r}\n{traceback.format_exc()[-600:]}', time.time() - t0)
    known = {f"{k['rule']}:{k['construct']}" for k in core.load_known() if k['property'] == m['prop'] and k.get('status') == 'known'}
    new = [f for f in ctx.findings if f.key not in known]
    if m['expect'] == 'silent':
        ok = rc == 0
        msg = 'silent' if ok else f'rc={rc}: ' + '; '.join(f.key for f in new[:3]) + ' | ' + ' '.join(out[:2])
    else:
        hits = [f for f in new if (m.get('rule') is None or f.rule == m['rule']) and (not m.get('construct') or m['construct'] in f.construct)]
        if m.get('rc') is not None:
            ok = rc == m['rc']
            msg = f'rc={rc}'
        else:
            ok = rc == 1 and bool(hits)
            msg = (f'reported {hits[0].key[:110]}' if ok else
                   f'rc={rc}; new findings: ' + '; '.join(f.key[:80] for f in new[:4]) + ' | ' + ' '.join(out[:1]))
    return (m, ok, msg, time.time() - t0)


def run_slice(prop=None, jobs=16, repo='/repo', verbose=True):
    ms = load_mutants(prop)
    if not ms:
        if verbose:
            print(f'selftest: no mutants defined for {prop or "any property"}')
        return 0
    t0 = time.time()
    with mp.Pool(min(jobs, len(ms)), maxtasksperchild=12) as pool:
        res = pool.map(run_mutant, [(m, repo) for m in ms], chunksize=1)
    bad = 0
    for m, ok, msg, dt in res:
        tag = 'ok  ' if ok else 'FAIL'
        if not ok:
            bad += 1
        if verbose and (not ok or os.environ.get('SELFTEST_VERBOSE') or msg.startswith('SKIPPED')):
            print(f"  selftest {tag} {m['prop']}/{m['name']} [{m['expect']}] {msg} ({dt:.1f}s)")
    nf = sum(1 for m in ms if m['expect'] == 'fire')
    if verbose:
        print(f'selftest {prop or "all"}: {len(ms)} variants ({nf} breaking, {len(ms) - nf} twins), {bad} wrong, {time.time() - t0:.1f}s')
    return 1 if bad else 0


def main(a):
    if a.smoke:
        # setup smoke test: engines import and one cheap rule module runs
        from sa import core, source, grammar, lalr, lexmodel  # noqa
        print('selftest smoke: engines import ok')
        return 0
    return run_slice(a.only, jobs=a.jobs, repo=a.repo)
