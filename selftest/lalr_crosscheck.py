"""NON-DECIDING development-time cross-check: diff sa.lalr tables against the tables of the
imported library.  This imports mindsdb_sql and is therefore never part of a registered check."""
import sys, os, time
sys.path.insert(0, os.path.dirname(os.path.dirname(os.path.abspath(__file__))))
repo = sys.argv[1] if len(sys.argv) > 1 else '/repo'
sys.path.insert(0, repo)
from sa.source import SourceSet
from sa.grammar import load_dialect
from sa.lalr import tables_for

def main():
    from mindsdb_sql.parser.dialects.mindsdb.parser import MindsDBParser
    from mindsdb_sql.parser.dialects.mysql.parser import MySQLParser
    from mindsdb_sql.parser.parser import SQLParser
    src = SourceSet(repo)
    bad = 0
    for d, cls in (('sqlite', SQLParser), ('mysql', MySQLParser), ('mindsdb', MindsDBParser)):
        g = load_dialect(src, d)
        t = tables_for(src, d)
        real = cls._grammar.Productions
        # production lists (raw_query star productions are order-dependent in sly: compare as multisets there)
        mine = [(p.name, p.rhs) for p in g.productions]
        theirs = [(p.name, tuple(p.prod)) for p in real]
        same_order = mine == theirs
        same_set = sorted(mine) == sorted(theirs)
        # map my production numbers to sly's
        num = {(p.name, tuple(p.prod)): p.number for p in real}
        lr = cls._lrtable
        # map states through kernel item sequences using state_descriptions is heavy; instead walk both automata in lockstep
        # from state 0 by symbols
        mapst = {0: 0}
        work = [0]
        while work:
            s = work.pop()
            rs = mapst[s]
            for (s2, x), j in t.trans.items():
                if s2 != s: continue
                if x in g.nonterminals:
                    rj = lr.lr_goto[rs].get(x)
                else:
                    a = lr.lr_action[rs].get(x)
                    rj = a if (a is not None and a > 0) else None
                    if rj is None:
                        # shift lost to a reduce / error in the real table: find via my own action
                        continue
                if rj is None: continue
                if j not in mapst:
                    mapst[j] = rj; work.append(j)
        entries = 0; mism = 0
        for s, rs in mapst.items():
            a1 = t.action[s]; a2 = lr.lr_action[rs]
            if set(a1) != set(a2):
                mism += 1; print(d, 'state', s, rs, 'keys differ', set(a1) ^ set(a2)); continue
            for a, v in a1.items():
                entries += 1
                w = a2[a]
                if v is None or v >= 0 and not (v and v > 0):
                    ok = (v == w) if (v is None or v == 0) else True
                if v is None: ok = w is None
                elif v == 0: ok = w == 0
                elif v > 0: ok = w is not None and w > 0 and mapst.get(v) == w
                else:
                    p = g.productions[-v]; ok = w is not None and w < 0 and num[(p.name, p.rhs)] == -w
                if not ok:
                    mism += 1
                    if mism < 10: print(d, 'state', s, 'tok', a, 'mine', v, 'sly', w)
        print(f'{d}: prods {len(mine)} same_order={same_order} same_set={same_set} states mine={len(t.states)} sly={len(lr.lr_action)} mapped={len(mapst)} entries={entries} mismatches={mism} build={t.build_s:.2f}s defaulted mine={len(t.defaulted)} sly={len(lr.defaulted_states)}')
        bad += mism + (0 if same_set else 1) + (0 if len(t.states) == len(lr.lr_action) else 1)
    return bad

if __name__ == '__main__':
    sys.exit(1 if main() else 0)
