#!/venv/bin/python
"""Store the three behaviour-preserving patches a sub-agent delivered (OUT/patch1..3.diff, notes.md) as neutral/<PROP>_n<k>/ and remove its worktree.

  tools/intake_neutral.py <PROP> <OUT dir> <first index> [<agent worktree to remove>]
"""
import os
import shutil
import subprocess
import sys

HERE = os.path.dirname(os.path.dirname(os.path.abspath(__file__)))


def main():
    prop, out, first = sys.argv[1], sys.argv[2], int(sys.argv[3])
    wt = sys.argv[4] if len(sys.argv) > 4 else None
    for i in (1, 2, 3):
        src = os.path.join(out, f'patch{i}.diff')
        if not os.path.isfile(src) or os.path.getsize(src) == 0:
            print(f'{prop}: patch{i}.diff missing or empty')
            continue
        p = subprocess.run(['git', '-C', '/repo', 'apply', '--check', src], capture_output=True, text=True)
        if p.returncode:
            print(f'{prop}: patch{i}.diff does not apply to /repo HEAD: {p.stderr.strip()[:100]}')
            continue
        dst = os.path.join(HERE, 'neutral', f'{prop}_n{first + i - 1}')
        os.makedirs(dst, exist_ok=True)
        shutil.copy(src, os.path.join(dst, 'patch.diff'))
        if os.path.isfile(os.path.join(out, 'notes.md')):
            shutil.copy(os.path.join(out, 'notes.md'), os.path.join(dst, 'notes.md'))
        print(f'{prop}: stored {os.path.basename(dst)}')
    if wt:
        subprocess.run(['git', '-C', '/repo', 'worktree', 'remove', '--force', wt])


if __name__ == '__main__':
    main()
