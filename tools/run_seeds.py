#!/venv/bin/python
"""Apply each kept seeded change to /repo (git apply), run the registered quick check of its property
(and optionally all checks), undo it straight afterwards (git checkout -- .).  Prints a table."""
import json, os, subprocess, sys
HERE = os.path.dirname(os.path.dirname(os.path.abspath(__file__)))
def sh(c, cwd=None):
    p = subprocess.run(c, shell=True, cwd=cwd, capture_output=True, text=True)
    return p.returncode, p.stdout + p.stderr
def main():
    only = sys.argv[1:] 
    claimed = {c['property_id'] for c in json.load(open(os.path.join(HERE, 'MANIFEST.json')))['checks']}
    rc, out = sh('git -C /repo status --porcelain')
    if out.strip():
        print('refusing: /repo working tree is not clean'); return 2
    rows = []
    for sd in sorted(os.listdir(os.path.join(HERE, 'seeded'))):
        if only and not any(sd.startswith(o) for o in only):
            continue
        d = os.path.join(HERE, 'seeded', sd)
        prop = sd.split('_')[0]
        rc, out = sh(f'git -C /repo apply {d}/patch.diff')
        if rc:
            rows.append((sd, 'APPLY-FAILED', out[-200:])); continue
        try:
            res = {}
            for p in sorted(claimed):
                if p != prop and '--all' not in sys.argv:
                    continue
                rc, out = sh(f'./check {p} --no-evidence', cwd=HERE)
                first = [l for l in out.splitlines() if l.startswith('  rule=')]
                res[p] = (rc, first[0].strip()[:150] if first else out.strip().splitlines()[-1][:150] if out.strip() else '')
        finally:
            sh('git -C /repo checkout -- .')
            sh('git -C /repo clean -fdq mindsdb_sql sly')
        if prop not in claimed:
            rows.append((sd, 'no-check-yet', ''))
        else:
            rc, msg = res[prop]
            rows.append((sd, {0: 'MISSED', 1: 'CAUGHT', 2: 'ANALYSIS-ERROR'}.get(rc, str(rc)), msg))
        for p, (rc, msg) in res.items():
            if p != prop and rc != 0:
                rows.append((sd, f'  also {p} rc={rc}', msg))
    for r in rows:
        print('%-8s %-16s %s' % r)
    rc, out = sh('git -C /repo status --porcelain')
    assert not out.strip(), 'repo left dirty!'
if __name__ == '__main__':
    sys.exit(main())
