#!/venv/bin/python
"""Like run_neutral_mem.py, restricted to some properties:  tools/run_neutral_subset.py C02,C05 [name-part ...]"""
import multiprocessing as mp
import os
import sys

HERE = os.path.dirname(os.path.dirname(os.path.abspath(__file__)))
sys.path.insert(0, HERE)
from selftest import battery  # noqa


def main():
    props = sys.argv[1].split(',')
    sel = sys.argv[2:]
    d = os.path.join(HERE, 'neutral')
    names = sorted(n for n in os.listdir(d) if os.path.isfile(os.path.join(d, n, 'patch.diff')) and (not sel or any(s in n for s in sel)))
    jobs = [(dict(prop=p, name=f'neutral-{n}', patch=os.path.join(d, n, 'patch.diff'), expect='silent'), '/repo') for n in names for p in props]
    with mp.Pool(16, maxtasksperchild=12) as pool:
        res = pool.map(battery.run_mutant, jobs, chunksize=2)
    bad = 0
    for m, ok, msg, dt in res:
        if not ok and not msg.startswith('SKIPPED'):
            bad += 1
            print(f"{m['name'][8:]:10s} ALARM {m['prop']} {msg[:300]}")
    print(f'{len(jobs)} runs, {bad} alarms')
    return 1 if bad else 0


if __name__ == '__main__':
    sys.exit(main())
