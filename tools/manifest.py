#!/venv/bin/python
"""Regenerates /verif/MANIFEST.json from the table below (run after adding a rule module)."""
import json
import os

HERE = os.path.dirname(os.path.dirname(os.path.abspath(__file__)))

ENGINES = [
    {"name": "grammar-lalr", "path": "sa/grammar.py sa/lalr.py sa/lexmodel.py",
     "kind_free_text": "static extraction of the three sly grammars and lexers from source (ast) + own LALR(1) table "
                       "construction reproducing sly's conflict resolution; regex language / first-match model on re._parser"},
    {"name": "pyflow", "path": "sa/source.py sa/cfg.py sa/peval.py sa/pymodel.py sa/interp.py sa/walker.py sa/shared.py sa/actions.py sa/codec.py",
     "kind_free_text": "Python model of the repository from ast: class/field/method index, structured-CFG forward dataflow, "
                       "partial evaluation of dispatch code, effect (write-set) and who-may-call scans"},
]

# id -> dict(level, text, note, technique, engine)   (only properties with a committed rule module are listed)
CLAIMS = {
    "C03": dict(
        level="proof", engine="grammar-lalr",
        text="Exhaustive decision on a finite object: for all three dialects every (operator production, LALR state holding "
             "its completed item, operator look-ahead) triple of the statically rebuilt LALR(1) action tables is compared with "
             "the reference SQL precedence/associativity order; the tables fix the grouping of every token string in every "
             "expression context, so this covers all inputs at once; and the action of every operator production, interpreted on operand "
             "stand-ins (a column, the same operator again, a constant, a tuple), builds one operation node with the written operator over "
             "exactly its operands. Does not decide evaluation against a reference engine.",
        note="Trusted: sly's run-time driver Parser.parse (LR shift/reduce loop), CPython ast/re; sa/lalr.py (validated "
             "entry-for-entry against sly's generated tables during development; sly's own conflict resolver is compared as a "
             "truth table on every run). Modelling assumption of the proof: which productions are operator productions - every `expr -> expr T <operand>` "
             "(operand = expr or a fixed word) whose T is an operator of the statement's list or NOT in infix position, `expr -> expr NOT IN expr`, BETWEEN, "
             "the two prefix operators; infix operators outside the list (||, ->, ::) are listed in the evidence and not judged. Two defects of the unchanged tree "
             "had been outside an earlier, narrower classification (DESIGN.md 9.27).",
        technique="static LALR(1) table reconstruction from source + exhaustive precedence-obligation scan + abstract interpretation of the operator actions"),
    "C05": dict(
        level="other", engine="grammar-lalr",
        text="Decides the structural conditions under which an LR driver with sly's panic-mode recovery accepts exactly the "
             "grammar's sentences: no `error` productions, accept only on $end after the start symbol and never in a defaulted "
             "state, start symbol = unit productions only, the error callback (dataflow over its CFG, resolved through the MRO) "
             "raises or drains the token iterator and returns a falsy value on every path, parse_sql converts a None result "
             "into ParsingException and strips only an anchored whitespace/semicolon suffix. Exhaustive over the three parser "
             "classes and their tables; the LR driver itself is trusted.",
        note="Trusted: sly Parser.parse implements LR(1) parsing with the recovery behaviour read in DESIGN.md C05; "
             "sa/lalr.py tables equal sly's.",
        technique="grammar/table scan + must-drain/must-raise dataflow on the error callback and parse_sql"),
}

CLAIMS["C13"] = dict(
    level="other", engine="pyflow",
    text="Exhaustiveness analysis over the finite AST class x child-field matrix and all visit sites of the hand-written "
         "walker: every reachable class with child fields is dispatched, every child-carrying field (derived from the "
         "class's own printers) is visited exactly once, in the textual order of the class's SQL printer, with "
         "is_table/is_target exactly at table/target positions, parent_query = enclosing statement, the result stored back "
         "into exactly the location read, optional fields guarded, and the callback called once before any descent. "
         "Exhaustive over all 79+ AST classes / 14 branches / 40 sites; decides the structure of the walker, which fixes "
         "its behaviour on every tree the parsers can build.",
    note="Assumes a field holds child nodes iff the class's own to_tree/get_string/to_string call a node method on it or "
         "its elements (name-only fields are exempted in a table with one reason each); run-time attributes attached from "
         "outside are not modelled.",
    technique="class x field exhaustiveness matrix + visit-site model (flags, order vs printer, store-back taint)")

CLAIMS["C12"] = dict(
    level="other", engine="pyflow",
    text="Binding order is the visiting order of the walker, so textual order / exactly-once / completeness are decided by "
         "the C13 walker matrix (every child field visited once, in printer order, stored back in place) re-evaluated here, "
         "plus structural rules on the two callbacks (one traversal over the whole statement, prune only at Parameter leaves, "
         "FIFO consumption from a private copy, Constant substitution: both callbacks interpreted on a fixed visit sequence) and "
         "a lifecycle table: prepare_steps -> get_statement_info -> execute_steps interpreted (fail-closed AST interpreter) on one "
         "planner stand-in for 5 statement kinds x {0, 2, 3} placeholders x {n-1, n, n+1, no} values, compared by object identity - "
         "placeholders are collected once from the whole statement and stored, one parameter reported per placeholder, a wrong "
         "number of values refused with PlanningException before anything is filled, the prepared statement filled with the "
         "caller's values and the filled statement planned. Does not decide plan equality with inline literals.",
    note="Assumes C13's child-field derivation; planner behaviour on the filled statement is not analysed.",
    technique="walker visit-order/completeness matrix + abstract interpretation of the two callbacks and of the prepare/execute lifecycle on stand-ins")

CLAIMS["C18"] = dict(
    level="other", engine="pyflow",
    text="Protocol lints, exhaustive over all classes: copy() is copy.deepcopy; every customised copier transfers every "
         "attribute an instance can carry (set by the class or attached from outside on provably fresh instances) and "
         "mutable ones by deepcopy - absence of sharing is structural, which discharges the all-mutations quantifier; no "
         "constructor stores a mutable default; every __eq__ returns a bool on all CFG paths and is interpreted on stand-ins built "
         "from the class's own fields (identical, one field different, None on one side, shorter list, late attribute, other class, "
         "non-object): boolean, never raises, same in both directions, transitive - the swap-closure rule on its conditions only "
         "where interpretation is impossible; vars(self)-driven comparison skips every late attribute; ASTNode.__eq__ conjoins "
         "tree and printed-text equality; __hash__ interpreted on the same objects is an int and equal objects hash alike.",
    note="Relies on copy.deepcopy semantics for classes without copy hooks; equality of concrete trees/plans is not "
         "evaluated.",
    technique="copy/eq/hash protocol lints: attribute-set completeness, all-paths-return dataflow, equality / hash / copier tables by abstract interpretation")

CLAIMS["C19"] = dict(
    level="other", engine="grammar-lalr",
    text="Decides the table-level facts the mindsdb error message is built from, for all LALR states and all tokens: the "
         "expected-token list can contain nonassoc error entries, and no unverified suggestion (single candidate / "
         "end-of-input listing) may be one; every display string (the head of make_suggestion interpreted per token type and per state) "
         "lexes back to exactly its token under the ordered master regex and every grammar token is reachable by the lexer; "
         "placeholder values are convertible by the grammar actions; every other suggestion is dominated by a successful "
         "re-parse of this call's tokens; the echoed text/caret width do not come from lexer-rewritten token values; the lexer "
         "error callback always raises; error_location interpreted on token lists with source positions puts the carets under the offending token. "
         "Caret/line offset arithmetic over arbitrary layouts is NOT decided.",
    note="Trusted: sly passes list(actions[state].keys()) as expected tokens (anchor checked); LALR tables as in C03. The "
         "position arithmetic of error_location is decided on 9 probe layouts only (interpreted: short, multi-line, 300-character lines, end of input); "
         "LR(1)-exact acceptability of merged reduce look-aheads is outside.",
    technique="LALR table scan x interpreted suggestion filter x first-match lexer simulation; dominance of re-parse; interpreted lexer error callback")

CLAIMS["C20"] = dict(
    level="other", engine="pyflow",
    text="Isolation decided by the standard static argument - a result can depend on history or another thread only through "
         "state that outlives the call: every function of mindsdb_sql and sly (1000+) is scanned for writes to module globals, "
         "class attributes (incl. class-level mutables reached via self), default-argument objects and memoisation decorators; "
         "class-construction code is separated by call-graph reachability; each remaining write needs a re-derived "
         "monotone/idempotent discharge. parse_sql must get lexer and parser from constructor calls of the same invocation; no "
         "stateful object at module/class level; no store into caller-supplied catalog objects in the planner; every "
         "set iteration/indexing/unpacking is classified by its consumers and the hash-ordered raw_query productions are "
         "discharged on the LALR tables (no message depends on their order). Interleavings themselves are not explored.",
    note="Assumes objects created inside a call are private to it and that SQLAlchemy/CPython internals are thread-safe for "
         "per-instance use; call-graph is name-based (over-approximate callers).",
    technique="who-may-write effect scan over shared state + constructor-provenance + set-order consumer classification")

CLAIMS["C17"] = dict(
    level="other", engine="pyflow",
    text="Handler-coverage and effect analysis of SqlalchemyRender: every translating/compiling call of get_exec_params lies "
         "inside the try, the handlers catch Exception (the renderer's own raise set over the call closure of get_query is "
         "computed and listed), with fallback disabled only SQLAlchemyError/NotImplementedError can leave (isinstance-guarded "
         "re-raise or conversion), every raise in the handler is restricted to `not with_failback`, the fallback returns "
         "str(tree), get_string delegates; no store or mutating call in any renderer function has a receiver derived from a "
         "parameter (the caller's tree); the documented dialect names are keys of the dialect table. Exhaustive over the "
         "renderer's functions; which inputs make SQLAlchemy raise is made moot by the handler rule, not enumerated.",
    note="Assumes exceptions derive from Exception and that SQLAlchemy does not mutate AST objects handed to it as values; "
         "errors raised by str(tree) on the fallback path belong to C01/C02.",
    technique="must-be-inside-try + handler coverage lattice + parameter-rooted write-set (effect) analysis")

CLAIMS["C09"] = dict(
    level="other", engine="pyflow",
    text="Forward-only numbering decided by construction, exhaustively over all planner call sites: Result is minted only by "
         "PlanStep.result from an assigned number; step_num is stored only by the constructor parameter, by add_step "
         "(position, followed by the append) and by the sub-step namer, and no Step constructor call passes one; step lists "
         "are mutated only by append in add_step and the plan object is rebound only at from_query entry; container "
         "typestate by forward dataflow: every top-level add in PlanJoinTablesQuery happens with the map-reduce partition "
         "closed. Explicit raises are PlanningException/NotImplementedError; asserts and unguarded int()/float() of "
         "query-derived values are violations. Implicit internal errors of the planner and 'last step produces the answer' "
         "are NOT decided.",
    note="Assumes steps run in list order and sub-steps run with their container; references inside embedded queries "
         "(Parameter(Result)) are covered because they can only come from PlanStep.result.",
    technique="who-may-construct / who-may-write scans + typestate dataflow on the partition protocol")

CLAIMS["C16"] = dict(
    level="other", engine="grammar-lalr",
    text="Decides that the stored text of an embedded query is assembled from ALL tokens between the parentheses, IN ORDER, "
         "from the characters the user wrote: raw_query derives every lexer token except balanced parentheses; every "
         "raw_query action returns each RHS position exactly once in order (symbolic evaluation); every embedding action "
         "passes p.raw_query[N] unmodified to tokens_to_string and stores it in query_str/if_query_str/query in order; no "
         "token type admitted by raw_query has a value-rewriting lexer action; tokens_to_string appends every token value "
         "once, unconditionally, and applies no transformation to the assembled text. Exhaustive over the 204+ raw-query "
         "terminals, 33 embedding productions and all lexer actions. White-space reconstruction is NOT decided.",
    note="Assumes sly hands the matched source text to token.value unless a lexer action changes it; whitespace/comment "
         "differences are allowed by the property statement.",
    technique="grammar terminal-coverage scan + symbolic evaluation of token-list actions + lexer-action effect scan")

CLAIMS["C02"] = dict(
    level="other", engine="pyflow",
    text="May-raise analysis of the repository-owned parse path: the semantic-value kinds of every nonterminal are computed as "
         "a fixpoint over all grammar actions of the three dialects, and every action is abstractly interpreted once per "
         "production it is attached to (1100+ specialisations; hasattr/getattr/len(p) folded from sly's name map, dead "
         "branches pruned, isinstance/None/key/emptiness narrowing, callee and constructor summaries). Ten raise-capable "
         "construct classes (dict key, production symbol, empty index, numeric conversion, arithmetic kinds, assert / "
         "constructor precondition, attribute of None or wrong kind, exception class, iteration, constructor signature) are "
         "either discharged or reported with the production that reaches them; non-action code on the path is checked for "
         "exception classes, asserts, partial stdlib calls and complete made-up tokens; every action that decodes one data token is "
         "additionally interpreted (fail-closed AST interpreter) on every short text the ordered lexer reads as that token and may only "
         "return or raise ParsingException; no repeated group of a token pattern is ambiguous (no exponential backtracking). Termination in general, RecursionError and "
         "exceptions inside sly/re are NOT decided; constructs outside the ten classes are assumed non-raising.",
    note="Stated unsoundness: only the listed construct classes are considered raise-capable; unknown ('?') kinds are not "
         "reported. Trusted: sly's YaccProduction name map semantics (read from sly/yacc.py).",
    technique="abstract interpretation of grammar actions per production (kind lattice + narrowing) = may-raise analysis")

CLAIMS["C04"] = dict(
    level="other", engine="grammar-lalr",
    text="Agreement of finite tables extracted from source: per dialect and quoted-string token, the literal syntax admitted by "
         "the lexer pattern (delimiter, backslash escapes, doubled delimiter) vs the decoder = the grammar action with the helpers "
         "it calls, interpreted on the token text by a fail-closed AST interpreter (nothing imported or executed), compared with the "
         "reference SQL denotation on a generated family of accepted literals covering every escape form and combination; "
         "the printer Constant.get_string (interpreted the same way) against each dialect's own syntax on value probes; "
         "@variable decoder per pattern alternative and "
         "printer read-back; provenance over every grammar action x production: dot-splitting only on ID text, no case change; "
         "path splitting regex and identifier quoting against the lexer. Equality for ALL strings is NOT decided (finite "
         "representative family); numbers are covered structurally by C02.R4/R5.",
    note="Reference denotation (backslash escapes of backslash and quotes, doubled delimiters, unknown escapes keep the "
         "backslash) is the library's own rule; an identifier part containing a back-quote has no readable spelling (listed).",
    technique="codec table agreement: regex-derived literal syntax x abstractly interpreted decoder/encoder functions on generated probes")

CLAIMS["C07"] = dict(
    level="other", engine="pyflow",
    text="Codec agreement + who-may-format: the LiteralCompiler.render_literal_value overrides (DML and DDL) are partially "
         "evaluated for str values under every dialect name the renderer can be built with, and their output on hostile value "
         "probes (quotes, backslashes, comment markers, newlines, %) is read back with the reference literal rules of that "
         "target (cited table): exactly one literal denoting the value. The tree's own printers (Constant.get_string, "
         "Insert.to_value) are checked against the library's own QUOTE_STRING syntax. Single gateway: constant values reach "
         "SQLAlchemy only via sa.literal(); raw-SQL constructors fed by value-derived expressions and repr() in printers are "
         "violations; paramstyle='named' on every construction path. Read-back for ALL strings is NOT decided (finite probes).",
    note="Target lexical rules are a reference table (MySQL default sql_mode, PostgreSQL standard_conforming_strings=on); "
         "SQLAlchemy's rendering of non-string literals is trusted.",
    technique="partial evaluation of literal encoders x reference literal readers per dialect + raw-SQL gateway scan")

CLAIMS["C01"] = dict(
    level="other", engine="pyflow",
    text="Round-trip equality over all accepted strings is NOT decided. Decided are the mechanisms the statement names, as "
         "structural rules over all three grammars and all ~80 AST printers: every `( expr|select|union|query )` production "
         "returns the inner node with the parentheses mark set (its action interpreted on a production record; must-set dataflow as "
         "fallback), ASTNode.to_string composes alias(parentheses(get_string())) and "
         "overriding classes honour both; every identifier-shaped word the ordered lexer turns into a keyword that the grammar "
         "does not accept as id is in the statically evaluated reserved set of the identifier printer; every field to_tree "
         "shows is read by the SQL printer; a field is printed under its own guard only unless the grammar makes the guard "
         "implied (per-production constructor analysis); no printer puts a value between quote characters or uses repr() as "
         "SQL encoder; literal and identifier escaping agree with the lexer (codec tables of C04); single-token leaves print "
         "text that lexes back to that token; every node built directly from tokens (15 productions: intervals, typed literals, constants, "
         "names) prints text whose token sequence the reconstructed LALR tables accept and reduce by an action that builds that class.",
    note="Necessary conditions only: keyword order / optional clauses / spacing of every get_string versus its grammar rule "
         "are the round trip itself and are not analysed; copy() is C18.",
    technique="abstract interpretation of parenthesis actions and leaf printers + reserved-set evaluation vs lexer simulation + printer/tree field matrices")

CLAIMS["C06"] = dict(
    level="other", engine="pyflow",
    text="Execution equivalence of the rendered SQL is NOT decided. Decided are the clauses the statement lists, as table "
         "agreement / exhaustiveness between the grammars' finite vocabularies and the renderer's dispatch code: the language "
         "of join_clause (9 strings, enumerated from the three grammars) is pushed through a partial evaluation of the join "
         "dispatch of prepare_select and compared with the reference (join|outerjoin, full) table - kinds SQLAlchemy cannot "
         "express must end in NotImplementedError; prepare_union interpreted on two-operand and nested set operations maps class x unique to the six "
         "set constructors with the tree's structure; to_order_by interpreted on 25 single terms and 4 lists gives every term exactly its "
         "own ASC/DESC and NULLS FIRST/LAST, and is what SELECT and OVER() use; every operator spelling the grammars produce agrees with the reference method table; every "
         "semantic field of Select/WindowFunction/Function/Case/TypeCast/OrderBy/Join/CTE/Insert/Update/Delete/CreateTable/"
         "TableColumn/DropTables is effectively read by the code that renders that class (receiver-resolved) or refused; "
         "generative SQLAlchemy results are never discarded; every aliasable to_expression branch reads t.alias.",
    note="Reference tables (join kinds, set operations, operator methods) are SQLAlchemy's documented meaning, trusted; "
         "literal values are C07's; numeric literal formatting by SQLAlchemy is trusted (seed C06_2 lives there).",
    technique="partial evaluation of renderer dispatch x grammar-enumerated vocabularies + receiver-resolved clause coverage matrix")

CLAIMS["C10"] = dict(
    level="other", engine="pyflow",
    text="Decides the case-normalisation and resolver discipline that routing rests on, not the routing of every query shape: an "
         "interprocedural must-analysis over the planner package (methods, nested callbacks, parameters at all internal call "
         "sites, returns, returned dict entries) proves that every key stored into the catalog by QueryPlanner.__init__, every "
         "key looked up in databases/projects/integrations/predictor_info, every value compared with a catalog name and every "
         "FetchDataframeStep(integration=) is lower-cased on every path; both resolvers (resolve_database_table, "
         "PlanJoinTablesQuery.resolve_table) interpreted on 12 name shapes x default namespace x alias x single-integration catalog give "
         "the same decision (first part is the database exactly when the name has more parts and that part in any letter case is a "
         "database, reported lower-cased; default namespace otherwise; PlanningException when none; the reference unchanged); "
         "prepare_integration_select and get_query_info are interpreted on probe identifiers / queries (fail-closed AST "
         "interpreter): the qualifier is stripped exactly for multi-part names whose first part is the integration in any "
         "letter case, a CTE shadows exactly its unqualified name; table branches are control-dependent on `not a model`; "
         "steps that name a model take the name (with version) from the reference in the query.",
    note="Table discovery completeness is C13's verdict (a position the walker skips is invisible to routing). Dead code "
         "(functions referenced nowhere in mindsdb_sql) carries no obligations and is listed in the evidence notes.",
    technique="interprocedural must-dataflow (case-normalised names) + truth tables (abstract interpretation) of the resolvers, model lookup, qualifier strip and CTE filter")

CLAIMS["C11"] = dict(
    level="other", engine="pyflow",
    text="Decides the shape clauses of the statement, not execution equivalence: both sibling gates "
         "(QueryPlanner.check_single_integration, PlanJoin.check_single_integration) are interpreted on the complete space of "
         "abstract facts (MindsDB entities x integration set {none, one, files, views, two} x user function x class_type "
         "{api, sql, absent, not in catalog}: 80 rows each) and must accept exactly the rows the statement names; on "
         "acceptance the only effects are prepare_integration_select(<gate integration>, <analysed query>) and one "
         "add_step(FetchDataframeStep(integration=<gate integration>, query=<same object>)) followed by an immediate return "
         "(PlanJoin.plan and from_query interpreted with the gate's answer given), on refusal no effect; prepare_integration_select interpreted on ~480 probe "
         "identifiers removes exactly the integration qualifier and adds exactly the output-name alias, writes nothing else "
         "and replaces no node; get_query_info interpreted on 13 probe queries classifies references as the gate expects; the "
         "walker it relies on is re-analysed with C13's model (every field visited once with the right flags).",
    note="That removing the qualifier preserves meaning for every query (aliases shadowing the integration name) needs SQL "
         "scope resolution over all programs and is not decided; the rule only proves the rewrite touches nothing else.",
    technique="truth-table interpretation of the sibling gates + effect sequence on the accept path + write-set/guard analysis of the rewrite callback")

CLAIMS["C08"] = dict(
    level="other", engine="pyflow",
    text="Result equivalence of plan execution is NOT decided. Decided are necessary conditions of the statement's last sentence, "
         "as complete truth tables of the join planner's own decision code obtained by interpreting its functions on abstract "
         "stand-ins (fail-closed AST interpreter, ~2500 rows): check_query_conditions hands only top-level WHERE conjuncts to the "
         "per-table filter collector (15 WHERE shapes: AND chains, OR, NOT, function argument, CASE, IN sub-select, BETWEEN) and "
         "counts all conjuncts; check_node_condition registers only column-vs-constant comparisons, never IS NULL, and the "
         "registered copy is the same comparison; get_filters_from_join_conditions returns nothing for every join kind of the "
         "grammars that keeps unmatched rows of the fetched table, and get_join_sequence attaches kind and ON of the right join; "
         "check_use_limit over limit x group_by x having x distinct x aggregate targets x 66 join-sequence shapes; process_table "
         "over use_limit x conjunct counts x OR x order-by origin x offset (LIMIT/OFFSET/ORDER moved only when every WHERE conjunct "
         "is applied in that fetch, ordering columns are its own, OFFSET in exactly one place); plan() re-applies the complete "
         "outer query; a CTE shadows only an unqualified name; a sub-select member of a join is planned as written and the outer "
         "conditions on it are applied once (inside only for shapes where that commutes); the semi-join filter of each table takes the "
         "distinct values of the column of the table it names (chain of three tables with equally named keys); set operations become one "
         "UnionStep over unchanged operands; plan_api_db_select over group_by x having x distinct x offset x targets x limit sends LIMIT "
         "to an api integration only when it counts fetched rows and re-applies everything else outside.",
    note="Two known findings (pinned by existing tests): the kind of the last join is never inspected, so LIMIT/OFFSET/ORDER BY go below "
         "an INNER JOIN; OFFSET is moved into the first fetch and counts rows of the table instead of rows of the join. Not analysed: "
         "plan_nested_select, NULL keys in the IN semi-join.",
    technique="abstract interpretation of the planner's decision functions over finite fact spaces (truth tables) against reference pushdown conditions")

CLAIMS["C14"] = dict(
    level="other", engine="pyflow",
    text="Decides the argument / filter split and the shape of the apply step, not the rows that reach the model: "
         "process_predictor is interpreted on abstract stand-ins (fail-closed AST interpreter) over 4 to_predict forms x 65 "
         "subsets of a family of model conditions (equality either side, parameter, inequality, BETWEEN, predict target) - the "
         "row_dict holds exactly the equalities with a constant/parameter except the target, a condition is neutralised in the "
         "outer query iff it was consumed, exactly one ApplyPredictorStep is built on the step on top of the stack with the "
         "model's own namespace/identifier and pushed once; 10 USING forms (keys lower-cased, own alias stripped in any case, "
         "others' options not taken, values untouched, partition_size removed and handed to the partition); "
         "join_condition_to_columns_map on 7 ON shapes (only equality model-column/other-column maps, mapped conditions and "
         "only those are removed from the join); alias attribution is case-insensitive; that only top-level WHERE conjuncts "
         "are attributed at all is C08's table, re-run here.",
    note="plan_predictor.split_filters is unreachable from from_query (dead code) and not analysed.",
    technique="abstract interpretation of process_predictor / columns-map / attribution over finite condition and option families")

CLAIMS["C15"] = dict(
    level="other", engine="pyflow",
    text="The rows selected on data (ties, NULL times, empty partitions) are NOT decided. Decided: the queries the planner "
         "builds. plan_timeseries_predictor, plan_fetch_timeseries_partitions, plan() and the four ts_utils helpers are "
         "interpreted together on abstract stand-ins (fail-closed AST interpreter) for 9 time conditions (>, >=, =, <, <=, "
         "BETWEEN, > LATEST, = LATEST, none) x partition filter position x 0..2 group columns x LIMIT: every fetch query is "
         "compared with the reference window query (ORDER BY time DESC LIMIT window, bound = order-complement of the user's "
         "lower bound, none for LATEST) and range query (the user's condition, no LIMIT), each with time IS NOT NULL, the "
         "user's partition filter, one $var conjunct per group column and nothing else; the partition query is DISTINCT group "
         "columns under the non-time filters; output_time_filter is the user's condition; the user's LIMIT appears in no "
         "fetch and becomes a LimitOffsetStep on the JoinStep's result; ORDER BY / GROUP BY / HAVING / OFFSET / other columns "
         "/ other operators / two time conditions end in PlanningException before any step is added.",
    note="`time = v` is passed on as output filter `time > v`: pinned by test_join_predictor_timeseries_concrete_date_equal and "
         "taken as reference. The dbt path (adapt_dbt_query) is not analysed.",
    technique="abstract interpretation of the time-series planner and its helpers over the finite operator x filter x grouping space against reference window/range queries")

# rules added after the claim texts were written (DESIGN 9.19): appended to the claim text of the property
ADDENDA = {
    "C19": " Also: The suggestion filter is an interpreted table with call histories.",
    "C18": " Also: Classes compared through vars(self) assign the same attributes on every constructor path.",
    "C02": " Also: sly's defaulted states (computed by its own code on the reconstructed tables) never default-reduce an empty production where the error callback can return (driver termination in panic mode).",
    "C01": " Also: numbers print as one numeric literal of the library's lexer that reads back as the value (C07's table, incl. 1e+16 / 1e-07). Names the grammar keeps as raw id token text are printed as that text (carriers found by interpreting the actions).",
    "C03": " Also: an operator token spelled with several words is one token under every ignored white space between the words (ordered-lexer simulation). The operator actions leave their operands (parentheses marks included) untouched.",
    "C04": " Also: parse_sql (interpreted with recording stand-ins) hands the lexer the caller's text, trimmed only at its ends; a part of a name is never the "
           "re-printed value of a numeric nonterminal.",
    "C06": " Also: no branch of an isinstance dispatch of the renderer is shadowed by an earlier branch for an ancestor class (real hierarchy); EXISTS / NOT EXISTS / "
           "NOT / unary minus by interpretation.",
    "C07": " Also: the printed literal is decoded back by the library's own interpreted decoder (C04's table), not only by the reference decoder.",
    "C08": " Also: plan_join_tables interpreted end to end for every join kind x 2 / 3 tables x placement of the conjuncts: under an outer join the re-applied WHERE keeps "
           "every conjunct.",
    "C09": " Also: no mutable default argument in the planner is stored, returned, handed on or changed (one step list shared by every plan).",
    "C10": " Also: resolve_table followed by process_table (both interpreted) names <integration>.<rest of the name as written> in the fetch. Both single-integration gates classify the whole query (decision table shared with C11).",
    "C12": " Also: a second execute_steps on the same prepared statement is refused or binds the new values to a statement that still has its placeholders.",
    "C13": " Also: the components of unpacked elements of one field are visited in one loop, not in separate passes.",
    "C16": " Also: every embedding production interpreted with the real node constructors: the node holds exactly the text tokens_to_string rebuilt. The text the lexer tokenizes is the caller's (parse_sql and every tokenize override interpreted on an all-categories Unicode probe).",
    "C20": " Also: no mutable default argument (list / dict / set display) is stored, returned, handed on or changed by its function. Renderer methods undo what they write into self in a finally (or reset / memoise).",
}

ADDENDA["C04"] = ADDENDA.get("C04", " Also:") + " Lexer tokenize overrides hand the text on unchanged (all-categories Unicode probe)."
ADDENDA["C08"] = ADDENDA.get("C08", " Also:") + " A select in FROM is planned clause for clause as written (672 inner x outer clause combinations)."
ADDENDA["C06"] = ADDENDA.get("C06", " Also:") + " Qualified names are columns whatever their last part spells; f(x FROM y) passes x as an expression; + is kept by the generic operator (SQLAlchemy's __add__ concatenates over string-typed operands)."

ADDENDA["C01"] = ADDENDA.get("C01", " Also:") + " Fields the grammars fill from numbers are not presence-tested by truthiness in printers."
ADDENDA["C02"] = ADDENDA.get("C02", " Also:") + " A lookup keyed by text derived from a token must be guarded."
ADDENDA["C03"] = ADDENDA.get("C03", " Also:") + " A compound operator that arrives as two tokens builds the compound operation; parentheses are kept around unary / BETWEEN operands too."
ADDENDA["C05"] = ADDENDA.get("C05", " Also:") + " No parser method re-enters the driver on self."
ADDENDA["C07"] = ADDENDA.get("C07", " Also:") + " get_string renders with the constants in the text (call bound to get_exec_params' signature)."
ADDENDA["C09"] = ADDENDA.get("C09", " Also:") + " CTE results are written and read under the same spelling (plan_cte / get_integration_select_step interpreted)."
ADDENDA["C10"] = ADDENDA.get("C10", " Also:") + " Re-runs C13's walker matrix incl. renderer-reads-visited."
ADDENDA["C13"] = " Also: only child-carrying fields are visited; the renderer takes children only from fields the walker maintains."
ADDENDA["C14"] = " Also: re-runs C10's catalog rules; a fully qualified column keeps its table through plan_join_tables' normalisation."
ADDENDA["C16"] = ADDENDA.get("C16", " Also:") + " tokens_to_string leaves the tokens unchanged."
ADDENDA["C18"] = ADDENDA.get("C18", " Also:") + " No printer / comparison method mentions object identity."
ADDENDA["C19"] = ADDENDA.get("C19", " Also:") + " Token objects are not changed on the way (C16's table)."
ADDENDA["C20"] = ADDENDA.get("C20", " Also:") + " No hash() of text / id() / clock / random reaches a result."
ADDENDA["C01"] = ADDENDA.get("C01", " Also:") + " Parameter values (USING / SET) are printed as literals the grammar's decoder reads back."
ADDENDA["C02"] = ADDENDA.get("C02", " Also:") + " parse_sql never formats the tree it returns."
ADDENDA["C04"] = ADDENDA.get("C04", " Also:") + " Actions that make a name from raw id text take the back-quotes off; blanks inside quotes belong to the name."
ADDENDA["C06"] = ADDENDA.get("C06", " Also:") + " A window frame is refused or rendered as the frame spelled, in any letter case (36 spellings)."
ADDENDA["C07"] = ADDENDA.get("C07", " Also:") + " The literal codec is examined for a renderer built from a dialect name and from a dialect class; native query text survives text() (reference regexes)."
ADDENDA["C08"] = ADDENDA.get("C08", " Also:") + " Alias / table-name collisions between join members; same-named tables of two databases; CTE column lists."
ADDENDA["C09"] = ADDENDA.get("C09", " Also:") + " FROM (sub-select): the outer query runs over the step of that sub-select."
ADDENDA["C10"] = ADDENDA.get("C10", " Also:") + " An inner select FROM a CTE name reaches the CTE route under any default namespace."
ADDENDA["C11"] = ADDENDA.get("C11", " Also:") + " Gate facts include integrations whose names contain files / views."
ADDENDA["C12"] = ADDENDA.get("C12", " Also:") + " The walker's replace table (every subset of three list elements replaced, interpreted) is re-run."
ADDENDA["C13"] = ADDENDA.get("C13", " Also:") + " query_traversal interpreted on every list field with every subset of three elements replaced."
ADDENDA["C14"] = ADDENDA.get("C14", " Also:") + " A table after an open partition leaves [partition, fetch] on the step stack."
ADDENDA["C19"] = ADDENDA.get("C19", " Also:") + " Lexer message probes with line ends inside comments / strings and with the illegal character in the first line."
ADDENDA["C20"] = ADDENDA.get("C20", " Also:") + " Stores to attributes of other repository classes are class-level writes."

# wave 10
ADDENDA["C01"] = ADDENDA.get("C01", " Also:") + " Different nestings of set operations print different text; the text of an INTERVAL (hostile string probes) stays inside its literal."
ADDENDA["C03"] = ADDENDA.get("C03", " Also:") + " Operator productions whose right operand is a fixed word (a > LAST) and NOT in infix position (a NOT NULL) take part in the grouping obligations, reduce/reduce with a name production included."
ADDENDA["C04"] = ADDENDA.get("C04", " Also:") + " The kinds of value the number rules produce (int, float, Decimal) are the kinds the printer table covers; statement-end look-alikes inside literals reach the lexer unchanged."
ADDENDA["C06"] = ADDENDA.get("C06", " Also:") + " A WITH clause is attached at its own level (nesting) for every target; / is the operator as written (not SQLAlchemy 2's true division) and generic operators carry the precedence of their class."
ADDENDA["C07"] = ADDENDA.get("C07", " Also:") + " The literal encoders give the same text in any history of renderings (one interpreter, all targets twice); @compiles hooks keep element text inside one literal of the target."
ADDENDA["C09"] = ADDENDA.get("C09", " Also:") + " from_query resets whatever planning stores in the planner; the time-series join hands only a table / native query on."
ADDENDA["C10"] = ADDENDA.get("C10", " Also:") + " Planner stand-ins get their catalog from the real __init__; catalogs in which a project is also listed as an integration."
ADDENDA["C12"] = ADDENDA.get("C12", " Also:") + " An empty value list is a number of values; the bound Constant keeps the placeholder's alias and brackets."
ADDENDA["C14"] = ADDENDA.get("C14", " Also:") + " Conditions that repeat a model column."
ADDENDA["C15"] = ADDENDA.get("C15", " Also:") + " LIMIT 0; value-first time conditions (5 < t); every ORDER BY is refused; the data side of the join is a table or native query."
ADDENDA["C18"] = ADDENDA.get("C18", " Also:") + " Plans built along different histories from equal steps are equal; a field equality ignores is not written by a printer."
ADDENDA["C19"] = ADDENDA.get("C19", " Also:") + " The parser stand-in carries sly's post-parse state; a candidate whose re-parse a grammar rule refuses is not suggested."
ADDENDA["C20"] = ADDENDA.get("C20", " Also:") + " The expected tokens handed to the error callback are hash-ordered; from_query resets per-statement planner state."

NA_PENDING = "check under construction in this session; not claimed until its rule module is committed"


def main():
    props = [json.loads(l) for l in open(os.path.join(HERE, 'properties.jsonl'))]
    m = {
        "version": 1,
        "setup_cmd": "/venv/bin/python -m compileall -q sa selftest && ./check selftest --smoke",
        "hooks": {"guard": "MINDSDB_SQL_VERIF",
                  "enable": "none needed: every check is a static analysis of /repo's source text; no hook or "
                            "instrumentation is added to mindsdb_sql",
                  "baseline_off_cmd": "cd /repo && /venv/bin/python -m pytest -ra -q -p no:cacheprovider --timeout=900 "
                                      "--continue-on-collection-errors",
                  "source_commits": [], "add_only": True},
        "engines": [],
        "checks": [],
        "not_applicable": [],
        "notes": "Technique family: static analysis only (ast / re._parser over /repo's working tree; nothing from "
                 "mindsdb_sql or sly is imported or executed by a registered command). See DESIGN.md.",
    }
    for e in ENGINES:
        e = dict(e)
        e["serves_properties"] = sorted(k for k, v in CLAIMS.items() if v["engine"] == e["name"])
        m["engines"].append(e)
    for p in props:
        pid = p["id"]
        c = CLAIMS.get(pid)
        if c and os.path.isfile(os.path.join(HERE, 'sa', 'rules', pid + '.py')):
            m["checks"].append({
                "property_id": pid,
                "quick_cmd": f"./check {pid} --tier quick",
                "thorough_cmd": f"./check {pid} --tier thorough",
                "evidence_file": f"/verif/evidence/{pid}.json",
                "replay_cmd_template": f"./check {pid} --replay {{path}}",
                "engine": c["engine"],
                "level_claimed": {"category": c["level"], "text": c["text"] + ADDENDA.get(pid, ""), "design_ref": f"DESIGN.md section 4, {pid}"},
                "level_note": c["note"],
                "technique": c["technique"],
            })
        else:
            m["not_applicable"].append({"property_id": pid, "reason": NA.get(pid, NA_PENDING)})
    with open(os.path.join(HERE, 'MANIFEST.json'), 'w') as f:
        json.dump(m, f, indent=1)
    print('claimed:', [c['property_id'] for c in m['checks']])


NA = {}

if __name__ == '__main__':
    main()
