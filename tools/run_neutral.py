#!/venv/bin/python
"""Apply behaviour-preserving refactorings (neutral/<name>/patch.diff) to /repo one at a time, run ALL quick checks, undo.
Every check must stay silent (exit 0): exit 1 is a false alarm, exit 2 a construct the analysis cannot read.

  tools/run_neutral.py [name-prefix ...]
"""
import json
import os
import subprocess
import sys

HERE = os.path.dirname(os.path.dirname(os.path.abspath(__file__)))
PROPS = [f'C{i:02d}' for i in range(1, 21)]


def sh(cmd, cwd=None):
    p = subprocess.run(cmd, shell=True, cwd=cwd, capture_output=True, text=True)
    return p.returncode, p.stdout + p.stderr


def main():
    d = os.path.join(HERE, 'neutral')
    names = sorted(n for n in os.listdir(d) if os.path.isfile(os.path.join(d, n, 'patch.diff')))
    sel = [a for a in sys.argv[1:] if not a.startswith('-')]
    if sel:
        names = [n for n in names if any(n.startswith(s) for s in sel)]
    rc, out = sh('git status --porcelain', '/repo')
    if out.strip():
        print('refusing: /repo has local changes')
        return 2
    bad = 0
    for n in names:
        patch = os.path.join(d, n, 'patch.diff')
        rc, out = sh(f'git apply {patch}', '/repo')
        if rc:
            print(f'{n:10s} APPLY-FAILED {out.strip()[:120]}')
            continue
        try:
            res = []
            from concurrent.futures import ThreadPoolExecutor
            with ThreadPoolExecutor(10) as ex:
                outs = list(ex.map(lambda p_: (p_,) + sh(f'./check {p_} --tier quick --no-evidence', HERE), PROPS))
            for p, rc, out in outs:
                if rc != 0:
                    line = [l for l in out.splitlines() if l.startswith(('VIOLATION', 'ANALYSIS-ERROR', '  rule='))][:2]
                    res.append(f'{p} rc={rc} ' + ' | '.join(l.strip()[:160] for l in line))
            if res:
                bad += 1
                print(f'{n:10s} ALARM        ' + ' ;; '.join(res))
            else:
                print(f'{n:10s} silent')
        finally:
            sh('git checkout -- .', '/repo')
    return 1 if bad else 0


if __name__ == '__main__':
    sys.exit(main())
