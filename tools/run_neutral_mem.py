#!/venv/bin/python
"""Like run_neutral.py, but in memory (the repository is not touched): every neutral patch x every property through selftest/battery.py's overlay.

  tools/run_neutral_mem.py [name-prefix ...]      e.g.  tools/run_neutral_mem.py C08_n7 _n9
"""
import multiprocessing as mp
import os
import sys

HERE = os.path.dirname(os.path.dirname(os.path.abspath(__file__)))
sys.path.insert(0, HERE)
from selftest import battery  # noqa

PROPS = [f'C{i:02d}' for i in range(1, 21)]


def main():
    d = os.path.join(HERE, 'neutral')
    sel = sys.argv[1:]
    names = sorted(n for n in os.listdir(d) if os.path.isfile(os.path.join(d, n, 'patch.diff')) and (not sel or any(s in n for s in sel)))
    jobs = [(dict(prop=p, name=f'neutral-{n}', patch=os.path.join(d, n, 'patch.diff'), expect='silent'), '/repo') for n in names for p in PROPS]
    with mp.Pool(16, maxtasksperchild=12) as pool:
        res = pool.map(battery.run_mutant, jobs, chunksize=2)
    bad = {}
    skipped = set()
    for m, ok, msg, dt in res:
        if msg.startswith('SKIPPED'):
            skipped.add(m['name'])
        elif not ok:
            bad.setdefault(m['name'], []).append(f"{m['prop']} {msg[:300]}")
    for n in names:
        k = f'neutral-{n}'
        if k in skipped:
            print(f'{n:10s} SKIPPED (stale patch)')
        elif k in bad:
            print(f'{n:10s} ALARM   ' + ' ;; '.join(bad[k]))
        else:
            print(f'{n:10s} silent')
    # the verdict in one line, last: a listing cut by `head` / `tail` cannot hide an alarm
    print(f'{len(names)} patches x {len(PROPS)} checks: {len(bad)} with an alarm ({", ".join(sorted(x[8:] for x in bad)) or "none"}), {len(skipped)} stale')
    return 1 if bad else 0


if __name__ == '__main__':
    sys.exit(main())
