#!/venv/bin/python
"""Take a seeded change delivered by a sub-agent (OUT dir with patch.diff, demo.py, notes.md), verify it myself in a scratch
worktree at /repo HEAD (tools/verify_seed.py), store it as /verif/seeded/<name>/ with meta.json, remove the agent's worktree.

  tools/intake_seed.py <PROP> <OUT dir> <name> [<agent worktree to remove>]
"""
import json
import os
import shutil
import subprocess
import sys

HERE = os.path.dirname(os.path.dirname(os.path.abspath(__file__)))


def main():
    prop, out, name = sys.argv[1:4]
    wt = sys.argv[4] if len(sys.argv) > 4 else None
    dst = os.path.join(HERE, 'seeded', name)
    os.makedirs(dst, exist_ok=True)
    for f in ('patch.diff', 'demo.py', 'notes.md'):
        if not os.path.isfile(os.path.join(out, f)):
            print(f'MISSING {f} in {out}')
            return 1
        shutil.copy(os.path.join(out, f), os.path.join(dst, f))
    if wt:
        subprocess.run(['git', '-C', '/repo', 'worktree', 'remove', '--force', wt])
    p = subprocess.run(['/venv/bin/python', os.path.join(HERE, 'tools', 'verify_seed.py'), dst], capture_output=True, text=True)
    res = json.loads(p.stdout.strip().splitlines()[-1])
    res.pop('rebased_patch', None)
    head = subprocess.check_output(['git', '-C', '/repo', 'rev-parse', '--short', 'HEAD'], text=True).strip()
    notes = open(os.path.join(dst, 'notes.md')).read().strip().splitlines()
    meta = {
        'property': prop, 'seed': name,
        'source': 'independent sub-agent given only the property text and a scratch worktree (no access to /verif)',
        'base_commit_of_patch.diff': f'/repo HEAD {head}',
        'needs_to_manifest': next((l for l in notes if l.strip()), '')[:300],
        'verified': {'how': 'tools/verify_seed.py in a scratch git worktree of /repo HEAD: demo exits 0 on the clean tree, patch applies, package imports, '
                            'full pytest suite passes, demo exits 1 with the patch',
                     'applied': res.get('applied'), 'tests': res.get('tests'), 'demo_clean_rc': res.get('demo_clean_rc'),
                     'demo_patched_rc': res.get('demo_patched_rc'), 'demo_output_tail': (res.get('demo_patched_out') or '')[-300:]},
    }
    print(json.dumps({k: res.get(k) for k in ('applied', 'tests', 'demo_clean_rc', 'demo_patched_rc', 'ok')}))
    if res.get('ok'):
        json.dump(meta, open(os.path.join(dst, 'meta.json'), 'w'), indent=1)
        shutil.rmtree(out, ignore_errors=True)
        return 0
    print('NOT KEPT (verification failed); files left in', dst)
    return 1


if __name__ == '__main__':
    sys.exit(main())
