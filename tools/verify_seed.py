#!/venv/bin/python
"""Verify a seeded breaking change in a scratch worktree of /repo (HEAD), never in /repo itself.

  tools/verify_seed.py <dir with patch.diff + demo.py> [--base REV]

Steps: worktree at REV (default HEAD) -> demo must exit 0 -> apply patch (3-way fallback) -> package imports ->
full test suite passes -> demo must exit 1 -> remove worktree.  Prints a one-line JSON verdict.
"""
import json
import os
import shutil
import subprocess
import sys
import tempfile


def sh(cmd, cwd=None, env=None, timeout=900):
    p = subprocess.run(cmd, shell=True, cwd=cwd, env=env, capture_output=True, text=True, timeout=timeout)
    return p.returncode, (p.stdout + p.stderr)


def main():
    d = os.path.abspath(sys.argv[1])
    base = 'HEAD'
    if '--base' in sys.argv:
        base = sys.argv[sys.argv.index('--base') + 1]
    wt = tempfile.mkdtemp(prefix='seedchk_', dir='/tmp')
    os.rmdir(wt)
    res = {'dir': d, 'base': base}
    try:
        rc, out = sh(f'git -C /repo worktree add -q --detach {wt} {base}')
        if rc:
            res['error'] = 'worktree: ' + out
            return res
        env = dict(os.environ, PYTHONPATH=wt)
        rc, out = sh(f'/venv/bin/python {d}/demo.py', cwd=wt, env=env, timeout=600)
        res['demo_clean_rc'] = rc
        if rc != 0:
            res['demo_clean_out'] = out[-400:]
        rc, out = sh(f'git apply {d}/patch.diff', cwd=wt)
        if rc:
            rc, out2 = sh(f'git apply --3way {d}/patch.diff', cwd=wt)
            res['applied'] = '3way' if rc == 0 else 'FAILED'
            if rc:
                res['apply_out'] = (out + out2)[-500:]
                return res
        else:
            res['applied'] = 'clean'
        rc, out = sh('git diff HEAD --stat | tail -1', cwd=wt)
        res['diffstat'] = out.strip()
        rc, out = sh('/venv/bin/python -c "import mindsdb_sql, mindsdb_sql.planner, mindsdb_sql.render.sqlalchemy_render"', cwd=wt, env=env)
        res['imports'] = rc == 0
        rc, out = sh('/venv/bin/python -m pytest -q -p no:cacheprovider -n 6 tests 2>&1 | tail -3', cwd=wt, env=env)
        res['tests'] = out.strip().splitlines()[-1] if out.strip() else ''
        rc, out = sh(f'/venv/bin/python {d}/demo.py', cwd=wt, env=env, timeout=600)
        res['demo_patched_rc'] = rc
        res['demo_patched_out'] = out[-300:]
        # patch relative to this base, for storing
        rc, out = sh('git diff HEAD', cwd=wt)
        res['rebased_patch'] = out
        res['ok'] = (res['demo_clean_rc'] == 0 and res['imports'] and ' passed' in res['tests'] and 'failed' not in res['tests']
                     and res['demo_patched_rc'] == 1)
        return res
    finally:
        sh(f'git -C /repo worktree remove --force {wt}')
        shutil.rmtree(wt, ignore_errors=True)


if __name__ == '__main__':
    r = main()
    patch = r.pop('rebased_patch', None)
    if patch is not None and '--save' in sys.argv:
        with open(os.path.join(r['dir'], 'patch.head.diff'), 'w') as f:
            f.write(patch)
    print(json.dumps(r))
