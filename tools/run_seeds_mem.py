#!/venv/bin/python
"""Like run_seeds.py, but in memory (the repository is not touched): every stored seed against its own property's check through selftest/battery.py's overlay.

  tools/run_seeds_mem.py [name-part ...]      e.g.  tools/run_seeds_mem.py _6 C08_
"""
import multiprocessing as mp
import os
import sys

HERE = os.path.dirname(os.path.dirname(os.path.abspath(__file__)))
sys.path.insert(0, HERE)
from selftest import battery  # noqa


def main():
    d = os.path.join(HERE, 'seeded')
    sel = sys.argv[1:]
    names = sorted(n for n in os.listdir(d) if os.path.isfile(os.path.join(d, n, 'patch.diff')) and (not sel or any(s in n for s in sel)))
    jobs = [(dict(prop=n.split('_')[0], name=f'seed-{n}', patch=os.path.join(d, n, 'patch.diff'), expect='fire', rule=None), '/repo') for n in names]
    with mp.Pool(16, maxtasksperchild=12) as pool:
        res = pool.map(battery.run_mutant, jobs, chunksize=1)
    bad = 0
    for m, ok, msg, dt in res:
        tag = 'SKIPPED' if msg.startswith('SKIPPED') else ('CAUGHT ' if ok else 'MISSED ')
        if tag == 'MISSED ':
            bad += 1
        print(f"{m['name'][5:]:8s} {tag} {msg[:200]}")
    return 1 if bad else 0


if __name__ == '__main__':
    sys.exit(main())
