#!/venv/bin/python
"""every reverse patch of a repo fix (reverts/) against its property's check, in memory: each must be reported.  tools/run_reverts.py"""
import sys, os, multiprocessing as mp
sys.path.insert(0, os.path.dirname(os.path.dirname(os.path.abspath(__file__))))
from selftest import battery
d=os.path.join(os.path.dirname(os.path.dirname(os.path.abspath(__file__))), 'reverts')
jobs=[(dict(prop=n.split('_')[0], name=f'revert-{n}', patch=os.path.join(d,n,'patch.diff'), expect='fire', rule=None), '/repo') for n in sorted(os.listdir(d))]
with mp.Pool(8) as pool:
    for m, ok, msg, dt in pool.map(battery.run_mutant, jobs, chunksize=1):
        print(m['name'], 'CAUGHT' if ok else 'MISSED', msg[:150])
