import sys, json, time, ast
sys.path.insert(0, '/tmp/proto')
import gx

def set_eval(path, name):
    # evaluate module-level 'name' bound via Lexer.tokens.copy()/.remove() -> (lexer class name, removed)
    t = ast.parse(open(path).read()); src=None; removed=[]
    for st in t.body:
        if isinstance(st, ast.Assign) and isinstance(st.targets[0], ast.Name) and st.targets[0].id == name:
            src = ast.unparse(st.value)
        if isinstance(st, ast.Expr) and isinstance(st.value, ast.Call) and ast.unparse(st.value.func) == name + '.remove':
            removed.append(st.value.args[0].value)
    return src, removed

def lexer_tokens(path, cls):
    t = ast.parse(open(path).read())
    c = [n for n in t.body if isinstance(n, ast.ClassDef) and n.name == cls][0]
    for st in c.body:
        if isinstance(st, ast.Assign) and st.targets[0].id == 'tokens':
            return st.value
class Grammar: pass

def build(prods_raw, prec, tokens):
    # prods_raw: list of (name, rulestr, line)
    P = [("S'", (prods_raw[0][0],), ('right', 0), 0)]
    precmap = {}
    for lvl, row in enumerate(prec, 1):
        for t in row[1:]: precmap[t] = (row[0], lvl)
    terms = set(tokens) | {'error'}
    for name, r, line in prods_raw:
        syms = r.split()
        if '%prec' in syms:
            pp = precmap[syms[-1]]; syms = syms[:-2]
        else:
            rt = None
            for s in reversed(syms):
                if s in terms: rt = s; break
            pp = precmap.get(rt, ('right', 0))
        P.append((name, tuple(syms), pp, line))
    return P, precmap, terms

def lalr(P, precmap, terms):
    nts = {}
    for i, (n, rhs, pp, ln) in enumerate(P): nts.setdefault(n, []).append(i)
    nullable = set(); ch = True
    while ch:
        ch = False
        for n, rhs, pp, ln in P:
            if n not in nullable and all(s in nullable for s in rhs): nullable.add(n); ch = True
    def closure(kernel):
        J = list(kernel); seen = set(J); added = set(); i = 0
        while i < len(J):
            p, d = J[i]; i += 1
            rhs = P[p][1]
            if d < len(rhs) and rhs[d] in nts and rhs[d] not in added:
                added.add(rhs[d])
                for q in nts[rhs[d]]:
                    if (q, 0) not in seen: seen.add((q, 0)); J.append((q, 0))
        return J
    states = [closure([(0, 0)])]; kidx = {((0, 0),): 0}; trans = {}
    i = 0
    while i < len(states):
        I = states[i]
        syms = []
        for p, d in I:
            rhs = P[p][1]
            if d < len(rhs) and rhs[d] not in syms: syms.append(rhs[d])
        for x in syms:
            k = tuple((p, d + 1) for p, d in I if d < len(P[p][1]) and P[p][1][d] == x)
            if k not in kidx: kidx[k] = len(states); states.append(closure(list(k)))
            trans[(i, x)] = kidx[k]
        i += 1
    # DeRemer-Pennello
    ntrans = [(s, x) for (s, x) in trans if x in nts]
    DR = {}; reads = {}; includes = {t: [] for t in ntrans}; lookback = {}
    for (s, A) in ntrans:
        r = trans[(s, A)]
        dr = set(x for (q, x) in trans if q == r and x not in nts) if False else None
    succ = {}
    for (s, x), r in trans.items(): succ.setdefault(s, []).append((x, r))
    for (s, A) in ntrans:
        r = trans[(s, A)]
        DR[(s, A)] = set(x for x, _ in succ.get(r, []) if x not in nts)
        if s == 0 and A == P[0][1][0]: DR[(s, A)].add('$end')
        reads[(s, A)] = [(r, x) for x, _ in succ.get(r, []) if x in nullable]
    for (s, A) in ntrans:
        for p in nts[A]:
            rhs = P[p][1]; q = s
            for j, sym in enumerate(rhs):
                if sym in nts and all(y in nullable for y in rhs[j + 1:]):
                    includes[(q, sym)].append((s, A))
                q = trans[(q, sym)]
            lookback.setdefault((q, p), []).append((s, A))
    def digraph(X, R, F0):
        N = {x: 0 for x in X}; F = {}; stack = []
        sys.setrecursionlimit(100000)
        def trav(x, d):
            stack.append(x); N[x] = d; F[x] = set(F0[x])
            for y in R.get(x, []):
                if N[y] == 0: trav(y, d + 1)
                N[x] = min(N[x], N[y]); F[x] |= F[y]
            if N[x] == d:
                while True:
                    z = stack.pop(); N[z] = 1 << 60; F[z] = F[x]
                    if z == x: break
        for x in X:
            if N[x] == 0: trav(x, 1)
        return F
    Read = digraph(ntrans, reads, DR)
    Follow = digraph(ntrans, includes, Read)
    LA = {}
    for (q, p), lbs in lookback.items():
        s = set()
        for t in lbs: s |= Follow[t]
        LA[(q, p)] = s
    # tables with sly's resolution (order: items in state order; lookaheads sorted for determinism)
    action = []
    for st, I in enumerate(states):
        act = {}; actp = {}
        for p, d in I:
            name, rhs, pp, ln = P[p]
            if d == len(rhs):
                if p == 0: act['$end'] = 0; actp['$end'] = p; continue
                for a in LA.get((st, p), ()):
                    r = act.get(a)
                    if r is not None:
                        if r > 0:
                            sprec, slevel = precmap.get(a, ('right', 0)); rprec, rlevel = pp
                            if slevel < rlevel or (slevel == rlevel and rprec == 'left'): act[a] = -p; actp[a] = p
                            elif slevel == rlevel and rprec == 'nonassoc': act[a] = None
                        else:
                            if P[-r][3] > ln: act[a] = -p; actp[a] = p
                    else: act[a] = -p; actp[a] = p
            else:
                a = rhs[d]
                if a not in nts:
                    j = trans[(st, a)]; r = act.get(a)
                    if r is not None:
                        if r > 0: assert r == j
                        else:
                            rprec, rlevel = P[actp[a]][2]; sprec, slevel = precmap.get(a, ('right', 0))
                            if slevel > rlevel or (slevel == rlevel and rprec == 'right'): act[a] = j; actp[a] = p
                            elif slevel == rlevel and rprec == 'nonassoc': act[a] = None
                    else: act[a] = j; actp[a] = p
        action.append(act)
    return states, trans, action

if __name__ == '__main__':
    path, cls = sys.argv[1], sys.argv[2]
    toks = json.load(open(sys.argv[3]))
    prods, prec = gx.extract(path, cls)
    exp = []
    for n, r, l in prods:
        if isinstance(r, tuple):
            src, removed = set_eval(path, r[1])
            for t in toks:
                if t not in removed: exp.append((n, t, l))
        else: exp.append((n, r, l))
    t0 = time.time()
    P, precmap, terms = build(exp, prec, toks)
    states, trans, action = lalr(P, precmap, terms)
    print(cls, 'prods', len(P), 'states', len(states), 'time %.1fs' % (time.time() - t0))
    import pickle
    pickle.dump((P, [tuple(s) for s in states], action), open(sys.argv[4], 'wb'))
