from mindsdb_sql.parser.dialects.mindsdb.parser import MindsDBParser
from mindsdb_sql.parser.dialects.mysql.parser import MySQLParser
from mindsdb_sql.parser.parser import SQLParser
ARITH_MUL={'STAR','DIVIDE','MODULO'}; ARITH_ADD={'PLUS','MINUS'}
CMP={'EQUALS','NEQUALS','LESS','LEQ','GREATER','GEQ','IN','NOT_IN','LIKE','NOT_LIKE','IS','IS_NOT','BETWEEN'}
def cls(t):
    if t in ARITH_MUL: return 5
    if t in ARITH_ADD: return 4
    if t in CMP: return 3
    if t=='AND': return 1
    if t=='OR': return 0
    return None
for P in (MindsDBParser, MySQLParser, SQLParser):
    g=P._grammar; t=P._lrtable
    C=t.lr0_items() if False else None
    bad={}
    nchecked=0
    # iterate states: need items per state: recompute via state_descriptions? use lr_action + productions lookaheads
    for p in g.Productions[1:]:
        if p.name!='expr': continue
        prod=p.prod
        kind=None
        if len(prod)==3 and prod[0]=='expr' and prod[2]=='expr' and cls(prod[1]) is not None: kind=('bin',prod[1],cls(prod[1]))
        elif prod==('MINUS','expr'): kind=('un','UMINUS',6)
        elif prod==('NOT','expr'): kind=('un','NOT',2)
        elif prod==('expr','BETWEEN','expr','AND','expr'): kind=('bin','BETWEEN',3)
        elif prod==('expr','NOT','IN','expr'): kind=('bin','NOT IN',3)
        if not kind: continue
        last=p.lr_items[-1] if hasattr(p,'lr_items') else None
        # p.lr_items[len] is the completed item; lookaheads dict: state->list
        item=p.lr_items[p.len]
        for st,las in item.lookaheads.items():
            for b in las:
                cb=cls(b)
                if cb is None: continue
                act=t.lr_action[st].get(b,'ABSENT')
                if act=='ABSENT': got='absent'
                elif act is None: got='error'
                elif act>0: got='shift'
                elif act==-p.number: got='reduce'
                else: got='reduce-other:%s'%g.Productions[-act]
                ca=kind[2]
                if ca==3 and cb==3: continue
                if ca>cb: exp='reduce'
                elif ca<cb: exp='shift'
                else: exp='reduce'  # left assoc
                nchecked+=1
                if got!=exp: bad.setdefault((kind[1],b,exp,got),[]).append(st)
    print(P.__name__,'checked',nchecked,'bad',len(bad))
    for k,v in sorted(bad.items()): print('   ',k,'states',v[:5])
