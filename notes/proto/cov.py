import ast, os
root='/repo/mindsdb_sql'
cls={}
for dp,dn,fn in os.walk(root):
    for f in fn:
        if f.endswith('.py'):
            t=ast.parse(open(os.path.join(dp,f)).read())
            for n in ast.walk(t):
                if isinstance(n,ast.ClassDef): cls[n.name]=n
def meth(c,name,seen=()):
    n=cls.get(c)
    if not n: return None
    for m in n.body:
        if isinstance(m,ast.FunctionDef) and m.name==name: return m,c
    for b in n.bases:
        r=meth(ast.unparse(b).split('.')[-1],name)
        if r: return r
def reads(c,mname,depth=0,seen=None):
    seen=seen or set()
    r=meth(c,mname)
    if not r or (r[1],mname) in seen: return set()
    seen.add((r[1],mname))
    out=set()
    for s in ast.walk(r[0]):
        if isinstance(s,ast.Attribute) and isinstance(s.value,ast.Name) and s.value.id=='self':
            if meth(c,s.attr): out|=reads(c,s.attr,depth+1,seen)
            else: out.add(s.attr)
    return out
for c in sorted(cls):
    if not meth(c,'to_tree') or not meth(c,'get_string'): continue
    tt=reads(c,'to_tree'); gs=reads(c,'to_string')|reads(c,'get_string')
    d=tt-gs-{'__class__'}
    if d: print(c,'to_tree reads but printer does not:',d)
