import ast, os, sys, collections
root='/repo/mindsdb_sql'
classes={}
for dp,dn,fn in os.walk(root):
    for f in fn:
        if not f.endswith('.py'): continue
        p=os.path.join(dp,f); t=ast.parse(open(p).read())
        for n in ast.walk(t):
            if isinstance(n,ast.ClassDef):
                bases=[ast.unparse(b) for b in n.bases]
                attrs=[]; meths=[]
                for m in n.body:
                    if isinstance(m,ast.FunctionDef):
                        meths.append(m.name)
                        if m.name=='__init__':
                            for s in ast.walk(m):
                                if isinstance(s,ast.Attribute) and isinstance(s.ctx,ast.Store) and isinstance(s.value,ast.Name) and s.value.id=='self': 
                                    if s.attr not in attrs: attrs.append(s.attr)
                classes[n.name]=(p.replace(root+'/',''),bases,attrs,meths)
def is_ast(c,seen=()):
    if c=='ASTNode': return True
    if c not in classes or c in seen: return False
    return any(is_ast(b.split('.')[-1],seen+(c,)) for b in classes[c][1])
astc=[c for c in classes if is_ast(c)]
print(len(astc),'AST classes')
for c in sorted(astc):
    p,b,a,m=classes[c]
    special=[x for x in m if x in('to_string','__eq__','__copy__','__deepcopy__','__hash__','__repr__','copy')]
    print(f'{c:28s} {b} attrs={a} {special}')
print('non-AST with __eq__/__hash__:',[(c,classes[c][0]) for c in classes if not is_ast(c) and set(classes[c][3])&{'__eq__','__hash__'}])
