import ast, sys
def extract(path, clsname):
    tree = ast.parse(open(path).read())
    cls = [n for n in tree.body if isinstance(n, ast.ClassDef) and n.name == clsname][0]
    order = []       # first-def order of names
    defs = {}        # name -> list of funcs in def order
    prec = None
    for st in cls.body:
        if isinstance(st, ast.FunctionDef):
            decs = [d for d in st.decorator_list if isinstance(d, ast.Call) and isinstance(d.func, ast.Name) and d.func.id == '_']
            if not decs: continue
            if st.name not in defs: order.append(st.name); defs[st.name] = []
            defs[st.name].append((st, decs))
        elif isinstance(st, ast.Assign) and st.targets[0].id == 'precedence':
            prec = [[(e.id if isinstance(e, ast.Name) else e.value) for e in t.elts] for t in st.value.elts]
    prods = []
    for name in order:
        for st, decs in reversed(defs[name]):      # latest def first
            rules = []
            for d in reversed(decs):               # bottom decorator applied first
                rs = []
                for a in d.args:
                    if isinstance(a, ast.Constant): rs.append(a.value)
                    elif isinstance(a, ast.Starred): rs.append(('*', ast.unparse(a.value)))
                rules.extend(rs[::-1])
            first = min([d.lineno for d in st.decorator_list] + [st.lineno])
            for i, r in enumerate(rules):
                prods.append((name, r, first + len(rules) - 1 - i))
    return prods, prec
if __name__ == '__main__':
    prods, prec = extract(sys.argv[1], sys.argv[2])
    print(len(prods), prec)
    import json; json.dump([(n, r) for n, r, l in prods], open(sys.argv[3], 'w'))
