import ast, sys, collections
def namemap(rhs):
    cnt=collections.Counter(rhs); use=collections.Counter(); names=set()
    for s in rhs:
        if cnt[s]>1: names.add(f'{s}{use[s]}'); use[s]+=1
        else: names.add(s)
    return names
def run(path, cls):
    t=ast.parse(open(path).read()); c=[n for n in t.body if isinstance(n,ast.ClassDef) and n.name==cls][0]
    issues=0; nact=0
    for st in c.body:
        if not isinstance(st,ast.FunctionDef): continue
        decs=[d for d in st.decorator_list if isinstance(d,ast.Call) and getattr(d.func,'id',None)=='_']
        if not decs: continue
        nact+=1
        rules=[]
        for d in decs:
            for a in d.args:
                if isinstance(a,ast.Constant):
                    syms=a.value.split()
                    if '%prec' in syms: syms=syms[:-2]
                    rules.append(syms)
        if not rules: continue
        maps=[namemap(r) for r in rules]; minlen=min(len(r) for r in rules)
        # guarded names: hasattr(p,'x') anywhere in function or getattr(p,'x',default)
        guarded=set()
        for n in ast.walk(st):
            if isinstance(n,ast.Call) and getattr(n.func,'id',None) in('hasattr','getattr') and n.args and getattr(n.args[0],'id',None)=='p' and len(n.args)>=2 and isinstance(n.args[1],ast.Constant):
                guarded.add(n.args[1].value)
        for n in ast.walk(st):
            if isinstance(n,ast.Attribute) and getattr(n.value,'id',None)=='p' and n.attr not in('_slice','lineno','index','end','_stack','_namemap'):
                missing=[' '.join(r) for r,m in zip(rules,maps) if n.attr not in m]
                if missing:
                    # guarded if some hasattr on ANY name in function (coarse) -> report with flag
                    flag='guard-in-fn' if guarded else 'UNGUARDED'
                    print(f'{st.name}:{n.lineno}: p.{n.attr} absent in {len(missing)}/{len(rules)} prods e.g. "{missing[0]}" [{flag}; guards={sorted(guarded)}]'); issues+=1
            if isinstance(n,ast.Subscript) and getattr(n.value,'id',None)=='p' and isinstance(n.slice,ast.Constant) and isinstance(n.slice.value,int) and n.slice.value>=minlen:
                print(f'{st.name}:{n.lineno}: p[{n.slice.value}] >= shortest rhs {minlen} [guards={sorted(guarded)}]'); issues+=1
    print(cls,'actions',nact,'issues',issues)
run(sys.argv[1],sys.argv[2])
