import ast, os, sys
MUT={'append','extend','insert','pop','remove','update','add','discard','clear','sort','reverse','setdefault'}
def scan(path):
    t=ast.parse(open(path).read())
    mod_globals={n.targets[0].id for n in t.body if isinstance(n,ast.Assign) and isinstance(n.targets[0],ast.Name)}
    for fn in ast.walk(t):
        if not isinstance(fn,(ast.FunctionDef,)): continue
        params=[a.arg for a in fn.args.args+fn.args.kwonlyargs if a.arg!='self']
        local_fresh=set()
        for n in ast.walk(fn):
            root=None; what=None
            if isinstance(n,(ast.Attribute,ast.Subscript)) and isinstance(n.ctx,ast.Store):
                b=n.value
                while isinstance(b,(ast.Attribute,ast.Subscript)): b=b.value
                if isinstance(b,ast.Name): root=b.id; what='store '+ast.unparse(n)
            elif isinstance(n,ast.Call) and isinstance(n.func,ast.Attribute) and n.func.attr in MUT:
                b=n.func.value
                while isinstance(b,(ast.Attribute,ast.Subscript)): b=b.value
                if isinstance(b,ast.Name): root=b.id; what='call '+ast.unparse(n)[:60]
            if root is None: continue
            kind='param' if root in params else 'global' if root in mod_globals else None
            if kind: print(f'{os.path.relpath(path,"/repo")}:{n.lineno}:{fn.name}: [{kind}:{root}] {what}')
for p in sys.argv[1:]: scan(p)
