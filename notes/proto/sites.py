import ast, sys, collections
files = sys.argv[1:]
cnt = collections.Counter(); ex = collections.defaultdict(list)
for f in files:
    t = ast.parse(open(f).read())
    for fn in ast.walk(t):
        if not isinstance(fn, (ast.FunctionDef,)): continue
        for n in ast.walk(fn):
            k = None
            if isinstance(n, ast.Subscript) and isinstance(n.ctx, ast.Load):
                s = n.slice
                if isinstance(s, ast.Constant) and isinstance(s.value, str): k = 'sub_strkey'
                elif isinstance(s, ast.Constant) and isinstance(s.value, int):
                    k = 'sub_p_int' if isinstance(n.value, ast.Name) and n.value.id == 'p' else 'sub_int'
                elif isinstance(s, ast.Slice): k = None
                else: k = 'sub_dyn'
            elif isinstance(n, ast.Call) and isinstance(n.func, ast.Attribute) and n.func.attr in ('pop','index','remove') and len(n.args) == 1: k = 'call_' + n.func.attr
            elif isinstance(n, ast.Call) and isinstance(n.func, ast.Name) and n.func.id in ('int','float'): k = 'conv'
            elif isinstance(n, ast.Assert): k = 'assert'
            elif isinstance(n, ast.UnaryOp) and isinstance(n.op, ast.USub) and not isinstance(n.operand, ast.Constant): k = 'usub'
            elif isinstance(n, ast.Raise): k = 'raise'
            elif isinstance(n, ast.BinOp) and isinstance(n.op, (ast.Add, ast.Sub, ast.Mult)) : k='binop'
            if k:
                cnt[k] += 1; ex[k].append(f"{f.split('/')[-1]}:{n.lineno}:{fn.name}: {ast.unparse(n)[:70]}")
print(cnt)
for k in ('sub_strkey','sub_int','sub_dyn','call_pop','call_index','call_remove','conv','assert','usub'):
    print('==',k)
    for e in ex[k][:60]: print('  ',e)
