"""A small fail-closed interpreter for the structured, side-effect-light Python subset the planner's decision code uses.

It evaluates a function's AST on *abstract stand-ins* (Obj) so that a rule can tabulate a decision procedure over a finite
space of facts (a truth table).  Nothing from the repository is imported or executed: statements are walked, expressions are
evaluated by this module, calls go to (a) closures defined in the interpreted function, (b) stand-ins supplied by the rule,
(c) a whitelist of builtins / list / dict / str methods.  Anything else raises AnalysisError (exit 2), never a guess.
"""
import ast
import re

from .source import AnalysisError, norm, dotted


class Obj:
    """stand-in object: `kind` is the class name used by isinstance; attributes are free"""

    def __init__(self, kind, **attrs):
        self.__dict__['kind'] = kind
        self.__dict__['attrs'] = dict(attrs)

    def __getattr__(self, k):
        a = self.__dict__['attrs']
        if k in a:
            return a[k]
        raise AttributeError(k)

    def __setattr__(self, k, v):
        self.__dict__['attrs'][k] = v

    def __eq__(self, other):
        # like ASTNode.__eq__ (structural); annotations (attributes starting with '_') do not count
        if not isinstance(other, Obj):
            return False
        if self is other:
            return True
        a = {k: v for k, v in self.attrs.items() if not k.startswith('_')}
        b = {k: v for k, v in other.attrs.items() if not k.startswith('_')}
        return self.kind == other.kind and a == b

    def __ne__(self, other):
        return not self.__eq__(other)

    def __hash__(self):
        return id(self)

    def clone(self, memo=None):
        memo = {} if memo is None else memo
        if id(self) in memo:
            return memo[id(self)]
        o = Obj(self.kind)
        memo[id(self)] = o
        for k, v in self.attrs.items():
            # attributes starting with '_' are the rule's own annotations (links to other stand-ins): shared, not copied
            o.attrs[k] = v if k.startswith('_') else _clone(v, memo)
        return o

    def __repr__(self):
        return f'<{self.kind} {" ".join(f"{k}={v!r}" for k, v in list(self.attrs.items())[:4])}>'


def _clone(v, memo):
    if isinstance(v, Obj):
        return v.clone(memo)
    if isinstance(v, list):
        return [_clone(x, memo) for x in v]
    if isinstance(v, dict):
        return {k: _clone(x, memo) for k, x in v.items()}
    return v


class Raised(Exception):
    def __init__(self, exc_name, node, obj=None):
        self.exc_name = exc_name
        self.node = node
        self.obj = obj          # the exception stand-in (Obj) when the interpreted code built one


EXC_BASES = {
    'KeyError': {'LookupError', 'Exception'}, 'IndexError': {'LookupError', 'Exception'}, 'AttributeError': {'Exception'}, 'TypeError': {'Exception'},
    'ValueError': {'Exception'}, 'NotImplementedError': {'RuntimeError', 'Exception'}, 'RuntimeError': {'Exception'}, 'AssertionError': {'Exception'},
    'StopIteration': {'Exception'}, 'ZeroDivisionError': {'ArithmeticError', 'Exception'}, 'Exception': set(), 'LookupError': {'Exception'},
}


class _Return(Exception):
    def __init__(self, value):
        self.value = value


class _Break(Exception):
    pass


class _Continue(Exception):
    pass


_FOR_FILE_CACHE = {}


class _GenDone(Exception):
    pass


class GeneratorObj:
    """a lazily evaluated generator function of the interpreted code: the body runs in its own thread and hands values over one at a time, so side effects of
    producer and consumer interleave exactly as in Python"""
    _interp_safe = True

    def __init__(self, interp, fn, args, kwargs, outer_env):
        import threading
        import queue
        self.interp, self.fn, self.args, self.kwargs, self.outer_env = interp, fn, args, kwargs, outer_env
        self.to_consumer = queue.Queue()
        self.to_producer = queue.Queue()
        self.thread = None
        self.finished = False
        self._threading = threading

    def _run(self):
        try:
            self.to_producer.get()
            self.interp._gen_stack.append(self)
            try:
                self.interp.call_function(self.fn, list(self.args), dict(self.kwargs), self.outer_env, _as_generator_body=True)
            finally:
                self.interp._gen_stack.pop()
            self.to_consumer.put(('done', None))
        except BaseException as e:        # hand every failure over to the consumer's thread
            self.to_consumer.put(('error', e))

    def __iter__(self):
        return self

    def __next__(self):
        if self.finished:
            raise StopIteration
        if self.thread is None:
            self.thread = self._threading.Thread(target=self._run, daemon=True)
            self.thread.start()
        mine = self.interp.module
        self.to_producer.put('go')
        kind, val = self.to_consumer.get()
        self.interp.module = mine
        if kind == 'value':
            return val
        self.finished = True
        if kind == 'error':
            raise val
        raise StopIteration


class SuperProxy:
    """super() inside a method of a class of the analysed files: attribute lookup continues in the base classes (in order, depth first)"""

    def __init__(self, interp, cls, obj):
        self.interp, self.cls, self.obj = interp, cls, obj

    def lookup(self, attr):
        it = self.interp
        st_ = it.stubs.get('super().' + attr)
        if callable(st_):
            return lambda *a, **k: st_(it, *a, **k)          # the rule stands in for the inherited method (a library base class)
        todo, seen = list(it.class_bases.get(self.cls, [])), set()
        unknown_base = False
        while todo:
            b = todo.pop(0)
            if b in seen:
                continue
            seen.add(b)
            if b not in it.own_members:
                unknown_base = unknown_base or b != 'object'
                continue
            m = it.own_members[b].get(attr)
            if isinstance(m, ast.FunctionDef):
                return lambda *a, **k: it.call_function(m, [self.obj] + list(a), dict(k), Env())
            todo = list(it.class_bases.get(b, [])) + todo
        if unknown_base:
            raise AnalysisError(f'interpreter: super().{attr} of {self.cls} leads to a class whose source is not loaded')
        if attr == '__init__':
            return lambda *a, **k: None          # object.__init__
        raise Raised('AttributeError', None)


class CallableObj(Obj):
    """stand-in for an instance of a repository class that defines __call__ (a callback object): calling it interprets that method"""

    def __call__(self, *args, **kwargs):
        it = self.__dict__['_interp']
        return it.call_function(it.methods[self.kind]['__call__'], [self] + list(args), dict(kwargs), Env())


class Closure:
    def __init__(self, fn, env, interp):
        self.fn, self.env, self.interp = fn, env, interp

    def __call__(self, *args, **kwargs):
        return self.interp.call_function(self.fn, list(args), kwargs, self.env)


SAFE_METHODS = {
    list: {'append', 'extend', 'pop', 'insert', 'index', 'copy', 'count', 'reverse', 'sort', 'remove', 'clear'},
    dict: {'get', 'items', 'keys', 'values', 'pop', 'setdefault', 'copy', 'update'},
    str: {'upper', 'lower', 'strip', 'lstrip', 'rstrip', 'split', 'rsplit', 'splitlines', 'startswith', 'endswith', 'join', 'replace', 'isdigit', 'format',
          'find', 'rfind', 'index', 'rindex', 'count', 'isalpha', 'isalnum', 'isspace', 'islower', 'isupper', 'title', 'capitalize', 'casefold', 'swapcase',
          'zfill', 'ljust', 'rjust', 'center', 'partition', 'rpartition', 'removeprefix', 'removesuffix', 'expandtabs', 'isidentifier', 'isnumeric',
          'isdecimal', 'istitle', 'translate'},
    set: {'add', 'discard', 'copy', 'update', 'isdisjoint', 'issubset', 'issuperset', 'union', 'intersection', 'difference'},
    tuple: {'index', 'count'},
    re.Match: {'group', 'groups', 'start', 'end', 'span'},
    re.Pattern: {'fullmatch', 'match', 'search', 'findall', 'split', 'finditer'},
}


def _json_pure(v, k):
    import json

    def plain(x):
        if isinstance(x, (Obj, ClassRef)):
            raise Raised('TypeError', None)          # json.dumps of an object that is not JSON data
        if isinstance(x, dict):
            return all(plain(a) and plain(b) for a, b in x.items())
        if isinstance(x, (list, tuple)):
            return all(plain(a) for a in x)
        return True
    plain(v)
    return json.dumps(v, **{kk: vv for kk, vv in k.items() if kk in ('indent', 'sort_keys', 'ensure_ascii', 'separators')})


def _re_sub(it, pat, repl, s, *a, **k):
    return re.sub(pat, (lambda m: repl(m)) if callable(repl) else repl, s, *a, **k)


import textwrap as _textwrap

import decimal as _decimal

PURE_STDLIB = {
    'Decimal': lambda it, x: _decimal.Decimal(x), 'decimal.Decimal': lambda it, x: _decimal.Decimal(x),
    'textwrap.dedent': lambda it, s: _textwrap.dedent(s), 'textwrap.indent': lambda it, s, p: _textwrap.indent(s, p),
    're.sub': _re_sub, 're.match': lambda it, p, s, *a, **k: re.match(p, s, *a, **k), 're.fullmatch': lambda it, p, s, *a, **k: re.fullmatch(p, s, *a, **k),
    're.search': lambda it, p, s, *a: re.search(p, s, *a), 're.split': lambda it, p, s, *a: re.split(p, s, *a), 're.findall': lambda it, p, s, *a: re.findall(p, s, *a),
    're.escape': lambda it, s: re.escape(s), 're.compile': lambda it, p, *a: re.compile(p, *[x for x in a if isinstance(x, int)]),
    'json.dumps': lambda it, v, *a, **k: _json_pure(v, k),
    'json.loads': lambda it, v, *a, **k: __import__('json').loads(v),
    're.finditer': lambda it, p, s, *a: list((p if isinstance(p, re.Pattern) else re.compile(p)).finditer(s)),
    'defaultdict': lambda it, f=None: _defaultdict(f), 'collections.defaultdict': lambda it, f=None: _defaultdict(f),
    'OrderedDict': lambda it, *a: dict(*a), 'collections.OrderedDict': lambda it, *a: dict(*a),
    'functools.partial': lambda it, f, *a, **k: _partial(it, f, a, k), 'partial': lambda it, f, *a, **k: _partial(it, f, a, k),
    'functools.reduce': lambda it, f, seq, *init: _reduce(f, seq, init), 'reduce': lambda it, f, seq, *init: _reduce(f, seq, init),
    'itertools.product': lambda it, *seqs, **k: [tuple(x) for x in __import__('itertools').product(*[list(s_) for s_ in seqs], **k)],
    'itertools.islice': lambda it, seq, *a: list(__import__('itertools').islice(iter(seq), *a)),
    'operator.attrgetter': lambda it, name: (lambda o: it._getattr(o, name, name)),
    'operator.itemgetter': lambda it, *ks: ((lambda o: o[ks[0]]) if len(ks) == 1 else (lambda o: tuple(o[k] for k in ks))),
    'itertools.chain': lambda it, *seqs: [x for s_ in seqs for x in s_],
}


def _reduce(f, seq, init):
    if not callable(f):
        raise AnalysisError('interpreter: functools.reduce with something that is not a function of the analysed code')
    it_ = iter(seq)
    if init:
        acc = init[0]
    else:
        try:
            acc = next(it_)
        except StopIteration:
            raise Raised('TypeError', None)
    for x in it_:
        acc = f(acc, x)
    return acc


def _defaultdict(f):
    import collections
    fac = {'str': str, 'list': list, 'int': int, 'dict': dict, 'set': set, 'float': float, None: None}.get(f, f)
    if fac is not None and not callable(fac):
        raise AnalysisError('interpreter: defaultdict with a factory that is not modelled')
    return collections.defaultdict(fac)


def _partial(it, f, a, k):
    if not callable(f):
        raise AnalysisError('interpreter: functools.partial of something that is not a function of the analysed code')
    return lambda *a2, **k2: f(*a, *a2, **dict(k, **k2))


class Interp:
    def __init__(self, isa=None, stubs=None, max_steps=20000, methods=None):
        self.isa = isa or {}          # kind -> set of base kinds
        # dotted callee text -> python callable(interp, *args, **kwargs); pure functions of the standard library are available by default
        self.stubs = dict(PURE_STDLIB)
        self.stubs.update(stubs or {})
        self.methods = methods or {}  # kind -> {method name: FunctionDef}: methods of the analysed class, interpreted when a stand-in is asked for them
        self._gen_stack = []
        self.fn_module = {}           # id(FunctionDef) -> ast.Module it is written in
        self.fn_class = {}            # id(FunctionDef) -> name of the class it is defined in (for super())
        self.own_members = {}         # class name -> members defined in the class itself
        self.class_bases = {}         # class name -> names of its base classes
        self._cls_stack = []
        self._global_values = {}      # id(module-level expression) -> its (mutable) value, evaluated once per interpreter
        self.dataclasses = {}         # class name -> [(field, default expression or None)] of @dataclass classes
        self.module = None            # ast.Module of the analysed code: its top-level constants and functions resolve free names
        self.src = None               # SourceSet: lets `from mindsdb_sql.x import f` in that module resolve to f's source
        self.steps = 0
        self.max_steps = max_steps
        self.trace = []               # (callee text, args, kwargs) of stub calls

    def to_str(self, x):
        """str(x) as Python does it: a stand-in of a class whose source is known prints through its __str__"""
        if isinstance(x, Obj):
            m = self.methods.get(x.kind, {}).get('__str__')
            if isinstance(m, ast.FunctionDef):
                return self.call_function(m, [x], {}, Env())
        return str(x)

    # ---- helpers -----------------------------------------------------------------------------------------------------
    def is_instance(self, o, cls):
        names = cls if isinstance(cls, (list, tuple)) else [cls]
        out = False
        for c in names:
            cname = c if isinstance(c, str) else getattr(c, '__name__', str(c))
            cname = cname.split('.')[-1]
            if isinstance(o, Obj):
                out = out or o.kind == cname or cname in self.isa.get(o.kind, ()) or cname in EXC_BASES.get(o.kind, ())
            elif cname in ('str', 'int', 'float', 'bool', 'list', 'dict', 'tuple', 'set'):
                out = out or type(o).__name__ == cname or (cname == 'int' and isinstance(o, bool))
        return out

    def tick(self, node):
        self.steps += 1
        if self.steps > self.max_steps:
            raise AnalysisError(f'interpreter: step budget exceeded near line {getattr(node, "lineno", "?")}')

    # ---- calls ----------------------------------------------------------------------------------------------------------
    @classmethod
    def for_file(cls, src, relpath, isa=None, stubs=None, also=(), methods=None, **kw):
        """an interpreter for code of one file of the repository: module-level names (and what they import from mindsdb_sql), the methods and
        class-level constants of every class of the file (and of the files in `also`) are resolved from the source"""
        key = (relpath, tuple(also))
        store = src.__dict__.setdefault('_for_file_cache', {})          # lives and dies with the source set
        cached = store.get(key)
        if cached is None:
            ms, bases, fnmod, own0, dcs = {}, {}, {}, {}, {}
            for f in tuple(also) + (relpath,):
                t = src.tree(f)
                for st in t.body:
                    if isinstance(st, ast.ClassDef):
                        ms[st.name] = class_members(st)
                        own0[st.name] = class_members(st)
                        if any(norm(d_).split('(')[0].split('.')[-1] == 'dataclass' for d_ in st.decorator_list):
                            dcs[st.name] = [(m_.target.id, m_.value) for m_ in st.body if isinstance(m_, ast.AnnAssign) and isinstance(m_.target, ast.Name)]
                        bases[st.name] = [b.id if isinstance(b, ast.Name) else b.attr for b in st.bases if isinstance(b, (ast.Name, ast.Attribute))]
                for n in ast.walk(t):
                    if isinstance(n, ast.FunctionDef):
                        fnmod[id(n)] = t
                    elif isinstance(n, ast.ClassDef):
                        for v in class_members(n).values():
                            if not isinstance(v, ast.FunctionDef):
                                fnmod[id(v)] = t
            # members inherited from base classes defined in the same files (nearest definition wins)
            for name in list(ms):
                seen, todo = {name}, list(bases.get(name, []))
                while todo:
                    b = todo.pop(0)
                    if b in seen or b not in ms:
                        continue
                    seen.add(b)
                    for k, v in ms[b].items():
                        ms[name].setdefault(k, v)
                    todo.extend(bases.get(b, []))
            own = {k: dict(v) for k, v in own0.items()}
            fncls = {id(v): k for k, d in own.items() for v in d.values() if isinstance(v, ast.FunctionDef)}
            cached = store[key] = (ms, fnmod, None, own, bases, fncls, dcs)
        ms = dict(cached[0])
        ms.update(methods or {})
        it = cls(isa or {}, stubs or {}, methods=ms, **kw)
        it.module, it.src = src.tree(relpath), src
        it.fn_module = dict(cached[1])
        it.own_members, it.class_bases, it.fn_class = cached[3], cached[4], dict(cached[5])
        it.dataclasses = cached[6]
        return it

    def _repo_module_function(self, dotted_name):
        """(FunctionDef, module tree) for `alias.name` when `alias` is a module of mindsdb_sql imported into the current module"""
        parts = dotted_name.split('.')
        if len(parts) != 2 or self.module is None or getattr(self, 'src', None) is None:
            return None
        alias, name = parts
        for st in getattr(self.module, 'body', []):
            target = None
            if isinstance(st, ast.ImportFrom) and st.module and st.module.startswith('mindsdb_sql') and st.level == 0:
                for a in st.names:
                    if (a.asname or a.name) == alias:
                        target = f'{st.module}.{a.name}'
            elif isinstance(st, ast.Import):
                for a in st.names:
                    if a.name.startswith('mindsdb_sql') and (a.asname or a.name.split('.')[-1]) == alias and a.asname:
                        target = a.name
            if target:
                f = target.replace('.', '/') + '.py'
                if self.src.exists(f):
                    t = self.src.tree(f)
                    fn = next((n for n in t.body if isinstance(n, ast.FunctionDef) and n.name == name), None)
                    if fn is not None:
                        return fn, t
        return None

    def _load_class(self, kind):
        """members of a repository class (unique by name) that was not among the files this interpreter was built from"""
        self.methods.setdefault(kind, {})
        try:
            from .pymodel import model_for
            lst = model_for(self.src).classes.get(kind, [])
        except Exception:
            return
        if len(lst) != 1 or not lst[0].file:
            return
        t = self.src.tree(lst[0].file)
        node = next((st for st in t.body if isinstance(st, ast.ClassDef) and st.name == kind), None)
        if node is None:
            return
        mem = class_members(node)
        self.methods[kind] = mem
        for v in mem.values():
            self.fn_module[id(v)] = t
            if isinstance(v, ast.FunctionDef):
                self.fn_class[id(v)] = kind
                for n in ast.walk(v):
                    if isinstance(n, ast.FunctionDef):
                        self.fn_module[id(n)] = t
        if hasattr(self, 'own_members'):
            self.own_members = dict(self.own_members)
            self.own_members[kind] = dict(mem)

    def call_function(self, fn, args, kwargs, outer_env, _as_generator_body=False):
        if not _as_generator_body and any(isinstance(n, (ast.Yield, ast.YieldFrom)) for n in _own_nodes(fn)):
            return GeneratorObj(self, fn, args, kwargs, outer_env)
        env = Env(outer_env)
        params = [a.arg for a in fn.args.args]
        defaults = fn.args.defaults
        kwargs = dict(kwargs)
        if fn.args.vararg is not None:
            env.set(fn.args.vararg.arg, tuple(args[len(params):]))
        elif len(args) > len(params):
            raise Raised('TypeError', fn)        # too many positional arguments
        for i, p in enumerate(params):
            if i < len(args):
                if p in kwargs:
                    raise Raised('TypeError', fn)    # got multiple values for the argument
                env.set(p, args[i])
            elif p in kwargs:
                env.set(p, kwargs.pop(p))
            else:
                di = i - (len(params) - len(defaults))
                if di < 0:
                    raise AnalysisError(f'interpreter: missing argument {p} calling {fn.name}')
                env.set(p, self.ev(defaults[di], outer_env))
        if fn.args.kwarg is not None:
            env.set(fn.args.kwarg.arg, dict(kwargs))
        elif kwargs:
            for k in list(kwargs):
                if k in [a.arg for a in fn.args.kwonlyargs]:
                    env.set(k, kwargs.pop(k))
            if kwargs:
                raise AnalysisError(f'interpreter: unexpected keyword arguments {sorted(kwargs)} calling {fn.name}')
        # free names of a function are those of the module it is written in
        saved = self.module
        mod = self.fn_module.get(id(fn))
        if mod is not None:
            self.module = mod
        self._cls_stack.append((self.fn_class.get(id(fn)), args[0] if args else None))
        try:
            self.block(fn.body, env)
        except _Return as r:
            return r.value
        finally:
            self.module = saved
            self._cls_stack.pop()
        return None

    # ---- statements -----------------------------------------------------------------------------------------------------
    def block(self, stmts, env):
        for s in stmts:
            self.stmt(s, env)

    def stmt(self, s, env):
        self.tick(s)
        if isinstance(s, ast.Expr):
            if not isinstance(s.value, ast.Constant):
                self.ev(s.value, env)
        elif isinstance(s, ast.Assign):
            v = self.ev(s.value, env)
            for t in s.targets:
                self.assign(t, v, env)
        elif isinstance(s, ast.AnnAssign):
            if s.value is not None:
                self.assign(s.target, self.ev(s.value, env), env)
        elif isinstance(s, ast.AugAssign):
            cur = self.ev(_as_load(s.target), env)
            v = self.ev(s.value, env)
            if isinstance(s.op, ast.Add):
                if isinstance(cur, list):
                    cur.extend(v)          # in-place, like Python
                    new = cur
                else:
                    new = cur + v
            elif isinstance(s.op, ast.Sub):
                new = cur - v
            else:
                raise AnalysisError(f'interpreter: augmented operator in `{norm(s)}`')
            self.assign(s.target, new, env)
        elif isinstance(s, ast.If):
            self.block(s.body if self.ev(s.test, env) else s.orelse, env)
        elif isinstance(s, ast.For):
            it = self.ev(s.iter, env)
            broke = False
            for x in list(it):
                self.assign(s.target, x, env)
                try:
                    self.block(s.body, env)
                except _Break:
                    broke = True
                    break
                except _Continue:
                    continue
            if not broke:
                self.block(s.orelse, env)
        elif isinstance(s, ast.While):
            n = 0
            while self.ev(s.test, env):
                n += 1
                if n > 200:
                    raise AnalysisError('interpreter: while loop does not terminate on abstract data')
                try:
                    self.block(s.body, env)
                except _Break:
                    break
                except _Continue:
                    continue
        elif isinstance(s, ast.Return):
            raise _Return(self.ev(s.value, env) if s.value is not None else None)
        elif isinstance(s, ast.Raise):
            name = '?'
            obj = None
            if s.exc is None:
                cur = getattr(env, 'get', None) and (env.get('#exc') if env.has('#exc') else None)
                if cur is not None:
                    raise Raised(cur.kind, s, cur)
            if s.exc is not None:
                name = (dotted(s.exc.func) if isinstance(s.exc, ast.Call) else dotted(s.exc)) or '?'
                if isinstance(s.exc, ast.Name) and env.has(s.exc.id) and isinstance(env.get(s.exc.id), Obj):
                    obj = env.get(s.exc.id)
                    name = obj.kind
                elif isinstance(s.exc, ast.Call):
                    try:
                        args_ = [self.ev(a, env) for a in s.exc.args]
                    except AnalysisError:
                        args_ = []
                    obj = Obj(name.split('.')[-1], args=tuple(args_))
            raise Raised(name.split('.')[-1], s, obj)
        elif isinstance(s, ast.Try):
            try:
                self.block(s.body, env)
            except Raised as r:
                exc = r.obj if r.obj is not None else Obj(r.exc_name, args=())
                handled = False
                for h in s.handlers:
                    names = []
                    if h.type is not None:
                        ts = h.type.elts if isinstance(h.type, ast.Tuple) else [h.type]
                        names = []
                        for t in ts:
                            # a name that is a module-level (or class-level) tuple of exception classes stands for its members
                            val = None
                            if isinstance(t, ast.Name) and not t.id[:1].isupper() or (isinstance(t, ast.Name) and t.id.isupper()):
                                try:
                                    val = self.ev(t, env)
                                except AnalysisError:
                                    val = None
                            if isinstance(val, (tuple, list)) and val and all(isinstance(x, ClassRef) for x in val):
                                names.extend(x.name.split('.')[-1] for x in val)
                            else:
                                names.append((dotted(t) or '').split('.')[-1])
                    bases = {exc.kind} | set(self.isa.get(exc.kind, ())) | EXC_BASES.get(exc.kind, {'Exception'})
                    if h.type is None or any(n in bases or n == 'BaseException' for n in names):
                        if h.name:
                            env.set(h.name, exc)
                        env.set('#exc', exc)
                        handled = True
                        try:
                            self.block(h.body, env)
                        finally:
                            self.block(s.finalbody, env)
                        break
                if not handled:
                    self.block(s.finalbody, env)
                    raise
            else:
                self.block(s.orelse, env)
                self.block(s.finalbody, env)
        elif isinstance(s, ast.FunctionDef):
            env.set(s.name, Closure(s, env, self))
        elif isinstance(s, ast.Assert):
            if not self.ev(s.test, env):
                raise Raised('AssertionError', s)
        elif isinstance(s, ast.Delete):
            for t in s.targets:
                if isinstance(t, ast.Subscript):
                    v = self.ev(t.value, env)
                    if not isinstance(v, (list, dict)):
                        raise AnalysisError(f'interpreter: `{norm(s)}` on a stand-in is not modelled')
                    if isinstance(t.slice, ast.Slice):
                        lo = self.ev(t.slice.lower, env) if t.slice.lower else None
                        hi = self.ev(t.slice.upper, env) if t.slice.upper else None
                        del v[lo:hi]
                    else:
                        try:
                            del v[self.ev(t.slice, env)]
                        except (KeyError, IndexError) as x:
                            raise Raised(type(x).__name__, s)
                elif isinstance(t, ast.Name) and t.id in env.vars:
                    del env.vars[t.id]
                else:
                    raise AnalysisError(f'interpreter: unmodelled statement `{norm(s)}`')
        elif isinstance(s, ast.Pass):
            pass
        elif isinstance(s, ast.Break):
            raise _Break()
        elif isinstance(s, ast.Continue):
            raise _Continue()
        elif isinstance(s, ast.ImportFrom):
            # a function-local import of a class under another name: the local name stands for that class
            for a in s.names:
                if a.asname and a.asname != a.name and a.name[:1].isupper():
                    env.set(a.asname, ClassRef(a.name))
        elif isinstance(s, ast.Import):
            pass
        elif isinstance(s, ast.Nonlocal):
            # assignments to these names go to the enclosing function's environment
            env.nonlocals = set(getattr(env, 'nonlocals', ())) | set(s.names)
        else:
            raise AnalysisError(f'interpreter: unmodelled statement `{norm(s)[:80]}` (line {s.lineno})')

    def assign(self, t, v, env):
        if isinstance(t, ast.Name):
            env.set(t.id, v)
        elif isinstance(t, ast.Attribute):
            o = self.ev(t.value, env)
            if not isinstance(o, Obj):
                raise AnalysisError(f'interpreter: attribute store on non-object `{norm(t)}`')
            setattr(o, t.attr, v)
        elif isinstance(t, ast.Subscript):
            o = self.ev(t.value, env)
            if isinstance(t.slice, ast.Slice):
                if not isinstance(o, list):
                    raise AnalysisError(f'interpreter: slice assignment `{norm(t)[:60]}` on {type(o).__name__} is not modelled')
                lo = self.ev(t.slice.lower, env) if t.slice.lower else None
                hi = self.ev(t.slice.upper, env) if t.slice.upper else None
                stp = self.ev(t.slice.step, env) if t.slice.step else None
                try:
                    o[lo:hi:stp] = list(v)
                except ValueError:
                    raise Raised('ValueError', t)
                return
            o[self.ev(t.slice, env)] = v
        elif isinstance(t, (ast.Tuple, ast.List)):
            vs = list(v)
            star = [i for i, a in enumerate(t.elts) if isinstance(a, ast.Starred)]
            if star:
                i = star[0]
                after = len(t.elts) - i - 1
                if len(vs) < len(t.elts) - 1:
                    raise Raised('ValueError', t)
                for a, b in zip(t.elts[:i], vs[:i]):
                    self.assign(a, b, env)
                self.assign(t.elts[i].value, vs[i:len(vs) - after], env)
                for a, b in zip(t.elts[i + 1:], vs[len(vs) - after:]):
                    self.assign(a, b, env)
                return
            if len(vs) != len(t.elts):
                raise Raised('ValueError', t)
            for a, b in zip(t.elts, vs):
                self.assign(a, b, env)
        else:
            raise AnalysisError(f'interpreter: unmodelled assignment target `{norm(t)}`')

    # ---- expressions ----------------------------------------------------------------------------------------------------
    def ev(self, e, env):
        self.tick(e)
        if isinstance(e, ast.Constant):
            return e.value
        if isinstance(e, ast.Name):
            if env.has(e.id):
                v_ = env.get(e.id)
                if isinstance(v_, _LazyClassConst):
                    return v_.it._ev_in_module(v_.expr)
                return v_
            if e.id in ('True', 'False', 'None'):
                return {'True': True, 'False': False, 'None': None}[e.id]
            if e.id in ('str', 'int', 'float', 'list', 'dict', 'tuple', 'set', 'bool'):
                return e.id
            if e.id in self.stubs and callable(self.stubs[e.id]) and not e.id[:1].isupper():
                # a function the rule stands in for, used as a value (render_func = render_dml_query)
                return (lambda _f: (lambda *a, **k: _f(self, *a, **k)))(self.stubs[e.id])
            g_ = self._global(e.id)
            if g_ is not None:
                if g_[0] == 'value':
                    # a module-level object exists once: mutable ones (a set that a function updates and returns) keep their identity within one interpreter
                    key = id(g_[1])
                    if key in self._global_values:
                        return self._global_values[key]
                    saved = self.module
                    self.module = g_[2]
                    try:
                        v = self.ev(g_[1], Env())
                        if isinstance(v, (list, dict, set)):
                            # statements of the module that complete the object at import time: NAME.update(...), NAME[k] = v, NAME.append(...), NAME += ...
                            self._global_values[key] = v
                            en_ = Env()
                            en_.set(e.id, v)
                            after = False
                            for st_ in getattr(g_[2], 'body', []):
                                if isinstance(st_, ast.Assign) and st_.value is g_[1]:
                                    after = True
                                    continue
                                if not after:
                                    continue
                                tgt_ = None
                                if isinstance(st_, ast.Expr) and isinstance(st_.value, ast.Call) and isinstance(st_.value.func, ast.Attribute) \
                                        and isinstance(st_.value.func.value, ast.Name) and st_.value.func.value.id == e.id:
                                    tgt_ = st_
                                elif isinstance(st_, ast.Assign) and len(st_.targets) == 1 and isinstance(st_.targets[0], ast.Subscript) \
                                        and isinstance(st_.targets[0].value, ast.Name) and st_.targets[0].value.id == e.id:
                                    tgt_ = st_
                                elif isinstance(st_, ast.AugAssign) and isinstance(st_.target, ast.Name) and st_.target.id == e.id:
                                    tgt_ = st_
                                if tgt_ is not None:
                                    self.stmt(tgt_, en_)
                                    v = en_.get(e.id)
                                    self._global_values[key] = v
                    finally:
                        self.module = saved
                    if isinstance(v, (list, dict, set, Obj)):
                        self._global_values[key] = v
                    return v
                return Closure(g_[1], Env(), self)
            if e.id[:1].isupper() or e.id in ('ast', 'sa', 're', 'copy', 'utils', 'steps', 'dt', 'datetime', 'textwrap', 'functools', 'itertools', 'operator') or e.id in {k.split('.')[0] for k in self.stubs}:
                return ClassRef(e.id)       # a class / module of the repository: only used as callee or in isinstance
            if self._imported_library_name(e.id):
                return ClassRef(e.id)       # a name imported from a library (not from mindsdb_sql): only used as callee / attribute base, stand-ins by dotted text
            raise AnalysisError(f'interpreter: free variable `{e.id}` (line {getattr(e, "lineno", "?")}) has no stand-in')
        if isinstance(e, ast.Attribute):
            d = norm(e)
            if d in self.stubs and not callable(self.stubs[d]):
                return self.stubs[d]
            base = self.ev(e.value, env)
            return self._getattr(base, e.attr, d)
        if isinstance(e, ast.Subscript):
            v = self.ev(e.value, env)
            if isinstance(e.slice, ast.Slice):
                lo = self.ev(e.slice.lower, env) if e.slice.lower else None
                hi = self.ev(e.slice.upper, env) if e.slice.upper else None
                stp = self.ev(e.slice.step, env) if e.slice.step else None
                if isinstance(v, (Obj, ClassRef)):
                    raise AnalysisError(f'interpreter: slice of a stand-in in `{norm(e)[:60]}`')
                return v[lo:hi:stp]
            k = self.ev(e.slice, env)
            try:
                return v[k]
            except (KeyError, IndexError) as x:
                raise Raised(type(x).__name__, e)
        if isinstance(e, ast.BoolOp):
            if isinstance(e.op, ast.And):
                v = True
                for x in e.values:
                    v = self.ev(x, env)
                    if not v:
                        return v
                return v
            v = False
            for x in e.values:
                v = self.ev(x, env)
                if v:
                    return v
            return v
        if isinstance(e, ast.UnaryOp):
            v = self.ev(e.operand, env)
            if isinstance(e.op, ast.Not):
                return not v
            if isinstance(e.op, ast.USub):
                return -v
            if isinstance(e.op, ast.Invert) and (getattr(type(v), '_interp_safe', False) or (isinstance(v, int) and not isinstance(v, bool))):
                return ~v
            if isinstance(e.op, ast.UAdd) and isinstance(v, (int, float)):
                return +v
        if isinstance(e, ast.BinOp):
            l, r = self.ev(e.left, env), self.ev(e.right, env)
            if any(isinstance(x, (Obj, ClassRef)) for x in (l, r)) and not any(getattr(type(x), '_interp_safe', False) for x in (l, r)):
                raise AnalysisError(f'interpreter: operator in `{norm(e)[:60]}` applied to a stand-in that does not model it')
            if isinstance(e.op, ast.Add):
                return l + r
            if isinstance(e.op, ast.Sub):
                return l - r
            if isinstance(e.op, ast.Mult):
                return l * r
            if isinstance(e.op, ast.BitAnd):
                return l & r
            if isinstance(e.op, ast.BitOr):
                return l | r
            if isinstance(e.op, (ast.Mod, ast.FloorDiv, ast.Div, ast.Pow)) and not any(isinstance(x, (Obj, ClassRef)) for x in (l, r)):
                try:
                    if isinstance(e.op, ast.Mod):
                        return l % r          # also str % args
                    if isinstance(e.op, ast.FloorDiv):
                        return l // r
                    if isinstance(e.op, ast.Div):
                        return l / r
                    return l ** r
                except (TypeError, ValueError, ZeroDivisionError, KeyError) as x:
                    raise Raised(type(x).__name__, e)
        if isinstance(e, ast.Compare):
            left = self.ev(e.left, env)
            for op, c in zip(e.ops, e.comparators):
                right = self.ev(c, env)
                if isinstance(op, (ast.Eq, ast.NotEq)) and getattr(self, 'struct_eq', None) and isinstance(left, Obj) and isinstance(right, Obj) \
                        and left.kind in self.struct_eq and right.kind in self.struct_eq:
                    # nodes of the tree compare by what they print (ASTNode.__eq__), not by identity
                    r = _struct_eq(left, right) if isinstance(op, ast.Eq) else not _struct_eq(left, right)
                elif isinstance(op, ast.Eq): r = left == right
                elif isinstance(op, ast.NotEq): r = left != right
                elif isinstance(op, ast.Lt): r = left < right
                elif isinstance(op, ast.LtE): r = left <= right
                elif isinstance(op, ast.Gt): r = left > right
                elif isinstance(op, ast.GtE): r = left >= right
                elif isinstance(op, ast.Is): r = (left is right) or (isinstance(left, ClassRef) and left == right)
                elif isinstance(op, ast.IsNot): r = not ((left is right) or (isinstance(left, ClassRef) and left == right))
                elif isinstance(op, (ast.In, ast.NotIn)):
                    if isinstance(right, Obj):
                        raise AnalysisError(f'interpreter: membership test `{norm(e)}` on a stand-in')
                    r = (left in right) if isinstance(op, ast.In) else (left not in right)
                else:
                    raise AnalysisError(f'interpreter: operator in `{norm(e)}`')
                if not r:
                    return False
                left = right
            return True
        if isinstance(e, ast.IfExp):
            return self.ev(e.body, env) if self.ev(e.test, env) else self.ev(e.orelse, env)
        if isinstance(e, (ast.List, ast.Tuple)):
            out = []
            for x in e.elts:
                if isinstance(x, ast.Starred):
                    out.extend(self.ev(x.value, env))
                else:
                    out.append(self.ev(x, env))
            return out if isinstance(e, ast.List) else tuple(out)
        if isinstance(e, ast.Set):
            return set(self.ev(x, env) for x in e.elts)
        if isinstance(e, ast.Dict):
            return {self.ev(k, env): self.ev(v, env) for k, v in zip(e.keys, e.values)}
        if isinstance(e, ast.JoinedStr):
            out = []
            for v in e.values:
                if isinstance(v, ast.Constant):
                    out.append(v.value)
                    continue
                x = self.ev(v.value, env)
                txt = repr(x) if v.conversion == 114 and not isinstance(x, Obj) else self.to_str(x)
                if v.format_spec is not None:
                    spec = self.ev(v.format_spec, env)
                    txt = format(x, spec) if not isinstance(x, Obj) else txt
                out.append(txt)
            return ''.join(out)
        if isinstance(e, (ast.ListComp, ast.GeneratorExp, ast.SetComp)):
            out = []
            self._comp(e.generators, 0, env, lambda en: out.append(self.ev(e.elt, en)))
            if isinstance(e, ast.GeneratorExp):
                return iter(out)        # evaluated eagerly (its element expressions are side-effect free in the analysed code), consumed once like a generator
            return set(out) if isinstance(e, ast.SetComp) else out
        if isinstance(e, ast.DictComp):
            outd = {}
            self._comp(e.generators, 0, env, lambda en: outd.__setitem__(self.ev(e.key, en), self.ev(e.value, en)))
            return outd
        if isinstance(e, ast.Call):
            return self.call(e, env)
        if isinstance(e, ast.Yield):
            if not self._gen_stack:
                raise AnalysisError('interpreter: yield outside a generator')
            g = self._gen_stack[-1]
            mine = self.module
            g.to_consumer.put(('value', self.ev(e.value, env) if e.value is not None else None))
            g.to_producer.get()
            self.module = mine
            return None
        if isinstance(e, ast.YieldFrom):
            if not self._gen_stack:
                raise AnalysisError('interpreter: yield outside a generator')
            g = self._gen_stack[-1]
            mine = self.module
            for x in self.ev(e.value, env):
                g.to_consumer.put(('value', x))
                g.to_producer.get()
                self.module = mine
            return None
        if isinstance(e, ast.Lambda):
            fn = ast.FunctionDef(name='<lambda>', args=e.args, body=[ast.Return(value=e.body, lineno=e.lineno, col_offset=0)], decorator_list=[],
                                 lineno=e.lineno, col_offset=0)
            return Closure(fn, env, self)
        raise AnalysisError(f'interpreter: unmodelled expression `{norm(e)[:80]}`')

    def _getattr(self, base, attr, d):
        if isinstance(base, SuperProxy):
            return base.lookup(attr)
        if isinstance(base, ClassRef) and base.name == 're' and attr.isupper() and hasattr(re, attr):
            return int(getattr(re, attr))
        if isinstance(base, ClassRef) and attr in self.methods.get(base.name, {}):
            m = self.methods[base.name][attr]
            if not isinstance(m, ast.FunctionDef):
                return self._ev_in_module(m)          # a class-level constant
            decos = {norm(x) for x in m.decorator_list}
            if 'classmethod' in decos:
                return lambda *a, **k: self.call_function(m, [base] + list(a), dict(k), Env())
            return lambda *a, **k: self.call_function(m, list(a), dict(k), Env())      # static method, or a plain function taken from the class
        if isinstance(base, ClassRef):
            return ClassRef(f'{base.name}.{attr}')
        if isinstance(base, Obj):
            if attr in base.attrs:
                return base.attrs[attr]
            if attr == '__dict__':
                return {k: v for k, v in base.attrs.items() if not k.startswith('_')}
            if attr == '__class__':
                return ClassRef(base.kind)
            m = self.methods.get(base.kind, {}).get(attr)
            if m is None and base.kind not in self.methods and getattr(self, 'src', None) is not None:
                # a stand-in of a repository class whose file this interpreter was not built from: its members are read from the class's own source
                self._load_class(base.kind)
                m = self.methods.get(base.kind, {}).get(attr)
            if m is not None and not isinstance(m, ast.FunctionDef):
                return self._ev_in_module(m)          # a class-level constant
            if m is not None:
                decos = {norm(x) for x in m.decorator_list}
                if 'staticmethod' in decos:
                    return lambda *a, **k: self.call_function(m, list(a), dict(k), Env())
                if 'classmethod' in decos:
                    return lambda *a, **k: self.call_function(m, [ClassRef(base.kind)] + list(a), dict(k), Env())
                if 'property' in decos:
                    return self.call_function(m, [base], {}, Env())
                return lambda *a, **k: self.call_function(m, [base] + list(a), dict(k), Env())
            if base.attrs.get('_fluent'):
                # a generative library object (SQLAlchemy select): every method call is logged and returns the object itself
                def logged(*a, _attr=attr, **k):
                    base.attrs['_log'].append((_attr, a, k))
                    return base
                return logged
            if getattr(self, 'class_fields', None) and base.kind in self.class_fields and attr not in self.class_fields[base.kind]:
                # the rule told the interpreter every attribute an instance of this class can carry: reading another one is what Python answers with AttributeError
                raise Raised('AttributeError', None)
            raise AnalysisError(f'interpreter: stand-in {base!r} has no attribute `{attr}` (`{d}`)')
        if isinstance(base, dict) and attr in base:
            return base[attr]
        return BoundMethod(base, attr)

    def _imported_library_name(self, name):
        mod = self.module
        if mod is None:
            return False
        for st in mod.body:
            if isinstance(st, ast.Import):
                for a in st.names:
                    if (a.asname or a.name.split('.')[0]) == name and not a.name.startswith('mindsdb_sql'):
                        return True
            elif isinstance(st, ast.ImportFrom) and st.module and not st.module.startswith('mindsdb_sql') and st.level == 0:
                for a in st.names:
                    if (a.asname or a.name) == name:
                        return True
        return False

    def _ev_in_module(self, expr):
        # a class-level object exists once: mutable ones (a dict used as a cache by the methods) keep their identity within one interpreter
        if id(expr) in self._global_values:
            return self._global_values[id(expr)]
        saved = self.module
        mod = self.fn_module.get(id(expr))
        if mod is not None:
            self.module = mod
        # a constant defined in a class body sees the constants defined before it in that body (`B = (X,) + A`)
        env = Env()
        cls_ = getattr(expr, '_parent', None)
        while cls_ is not None and not isinstance(cls_, (ast.ClassDef, ast.Module, ast.FunctionDef)):
            cls_ = getattr(cls_, '_parent', None)
        if isinstance(cls_, ast.ClassDef):
            for st in cls_.body:
                if isinstance(st, ast.Assign) and len(st.targets) == 1 and isinstance(st.targets[0], ast.Name):
                    if st.value is expr or any(x is expr for x in ast.walk(st.value)):
                        break
                    nm, ex = st.targets[0].id, st.value
                    env.vars[nm] = _LazyClassConst(self, ex)
        try:
            v = self.ev(expr, env)
        finally:
            self.module = saved
        if isinstance(v, (list, dict, set, Obj)):
            self._global_values[id(expr)] = v
        return v

    def _global(self, name, module=None, depth=0):
        """definition of a module-level name: ('func', FunctionDef, module) / ('value', expr, module) / None; follows `from mindsdb_sql... import name`"""
        module = module or self.module
        if module is None or depth > 3:
            return None
        for st in module.body:
            if isinstance(st, ast.FunctionDef) and st.name == name:
                if id(st) not in self.fn_module:
                    for n in ast.walk(st):
                        if isinstance(n, ast.FunctionDef):
                            self.fn_module[id(n)] = module
                return ('func', st, module)
            if isinstance(st, ast.Assign) and any(isinstance(t, ast.Name) and t.id == name for t in st.targets):
                return ('value', st.value, module)
        if self.src is not None:
            for st in module.body:
                if isinstance(st, ast.ImportFrom) and st.module and st.module.startswith('mindsdb_sql') and st.level == 0:
                    for a in st.names:
                        if (a.asname or a.name) == name:
                            for cand in (st.module.replace('.', '/') + '.py', st.module.replace('.', '/') + '/__init__.py'):
                                try:
                                    m2 = self.src.tree(cand)
                                except Exception:
                                    continue
                                return self._global(a.name, m2, depth + 1)
        return None

    def _comp(self, gens, i, env, emit):
        if i == len(gens):
            emit(env)
            return
        g = gens[i]
        for x in list(self.ev(g.iter, env)):
            en = Env(env)
            self.assign(g.target, x, en)
            if all(self.ev(c, en) for c in g.ifs):
                self._comp(gens, i + 1, en, emit)

    def call(self, e, env):
        ftxt = norm(e.func)
        args = []
        for a in e.args:
            if isinstance(a, ast.Starred):
                args.extend(self.ev(a.value, env))
            else:
                args.append(self.ev(a, env))
        kwargs = {}
        for k in e.keywords:
            if k.arg is None:
                kwargs.update(self.ev(k.value, env))
            else:
                kwargs[k.arg] = self.ev(k.value, env)
        # rule-supplied stand-ins first (by full text, then by last component)
        for key in (ftxt, ftxt.split('.')[-1]):
            if key in self.stubs and callable(self.stubs[key]) and not (isinstance(e.func, ast.Name) and env.has(e.func.id)):
                self.trace.append((key, args, kwargs))
                return self.stubs[key](self, *args, **kwargs)
        if isinstance(e.func, ast.Name):
            n = e.func.id
            if env.has(n):
                f = env.get(n)
                if isinstance(f, ClassRef):
                    # a local name bound to a function / class of another module (func = sa.union ...)
                    for key in (f.name, f.name.split('.')[-1]):
                        if key in self.stubs and callable(self.stubs[key]):
                            self.trace.append((key, args, kwargs))
                            return self.stubs[key](self, *args, **kwargs)
                    self.trace.append((f.name, args, kwargs))
                    o = Obj(f.name.split('.')[-1], **kwargs)
                    o.attrs['_args'] = args
                    return o
                if callable(f):
                    return f(*args, **kwargs)
            g_ = self._global(n)
            if g_ is not None and g_[0] == 'value':
                v_ = self.ev(e.func, env)           # a module-level name bound to a callable value (functools.partial(...), a lambda, an alias of a function)
                if isinstance(v_, Closure) or (callable(v_) and not isinstance(v_, (ClassRef, Obj))):
                    return v_(*args, **kwargs)
            if g_ is not None and g_[0] == 'func':
                saved = self.module
                self.module = g_[2]
                try:
                    return self.call_function(g_[1], args, kwargs, Env())
                finally:
                    self.module = saved
            if n == 'len':
                if isinstance(args[0], (Obj, ClassRef)):
                    raise AnalysisError(f'interpreter: len() of a stand-in in `{norm(e)[:60]}`')
                try:
                    return len(args[0])
                except TypeError:
                    raise Raised('TypeError', e)
            if n == 'isinstance':
                cls = args[1]
                cls = [c.name if isinstance(c, ClassRef) else c for c in (cls if isinstance(cls, (list, tuple)) else [cls])]
                return self.is_instance(args[0], cls)
            if n == 'vars' and len(args) == 1 and isinstance(args[0], Obj):
                return {k: v for k, v in args[0].attrs.items() if not k.startswith('_')}
            if n == 'type' and len(args) == 1:
                o = args[0]
                return ClassRef(o.kind) if isinstance(o, Obj) else type(o).__name__
            if n == 'hasattr' and isinstance(args[0], dict):
                return args[1] in args[0]           # a dict standing in for a record (the production `p` of a grammar action)
            if n == 'getattr' and isinstance(args[0], dict) and args[1] in args[0]:
                return args[0][args[1]]
            if n == 'hasattr':
                o = args[0]
                return isinstance(o, Obj) and args[1] in o.attrs
            if n == 'setattr' and len(args) == 3 and isinstance(args[0], Obj) and isinstance(args[1], str):
                args[0].attrs[args[1]] = args[2]          # as `o.<name> = value`
                return None
            if n == 'object' and not args and not kwargs:
                return Obj('object')                        # a fresh sentinel: equal to nothing but itself
            if n == 'getattr':
                o = args[0]
                if isinstance(o, Obj) and args[1] in o.attrs:
                    return o.attrs[args[1]]
                if isinstance(o, Obj) and (o.attrs.get('_fluent') or args[1] in self.methods.get(o.kind, {})):
                    return self._getattr(o, args[1], ftxt)
                if isinstance(o, ClassRef):
                    return self._getattr(o, args[1], ftxt)          # a module / class of the repository or a library
                if getattr(type(o), '_interp_safe', False) and hasattr(o, args[1]):
                    return getattr(o, args[1])                         # a stand-in object written by the rule itself
                if len(args) > 2:
                    return args[2]
                raise Raised('AttributeError', e)
            if n == 'super' and not args and 'super' not in self.stubs:
                cls_, obj_ = self._cls_stack[-1] if self._cls_stack else (None, None)
                if cls_ is None:
                    raise AnalysisError('interpreter: super() outside a method of a class whose source is known')
                return SuperProxy(self, cls_, obj_)
            if n == 'hash' and len(args) == 1:
                def plain(v):
                    return isinstance(v, (str, int, float, bool, type(None))) or (isinstance(v, (tuple, frozenset)) and all(plain(x) for x in v))
                if plain(args[0]):
                    return hash(args[0])
                if isinstance(args[0], (list, dict, set)):
                    raise Raised('TypeError', e)
                raise AnalysisError(f'interpreter: `{ftxt}` of a stand-in is not modelled')
            if n in ('repr', 'abs', 'float', 'format', 'round', 'sum', 'ord', 'chr', 'reversed', 'frozenset') and not any(isinstance(a, Obj) for a in args):
                try:
                    r_ = {'repr': repr, 'abs': abs, 'float': float, 'format': format, 'round': round, 'sum': sum, 'ord': ord, 'chr': chr,
                          'reversed': lambda x: list(reversed(x)), 'frozenset': frozenset}[n](*args, **kwargs)
                except (TypeError, ValueError) as x:
                    raise Raised(type(x).__name__, e)
                return r_
            if n in ('next', 'iter'):
                if n == 'iter':
                    if isinstance(args[0], (list, tuple, dict, set, str, GeneratorObj)) or hasattr(args[0], '__next__'):
                        return iter(args[0])
                    raise AnalysisError(f'interpreter: `{ftxt}` applied to a stand-in that does not model it')
                if not hasattr(args[0], '__next__'):
                    if isinstance(args[0], Obj):
                        raise AnalysisError(f'interpreter: `{ftxt}` applied to a stand-in that does not model it')
                    raise Raised('TypeError', e)
                try:
                    return next(args[0])
                except StopIteration:
                    if len(args) > 1:
                        return args[1]
                    raise Raised('StopIteration', e)
            if n in ('attrgetter', 'itemgetter') and not self._global(n) and len(args) == 1 and not kwargs:
                key = args[0]
                if n == 'itemgetter':
                    return lambda x, _k=key: x[_k]
                return lambda x, _k=key: (x.attrs[_k] if isinstance(x, Obj) and _k in x.attrs else getattr(x, _k))
            if n == 'groupby' and not self._global(n):
                import itertools as _it
                return [(k_, list(g_)) for k_, g_ in _it.groupby(list(args[0]), key=kwargs.get('key', args[1] if len(args) > 1 else None))]
            if n in ('list', 'tuple', 'set', 'sorted', 'dict', 'str', 'int', 'bool', 'any', 'all', 'enumerate', 'zip', 'range', 'max', 'min', 'id', 'map'):
                if n == 'map':
                    f = args[0]
                    f = (lambda x, _m=f: getattr(x, _m.attr)()) if isinstance(f, BoundMethod) else f
                    if isinstance(f, ClassRef):
                        # map(<class>, items): one constructor call per item - through the rule's stand-in for that class when there is one
                        last = f.name.split('.')[-1]
                        stub = self.stubs.get(f.name) or self.stubs.get(last)
                        if callable(stub):
                            return [stub(self, x) for x in args[1]]
                        if not last[:1].isupper():
                            raise AnalysisError(f'interpreter: map over the library function `{f.name}` is not modelled')
                        return [Obj(last, _args=(x,)) for x in args[1]]
                    return [f(x) for x in args[1]]
                if n == 'enumerate':
                    return list(enumerate(*args))
                if n == 'zip':
                    return list(zip(*args))
                if n == 'range':
                    return list(range(*args))
                if n == 'str' and len(args) == 1 and isinstance(args[0], Obj) and not kwargs:
                    return self.to_str(args[0])
                try:
                    return {'list': list, 'tuple': tuple, 'set': set, 'sorted': sorted, 'dict': dict, 'str': str, 'int': int, 'bool': bool,
                            'any': any, 'all': all, 'max': max, 'min': min, 'id': id}[n](*args, **kwargs)
                except (TypeError, ValueError) as x:
                    if any(isinstance(a, Obj) for a in args):
                        raise AnalysisError(f'interpreter: `{ftxt}` applied to a stand-in that does not model it ({x})')
                    raise Raised(type(x).__name__, e)
        f = self.ev(e.func, env) if not isinstance(e.func, ast.Name) else None
        if isinstance(f, BoundMethod):
            base = f.base
            if isinstance(e.func, ast.Attribute) and isinstance(e.func.value, ast.Name) and e.func.value.id == 'str' and not env.has('str') and f.attr == 'maketrans':
                return str.maketrans(*args)
            if isinstance(e.func, ast.Attribute) and isinstance(e.func.value, ast.Name) and e.func.value.id == 'str' and not env.has('str') and f.attr in SAFE_METHODS[str] \
                    and args and isinstance(args[0], str):
                return getattr(str, f.attr)(*args, **kwargs)        # the unbound form: str.lower(text)
            if getattr(type(base), '_interp_safe', False) and hasattr(base, f.attr):
                return getattr(base, f.attr)(*args, **kwargs)        # a stand-in object written by the rule itself
            if isinstance(base, re.Pattern) and f.attr in ('sub', 'subn'):
                repl = args[0]
                return getattr(base, f.attr)((lambda m: repl(m)) if callable(repl) else repl, *args[1:], **kwargs)
            for t, names in SAFE_METHODS.items():
                if isinstance(base, t) and f.attr in names:
                    return getattr(base, f.attr)(*args, **kwargs)
            if isinstance(base, ClassRef) and base.name == 'str' and (f.attr in SAFE_METHODS[str] or f.attr == 'maketrans'):
                return getattr(str, f.attr)(*args)
            if not isinstance(base, (Obj, ClassRef)) and not hasattr(base, f.attr):
                raise Raised('AttributeError', e)       # what Python does: e.g. [].lower()
            raise AnalysisError(f'interpreter: call of `{ftxt}` on {type(base).__name__} is not modelled')
        if isinstance(f, Closure) or callable(f):
            return f(*args, **kwargs)
        if isinstance(f, ClassRef) and callable(self.stubs.get(f.name)):
            return self.stubs[f.name](self, *args, **kwargs)           # reached through a value (getattr(sa, 'nullsfirst')) instead of its dotted name
        if isinstance(f, ClassRef) and not f.name.split('.')[-1][:1].isupper():
            # `utils.helper(...)` where `utils` is a module of the repository imported into this module: the function is interpreted from its own source
            rf = self._repo_module_function(f.name)
            if rf is not None:
                fn_, mod_ = rf
                self.fn_module[id(fn_)] = mod_
                return self.call_function(fn_, args, kwargs, Env())
            raise AnalysisError(f'interpreter: call of the library function `{f.name}` is not modelled')
        if isinstance(f, ClassRef):
            # constructor of a repository class: a stand-in object with the keyword arguments as attributes
            self.trace.append((f.name, args, kwargs))
            o = Obj(f.name.split('.')[-1], **kwargs)
            o.attrs['_args'] = args
            return o
        if isinstance(e.func, ast.Name) and e.func.id in self.dataclasses and '__init__' not in self.methods.get(e.func.id, {}):
            # the generated constructor of a @dataclass: fields in declaration order
            fields = self.dataclasses[e.func.id]
            if len(args) > len(fields) or any(k not in [f for f, _ in fields] for k in kwargs):
                raise Raised('TypeError', e)
            o = Obj(e.func.id)
            for i, (f_, dflt) in enumerate(fields):
                if i < len(args):
                    if f_ in kwargs:
                        raise Raised('TypeError', e)
                    o.attrs[f_] = args[i]
                elif f_ in kwargs:
                    o.attrs[f_] = kwargs[f_]
                elif dflt is None:
                    raise Raised('TypeError', e)
                elif isinstance(dflt, ast.Call) and norm(dflt.func).split('.')[-1] == 'field':
                    fac = next((k.value for k in dflt.keywords if k.arg == 'default_factory'), None)
                    dv = next((k.value for k in dflt.keywords if k.arg == 'default'), None)
                    if fac is not None and norm(fac) in ('list', 'dict', 'set'):
                        o.attrs[f_] = {'list': list, 'dict': dict, 'set': set}[norm(fac)]()
                    elif dv is not None:
                        o.attrs[f_] = self._ev_in_module(dv)
                    else:
                        raise AnalysisError(f'interpreter: default of dataclass field {e.func.id}.{f_} is not modelled')
                else:
                    o.attrs[f_] = self._ev_in_module(dflt)
            self.trace.append((e.func.id, args, kwargs))
            return o
        if isinstance(e.func, ast.Name) and e.func.id.lstrip('_')[:1].isupper() and isinstance(self.methods.get(e.func.id, {}).get('__init__'), ast.FunctionDef):
            # constructor of a class whose source is known: run its __init__ on an empty stand-in
            if isinstance(self.methods[e.func.id].get('__call__'), ast.FunctionDef):
                o = CallableObj(e.func.id)
                o.__dict__['_interp'] = self
            else:
                o = Obj(e.func.id)
            self.trace.append((e.func.id, args, kwargs))
            self.call_function(self.methods[e.func.id]['__init__'], [o] + list(args), dict(kwargs), Env())
            return o
        if isinstance(e.func, ast.Name) and e.func.id.lstrip('_')[:1].isupper():
            # constructor of a repository class: a stand-in with the keyword arguments as attributes
            self.trace.append((e.func.id, args, kwargs))
            o = Obj(e.func.id, **kwargs)
            o.attrs['_args'] = args
            return o
        raise AnalysisError(f'interpreter: unmodelled call `{ftxt}`')


def _struct_eq(a, b, depth=0):
    """stand-ins of tree nodes are equal when kind and all public attributes are (the rule's own `_` annotations do not count)"""
    if isinstance(a, Obj) and isinstance(b, Obj):
        if a.kind != b.kind or depth > 40:
            return False
        ka = {k for k in a.attrs if not k.startswith('_')}
        kb = {k for k in b.attrs if not k.startswith('_')}
        return ka == kb and all(_struct_eq(a.attrs[k], b.attrs[k], depth + 1) for k in ka)
    if isinstance(a, (list, tuple)) and isinstance(b, (list, tuple)):
        return len(a) == len(b) and all(_struct_eq(x, y, depth + 1) for x, y in zip(a, b))
    if isinstance(a, Obj) or isinstance(b, Obj):
        return False
    try:
        return bool(a == b)
    except Exception:
        return a is b


class ClassRef:
    def __init__(self, name):
        self.name = name

    def __repr__(self):
        return f'<class {self.name}>'

    def __eq__(self, o):
        return isinstance(o, ClassRef) and o.name == self.name

    def __hash__(self):
        return hash(self.name)


class _LazyClassConst:
    """an earlier constant of the same class body, evaluated when (and if) a later constant of that body mentions it"""
    def __init__(self, it, expr):
        self.it, self.expr = it, expr


class BoundMethod:
    def __init__(self, base, attr):
        self.base, self.attr = base, attr


class Env:
    def __init__(self, outer=None):
        self.vars = {}
        self.outer = outer

    def has(self, k):
        return k in self.vars or (self.outer is not None and self.outer.has(k))

    def get(self, k):
        if k in self.vars:
            return self.vars[k]
        return self.outer.get(k)

    def set(self, k, v):
        if k in getattr(self, 'nonlocals', ()) and k not in self.vars:
            e = self.outer
            while e is not None:
                if k in e.vars:
                    e.vars[k] = v
                    return
                e = e.outer
        self.vars[k] = v


def _own_nodes(fn):
    stack = list(fn.body)
    while stack:
        n = stack.pop()
        if isinstance(n, (ast.FunctionDef, ast.ClassDef, ast.Lambda)):
            continue        # a nested definition: its body is not code of this function (a nested generator does not make the outer function one)
        yield n
        for c in ast.iter_child_nodes(n):
            if not isinstance(c, (ast.FunctionDef, ast.ClassDef, ast.Lambda)):
                stack.append(c)


def class_members(cls):
    """methods and class-level constants of a class definition, for Interp(methods={kind: class_members(cls)})"""
    out = {}
    for m in cls.body:
        if isinstance(m, ast.FunctionDef):
            out[m.name] = m
        elif isinstance(m, ast.Assign):
            for t in m.targets:
                if isinstance(t, ast.Name):
                    out[t.id] = m.value
        elif isinstance(m, ast.AnnAssign) and m.value is not None and isinstance(m.target, ast.Name):
            out[m.target.id] = m.value
    return out


def _as_load(t):
    import copy as _c
    t2 = _c.copy(t)
    t2.ctx = ast.Load()
    return t2
