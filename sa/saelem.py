"""Recording stand-ins for SQLAlchemy elements, for the interpreted renderer tables (C06 / C07): an element remembers how it was built - which operator
method was applied to which operands - so a table can read off what the renderer asked SQLAlchemy to do.  Nothing of SQLAlchemy is imported."""


class Elem:
    _interp_safe = True

    def __init__(self, kind, value=None, args=()):
        self.kind, self.value, self.args = kind, value, list(args)
        self.labels = []

    def label(self, a):
        self.labels.append(a)
        return self

    def _op(self, name, *others):
        return Elem('op:' + name, None, [self] + list(others))

    def op(self, opname, precedence=0, *a, **k):
        def build(*others):
            e = Elem('op:generic:' + str(opname), None, [self] + list(others))
            e.precedence = precedence          # SQLAlchemy brackets an operand exactly when the operand's operator has a lower precedence than this
            return e
        return build

    def leaves(self):
        if not self.args:
            return [self]
        out = []
        for a in self.args:
            if isinstance(a, Elem):
                out.extend(a.leaves())
            elif isinstance(a, (list, tuple)):
                for x in a:
                    out.extend(x.leaves() if isinstance(x, Elem) else [x])
            else:
                out.append(a)
        return out

    def __hash__(self):
        return id(self)

    def __repr__(self):
        return f'<{self.kind}{" " + repr(self.value) if self.value is not None else ""}>'


OPERATOR_METHODS = ('__eq__', '__ne__', '__gt__', '__lt__', '__ge__', '__le__', '__add__', '__sub__', '__mul__', '__truediv__', '__floordiv__', '__mod__', 'is_', 'is_not',
                    'isnot', 'like', 'notlike', 'not_like', 'ilike', 'in_', 'notin_', 'not_in', 'concat', '__and__', '__or__', '__invert__', '__neg__', 'between',
                    'desc', 'asc', 'nullsfirst', 'nullslast', 'nulls_first', 'nulls_last', 'exists', 'scalar_subquery', 'subquery')
for _nm in OPERATOR_METHODS:
    setattr(Elem, _nm, (lambda n_: (lambda self, *o: self._op(n_, *o)))(_nm))


def sa_stubs():
    """stand-ins by dotted callee text for the SQLAlchemy constructors the renderer's expression code uses"""
    return {'sa.literal': lambda it, x, *a, **k: Elem('literal', x), 'sa.between': lambda it, a, b, c: Elem('op:between', None, [a, b, c]),
            'sa.and_': lambda it, *a: Elem('op:sa.and_', None, a), 'sa.or_': lambda it, *a: Elem('op:sa.or_', None, a), 'sa.not_': lambda it, a: Elem('op:sa.not_', None, [a]),
            'sa.null': lambda it: Elem('null'), 'sa.true': lambda it: Elem('true'), 'sa.false': lambda it: Elem('false'),
            'sa.literal_column': lambda it, x, *a: Elem('literal_column', x), 'sa.text': lambda it, x: Elem('text', x), 'sa.bindparam': lambda it, *a, **k: Elem('bindparam', a),
            'sa.sql.elements.Grouping': lambda it, x: Elem('grouping', None, [x]), 'Grouping': lambda it, x: Elem('grouping', None, [x])}


def elem_getattr(itp, o, name, *d):
    """`getattr` for interpreted code: real attribute lookup on recording elements, stand-in attributes otherwise"""
    from .interp import Obj, ClassRef
    if isinstance(o, Elem):
        return getattr(o, name)
    if isinstance(o, ClassRef):
        return itp._getattr(o, name, None)          # a member of a module / class (getattr(sa_fnc, 'current_date')): resolved like the dotted name
    if isinstance(o, Obj) and name in o.attrs:
        return o.attrs[name]
    if d:
        return d[0]
    raise AttributeError(name)
