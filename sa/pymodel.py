"""Engine B (part): class / method / field index of the repository, from ast only."""
import ast

from .source import AnalysisError, dotted, walk_no_nested, norm


class ClassInfo:
    def __init__(self, name, file, node):
        self.name = name
        self.file = file
        self.node = node
        self.base_names = [dotted(b) for b in node.bases]
        self.bases = []          # resolved ClassInfo
        self.methods = {}
        for st in node.body:
            if isinstance(st, (ast.FunctionDef, ast.AsyncFunctionDef)):
                self.methods[st.name] = st   # last definition wins (as in Python)

    def __repr__(self):
        return f'<class {self.name} {self.file}>'


class Model:
    def __init__(self, src, tops=('mindsdb_sql',)):
        self.src = src
        self.classes = {}        # name -> [ClassInfo]
        self.files = src.py_files(*tops)
        for f in self.files:
            tree = src.tree(f)
            for n in tree.body:
                if isinstance(n, ast.ClassDef):
                    self.classes.setdefault(n.name, []).append(ClassInfo(n.name, f, n))
        for lst in self.classes.values():
            for ci in lst:
                for bn in ci.base_names:
                    if bn is None:
                        continue
                    b = self.resolve(bn.split('.')[-1], ci.file)
                    if b is not None and b is not ci:
                        ci.bases.append(b)

    def resolve(self, name, file=None):
        lst = self.classes.get(name)
        if not lst:
            return None
        if len(lst) == 1:
            return lst[0]
        if file:
            for ci in lst:
                if ci.file == file:
                    return ci
            # follow `from m import name`
            tree = self.src.tree(file)
            for n in tree.body:
                if isinstance(n, ast.ImportFrom) and n.module:
                    for a in n.names:
                        if (a.asname or a.name) == name:
                            mod = n.module.replace('.', '/')
                            for ci in lst:
                                if ci.file in (mod + '.py', mod + '/__init__.py'):
                                    return ci
        raise AnalysisError(f'class name {name} is ambiguous ({[c.file for c in lst]}) and cannot be resolved from {file}')

    def get(self, name, file=None):
        ci = self.resolve(name, file)
        if ci is None:
            raise AnalysisError(f'class {name} not found in the repository (anchor vanished)')
        return ci

    def mro(self, ci):
        out = []
        seen = set()

        def go(c):
            if id(c) in seen:
                return
            seen.add(id(c))
            out.append(c)
            for b in c.bases:
                go(b)
        go(ci)
        return out

    def isa_table(self, under='mindsdb_sql/parser/ast'):
        """{class name: names of all its ancestors} for the classes defined under a directory: the `isa` relation the interpreter uses for isinstance"""
        out = {}
        for lst in self.classes.values():
            for ci in lst:
                if ci.file.startswith(under):
                    out[ci.name] = {c.name for c in self.mro(ci)[1:]}
        return out

    def is_subclass(self, ci, base_name):
        return any(c.name == base_name for c in self.mro(ci))

    def subclasses(self, base_name, strict=False):
        out = []
        for lst in self.classes.values():
            for ci in lst:
                if self.is_subclass(ci, base_name) and not (strict and ci.name == base_name):
                    out.append(ci)
        return sorted(out, key=lambda c: (c.file, c.node.lineno))

    def method(self, ci, name):
        """(defining ClassInfo, FunctionDef) through the MRO, or (None, None)."""
        for c in self.mro(ci):
            if name in c.methods:
                return c, c.methods[name]
        return None, None

    def init_params(self, ci):
        """[(param, default ast or None)] of the nearest __init__ (positional + kw-only), without self."""
        c, fn = self.method(ci, '__init__')
        if fn is None:
            return []
        a = fn.args
        pos = a.posonlyargs + a.args
        defaults = [None] * (len(pos) - len(a.defaults)) + list(a.defaults)
        out = [(p.arg, d) for p, d in zip(pos, defaults)][1:]
        out += [(p.arg, d) for p, d in zip(a.kwonlyargs, a.kw_defaults)]
        return out

    def self_fields(self, ci, through_mro=True):
        """attribute name -> first assignment node `self.X = ...` found in any method (own class first)."""
        out = {}
        for c in (self.mro(ci) if through_mro else [ci]):
            for fn in c.methods.values():
                for n in walk_no_nested(fn):
                    tgts = []
                    if isinstance(n, ast.Assign):
                        tgts = n.targets
                    elif isinstance(n, (ast.AugAssign, ast.AnnAssign)):
                        tgts = [n.target]
                    for t in tgts:
                        for e in (t.elts if isinstance(t, ast.Tuple) else [t]):
                            if isinstance(e, ast.Attribute) and isinstance(e.value, ast.Name) and e.value.id == 'self':
                                out.setdefault(e.attr, (c, fn, n))
        return out

    def functions(self, file):
        tree = self.src.tree(file)
        return {n.name: n for n in tree.body if isinstance(n, (ast.FunctionDef, ast.AsyncFunctionDef))}


_cache = {}


def model_for(src):
    from .source import memo_on
    return memo_on(src, 'pymodel', lambda: Model(src))


# ---- "derives from field" analysis shared by printers and walkers ---------------------------------

NODE_METHODS = {'to_tree', 'to_string', 'get_string'}


def _pos(n):
    p = getattr(n, '_seq', None)
    return p if p is not None else getattr(n, 'lineno', 10 ** 9)


class FieldUse:
    """How a method touches the fields of `root` (self / node): which fields carry child nodes."""

    def __init__(self, fn, root, model=None, cls=None):
        self.fn = fn
        self.root = root
        self.model = model
        self.cls = cls
        self.derive = {}     # local name -> (field, shape, subattr)   (flow-insensitive fallback)
        self.assigned = {}   # (name, line) -> derivation or None (kill)
        self.index_vars = {}  # loop index variables of `for i, x in enumerate(root.F)` -> F
        self.child_fields = {}   # field -> set of shapes ('node','elem','value','sub:<attr>'): a node method is called
        self.weak = {}           # field -> shapes: only str()/map(str) is applied (payload or node: undecided)
        self._scan()

    def field_of(self, e):
        """(field, shape) if expression e denotes root.F, an element of it, a dict value of it ..."""
        if isinstance(e, ast.Attribute) and isinstance(e.value, ast.Name) and e.value.id == self.root:
            return (e.attr, 'node', None)
        if isinstance(e, ast.Name):
            d = self._lookup(e)
            if d is not None:
                return d
        if isinstance(e, ast.Attribute) and isinstance(e.value, ast.Name):
            d = self._lookup(e.value)
            if d is not None:
                f, sh, sub = d
                if sub is None and sh != 'node':
                    return (f, sh, e.attr)
        if isinstance(e, ast.Subscript):
            b = self.field_of(e.value)
            if b:
                return (b[0], 'elem', b[2])
        if isinstance(e, ast.Call) and isinstance(e.func, ast.Name) and e.func.id in ('list', 'tuple', 'iter', 'reversed', 'sorted') \
                and len(e.args) == 1 and e.func.id not in getattr(self, '_shadowed', ()):
            return self.field_of(e.args[0])
        if isinstance(e, ast.Call) and isinstance(e.func, ast.Name) and e.func.id == 'enumerate' and e.args:
            b = self.field_of(e.args[0])
            if b:
                return (b[0], 'enumerate', b[2])
        if isinstance(e, ast.Call) and isinstance(e.func, ast.Attribute) and e.func.attr in ('items', 'values', 'keys') \
                and not e.args:
            b = self.field_of(e.func.value)
            if b:
                return (b[0], e.func.attr, b[2])
        return None

    def _lookup(self, name_node):
        """Position-sensitive resolution of a local name: nearest enclosing for/comprehension that binds it,
        else the nearest preceding simple assignment, else the flow-insensitive table."""
        nm = name_node.id
        if nm == self.root:
            return None
        n = name_node
        from .source import parent
        p = parent(n)
        while p is not None:
            gens = []
            if isinstance(p, (ast.For, ast.AsyncFor)):
                gens = [(p.target, p.iter)]
                # the iter expression itself is outside the binding
                inside_iter = any(x is name_node for x in ast.walk(p.iter))
                if inside_iter:
                    gens = []
            elif isinstance(p, (ast.ListComp, ast.SetComp, ast.GeneratorExp, ast.DictComp)):
                gens = [(g.target, g.iter) for g in p.generators]
            for tgt, it in gens:
                if any(isinstance(x, ast.Name) and x.id == nm for x in ast.walk(tgt)):
                    saved = self.derive
                    self.derive = {}
                    try:
                        self._bind(tgt, it)
                        got = self.derive.get(nm)
                    finally:
                        self.derive = saved
                    return got
            if p is self.fn:
                break
            p = parent(p)
        best = None
        ln = _pos(name_node)
        for (anm, aln), src in self.assigned.items():
            if anm == nm and aln <= ln and (best is None or aln > best[0]):
                best = (aln, src)
        if best is not None:
            return best[1]
        return self.derive.get(nm)

    def _bind(self, target, it):
        src = self.field_of(it)
        if not src:
            return
        f, sh, sub = src
        if sh == 'keys':
            return
        if isinstance(target, ast.Name):
            self.derive[target.id] = (f, 'elem' if sh in ('node', 'elem', 'values') else sh, sub)
        elif isinstance(target, (ast.Tuple, ast.List)):
            if sh == 'items' and len(target.elts) == 2:
                if isinstance(target.elts[1], ast.Name):
                    self.derive[target.elts[1].id] = (f, 'value', sub)
            elif sh == 'enumerate' and len(target.elts) == 2:
                if isinstance(target.elts[1], ast.Name):
                    self.derive[target.elts[1].id] = (f, 'elem', sub)
                if isinstance(target.elts[0], ast.Name):
                    self.index_vars[target.elts[0].id] = f
            else:
                for e in target.elts:
                    if isinstance(e, ast.Name):
                        self.derive[e.id] = (f, 'elem', sub)

    def _scan(self):
        fn = self.fn
        # two passes so that derivations established later in source order inside comprehensions are seen
        for _ in range(2):
            for n in ast.walk(fn):
                if isinstance(n, (ast.For, ast.AsyncFor)):
                    self._bind(n.target, n.iter)
                elif isinstance(n, ast.comprehension):
                    self._bind(n.target, n.iter)
                elif isinstance(n, ast.Assign) and len(n.targets) == 1 and isinstance(n.targets[0], ast.Name):
                    src = self.field_of(n.value)
                    if n.targets[0].id != self.root:
                        self.assigned[(n.targets[0].id, _pos(n))] = src
        for n in ast.walk(fn):
            if isinstance(n, ast.Call):
                f = n.func
                if isinstance(f, ast.Attribute) and f.attr in NODE_METHODS:
                    src = self.field_of(f.value)
                    if src:
                        self._mark(src)
                elif isinstance(f, ast.Name) and f.id == 'str' and len(n.args) == 1:
                    src = self.field_of(n.args[0])
                    if src:
                        self.weak.setdefault(src[0], set()).add(src[1])
                elif isinstance(f, ast.Name) and f.id == 'map' and len(n.args) == 2 and dotted(n.args[0]) == 'str':
                    src = self.field_of(n.args[1])
                    if src:
                        self.weak.setdefault(src[0], set()).add('elem')
                elif isinstance(f, ast.Attribute) and isinstance(f.value, ast.Name) and f.value.id == self.root \
                        and self.model and self.cls:
                    # helper method of the same class that calls a node method on its parameter
                    c, m = self.model.method(self.cls, f.attr)
                    if m is not None and m is not self.fn:
                        params = [a.arg for a in m.args.args][1:]
                        for i, a in enumerate(n.args):
                            src = self.field_of(a)
                            if src and i < len(params) and _calls_node_method_on(m, params[i]):
                                self._mark(src)

    def _mark(self, src):
        f, sh, sub = src
        self.child_fields.setdefault(f, set()).add(sh if sub is None else f'{sh}.{sub}')


def _calls_node_method_on(fn, param):
    for n in ast.walk(fn):
        if isinstance(n, ast.Call) and isinstance(n.func, ast.Attribute) and n.func.attr in NODE_METHODS \
                and isinstance(n.func.value, ast.Name) and n.func.value.id == param:
            return True
    return False


# ---- textual order of fields in a printer (symbolic evaluation of the string composition) ----------

def _merge(a, b):
    out = list(a)
    for x in b:
        if x not in out:
            out.append(x)
    return out


class PrinterOrder:
    """Ordered list of the fields of `self` in the order in which they appear in the text the method returns."""

    def __init__(self, fn, root='self', model=None, cls=None):
        self.fn = fn
        self.root = root
        self.fu = FieldUse(fn, root, model, cls)
        self.result = []
        self.returns = 0
        st = self._block(fn.body, {})

    def ev(self, e, st):
        if e is None:
            return []
        src = self.fu.field_of(e)
        if src is not None and not (isinstance(e, ast.Name) and e.id in st):
            return [src[0]]
        if isinstance(e, ast.Name):
            return list(st.get(e.id, []))
        if isinstance(e, ast.Constant):
            return []
        if isinstance(e, ast.JoinedStr):
            out = []
            for v in e.values:
                out = _merge(out, self.ev(v, st))
            return out
        if isinstance(e, ast.FormattedValue):
            return self.ev(e.value, st)
        if isinstance(e, ast.BinOp):
            return _merge(self.ev(e.left, st), self.ev(e.right, st))
        if isinstance(e, ast.IfExp):
            return _merge(_merge(self.ev(e.body, st), self.ev(e.orelse, st)), [])
        if isinstance(e, ast.BoolOp):
            out = []
            for v in e.values:
                out = _merge(out, self.ev(v, st))
            return out
        if isinstance(e, (ast.ListComp, ast.GeneratorExp, ast.SetComp)):
            out = self.ev(e.elt, st)
            if not out:
                for g in e.generators:
                    out = _merge(out, self.ev(g.iter, st))
            return out
        if isinstance(e, (ast.List, ast.Tuple)):
            out = []
            for v in e.elts:
                out = _merge(out, self.ev(v, st))
            return out
        if isinstance(e, ast.Call):
            f = e.func
            if isinstance(f, ast.Attribute) and f.attr in ('join',):
                return self.ev(e.args[0], st) if e.args else []
            if isinstance(f, ast.Attribute) and f.attr in NODE_METHODS | {'upper', 'lower', 'strip', 'replace', 'format',
                                                                          'split', 'items', 'values', 'get'}:
                out = self.ev(f.value, st)
                if f.attr == 'format':
                    for a in e.args:
                        out = _merge(out, self.ev(a, st))
                return out
            out = []
            for a in e.args:
                out = _merge(out, self.ev(a, st))
            for k in e.keywords:
                out = _merge(out, self.ev(k.value, st))
            return out
        if isinstance(e, ast.Subscript):
            return self.ev(e.value, st)
        if isinstance(e, ast.Attribute):
            return self.ev(e.value, st)
        if isinstance(e, ast.Starred):
            return self.ev(e.value, st)
        return []

    def _block(self, stmts, st):
        for s in stmts:
            st = self._stmt(s, st)
        return st

    def _stmt(self, s, st):
        if isinstance(s, ast.Assign):
            v = self.ev(s.value, st)
            for t in s.targets:
                if isinstance(t, ast.Name):
                    st = dict(st)
                    st[t.id] = v
                elif isinstance(t, ast.Subscript) and isinstance(t.value, ast.Name):
                    st = dict(st)
                    st[t.value.id] = _merge(st.get(t.value.id, []), v)
        elif isinstance(s, ast.AugAssign) and isinstance(s.target, ast.Name):
            st = dict(st)
            st[s.target.id] = _merge(st.get(s.target.id, []), self.ev(s.value, st))
        elif isinstance(s, ast.Expr) and isinstance(s.value, ast.Call) and isinstance(s.value.func, ast.Attribute) \
                and s.value.func.attr in ('append', 'extend', 'insert') and isinstance(s.value.func.value, ast.Name):
            nm = s.value.func.value.id
            st = dict(st)
            v = []
            for a in s.value.args:
                v = _merge(v, self.ev(a, st))
            st[nm] = _merge(st.get(nm, []), v)
        elif isinstance(s, ast.If):
            a = self._block(s.body, dict(st))
            b = self._block(s.orelse, dict(st))
            out = {}
            for k in list(a) + [k for k in b if k not in a]:
                out[k] = _merge(a.get(k, []), b.get(k, []))
            st = out
        elif isinstance(s, (ast.For, ast.While)):
            st = self._block(s.body, dict(st))
            st = self._block(s.orelse, st)
        elif isinstance(s, ast.With):
            st = self._block(s.body, st)
        elif isinstance(s, ast.Try):
            st = self._block(s.body, st)
            for h in s.handlers:
                st = self._block(h.body, st)
            st = self._block(s.finalbody, st)
        elif isinstance(s, ast.Return):
            self.returns += 1
            self.result = _merge(self.result, self.ev(s.value, st))
        return st


def printer_method(model, ci):
    """The method that produces the node's own SQL text: an own `to_string` override wins over get_string."""
    c1, ts = model.method(ci, 'to_string')
    c2, gs = model.method(ci, 'get_string')
    if ts is not None and c1 is not None and c1.name != 'ASTNode':
        return c1, ts
    return c2, gs
