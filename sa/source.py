"""SourceSet: the analysed repository as text, never imported or executed.

All engines read sources through this class so that (a) every check sees /repo's *current
working tree*, (b) self-test mutants can be applied as an in-memory overlay without touching
the disk, (c) evidence can name exactly which files were consulted (digest).
"""
import ast
import hashlib
import os


class AnalysisError(Exception):
    """The analysis cannot give a sound verdict (vanished anchor, unmodelled construct,
    instance count below the floor).  Reported as ANALYSIS-ERROR, exit 2."""


class SourceSet:
    def __init__(self, root='/repo', overlay=None):
        self.root = os.path.abspath(root)
        self.overlay = dict(overlay or {})
        self._text = {}
        self._tree = {}
        self.consulted = set()

    # -- files ---------------------------------------------------------------------------
    def exists(self, rel):
        if rel in self.overlay:
            return self.overlay[rel] is not None
        return os.path.isfile(os.path.join(self.root, rel))

    def text(self, rel):
        if rel not in self._text:
            if rel in self.overlay:
                if self.overlay[rel] is None:
                    raise AnalysisError(f'source file {rel} does not exist')
                self._text[rel] = self.overlay[rel]
            else:
                p = os.path.join(self.root, rel)
                if not os.path.isfile(p):
                    raise AnalysisError(f'source file {rel} does not exist')
                with open(p, encoding='utf-8') as f:
                    self._text[rel] = f.read()
        self.consulted.add(rel)
        return self._text[rel]

    def tree(self, rel):
        if rel not in self._tree:
            try:
                import warnings
                with warnings.catch_warnings():
                    warnings.simplefilter('ignore')
                    t = ast.parse(self.text(rel), filename=rel)
            except SyntaxError as e:
                raise AnalysisError(f'{rel} does not parse: {e}')
            for n in ast.walk(t):
                for c in ast.iter_child_nodes(n):
                    c._parent = n
            t._parent = None
            t._file = rel
            self._tree[rel] = t
        return self._tree[rel]

    def py_files(self, *tops):
        out = set()
        for top in tops:
            base = os.path.join(self.root, top)
            for d, dirs, files in os.walk(base):
                dirs[:] = sorted(x for x in dirs if x != '__pycache__')
                for f in sorted(files):
                    if f.endswith('.py'):
                        out.add(os.path.relpath(os.path.join(d, f), self.root))
        for rel, txt in self.overlay.items():
            if rel.endswith('.py') and any(rel.startswith(t.rstrip('/') + '/') or rel == t for t in tops):
                if txt is None:
                    out.discard(rel)
                else:
                    out.add(rel)
        return sorted(out)

    def digest(self):
        h = hashlib.sha256()
        for rel in sorted(self.consulted):
            h.update(rel.encode())
            h.update(b'\0')
            h.update(self._text[rel].encode())
            h.update(b'\0')
        return h.hexdigest()[:16]

    def with_overlay(self, overlay):
        o = dict(self.overlay)
        o.update(overlay)
        return SourceSet(self.root, o)


# -- small ast helpers used everywhere ---------------------------------------------------------

def unparse(n):
    try:
        return ast.unparse(n)
    except Exception:  # pragma: no cover
        return '<?>'


def norm(n):
    """Normalised statement/expression text: the key used for constructs (never line numbers)."""
    return ' '.join(unparse(n).split())


def parent(n):
    return getattr(n, '_parent', None)


def ancestors(n):
    n = parent(n)
    while n is not None:
        yield n
        n = parent(n)


def enclosing_function(n):
    for a in ancestors(n):
        if isinstance(a, (ast.FunctionDef, ast.AsyncFunctionDef, ast.Lambda)):
            return a
    return None


def enclosing_class(n):
    for a in ancestors(n):
        if isinstance(a, ast.ClassDef):
            return a
    return None


def dotted(n):
    """'a.b.c' for Name/Attribute chains, else None."""
    parts = []
    while isinstance(n, ast.Attribute):
        parts.append(n.attr)
        n = n.value
    if isinstance(n, ast.Name):
        parts.append(n.id)
        return '.'.join(reversed(parts))
    return None


def const_str(n):
    if isinstance(n, ast.Constant) and isinstance(n.value, str):
        return n.value
    return None


def call_name(n):
    """dotted name of the callee of a Call node (or None)."""
    if isinstance(n, ast.Call):
        return dotted(n.func)
    return None


def walk_no_nested(fn):
    """ast.walk over a function body without descending into nested defs/lambdas/classes."""
    stack = list(fn.body) if hasattr(fn, 'body') and isinstance(fn.body, list) else [fn.body]
    while stack:
        n = stack.pop()
        yield n
        if isinstance(n, (ast.FunctionDef, ast.AsyncFunctionDef, ast.ClassDef, ast.Lambda)):
            continue
        for c in ast.iter_child_nodes(n):
            if isinstance(c, (ast.FunctionDef, ast.AsyncFunctionDef, ast.ClassDef, ast.Lambda)):
                continue
            stack.append(c)


def memo_on(src, key, build):
    """a value computed once per SourceSet and stored ON it (so it is freed with it: the self-test builds hundreds of overlaid source sets per process)"""
    store = src.__dict__.setdefault('_memo', {})
    if key not in store:
        store[key] = build()
    return store[key]


def raised_classes(exc, fn, module=None, depth=0):
    """names of the exception classes a `raise <exc>` inside `fn` can raise: a constructor call, a local bound to one (on any path), a conditional expression,
    a call of a module-level helper that returns one; `<reraise>` for the variable of an enclosing `except ... as e`; `?` when it cannot be told"""
    if exc is None:
        return {'<reraise>'}
    if depth > 4:
        return {'?'}
    if isinstance(exc, ast.IfExp):
        return raised_classes(exc.body, fn, module, depth + 1) | raised_classes(exc.orelse, fn, module, depth + 1)
    if isinstance(exc, ast.Call):
        d = dotted(exc.func) or (exc.func.attr if isinstance(exc.func, ast.Attribute) else None)
        last = (d or '?').split('.')[-1]
        if last[:1].isupper():
            return {last}
        if module is None:
            m = fn
            while getattr(m, '_parent', None) is not None:
                m = m._parent
            module = m if isinstance(m, ast.Module) else None
        if module is not None and isinstance(exc.func, ast.Name):
            for st in module.body:
                if isinstance(st, ast.FunctionDef) and st.name == last:
                    out = set()
                    for r in walk_no_nested(st):
                        if isinstance(r, ast.Return):
                            out |= raised_classes(r.value, st, module, depth + 1) if r.value is not None else {'?'}
                    return out or {'?'}
        return {'?'}
    if isinstance(exc, ast.Name):
        if exc.id[:1].isupper():
            return {exc.id}
        out = set()
        for n in walk_no_nested(fn):
            if isinstance(n, ast.Assign) and any(isinstance(t, ast.Name) and t.id == exc.id for t in n.targets):
                out |= raised_classes(n.value, fn, module, depth + 1)
            elif isinstance(n, ast.ExceptHandler) and n.name == exc.id:
                out.add('<reraise>')
        return out or {'?'}
    if isinstance(exc, ast.Attribute):
        return {exc.attr} if exc.attr[:1].isupper() else {'?'}
    return {'?'}
