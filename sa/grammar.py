"""Engine A (1/3): static model of a sly Parser class, read from source text only.

Reproduces sly's production order (names in first-definition order; for a redefined action name
the latest def first; decorators bottom-up; the arguments of one decorator reversed), sly's
production `line` formula (reduce/reduce tie-break), `%prec`, the precedence table and the name
map used for `p.<name>` access.
"""
import ast
from collections import Counter, OrderedDict

from .source import AnalysisError, const_str, dotted, unparse, norm

DIALECTS = ('mindsdb', 'mysql', 'sqlite')


class Production:
    __slots__ = ('number', 'name', 'rhs', 'prec', 'precname', 'line', 'func', 'index_in_func', 'raw',
                 'from_star', 'names')

    def __init__(self, number, name, rhs, prec, precname, line, func, raw, from_star):
        self.number = number
        self.name = name
        self.rhs = tuple(rhs)
        self.prec = prec            # (assoc, level)
        self.precname = precname
        self.line = line
        self.func = func            # ast.FunctionDef of the action (None for S')
        self.raw = raw
        self.from_star = from_star
        # sly Production.namemap: duplicates are numbered sym0, sym1 ...
        cnt = Counter(self.rhs)
        use = Counter()
        names = OrderedDict()
        for i, s in enumerate(self.rhs):
            if cnt[s] > 1:
                names[f'{s}{use[s]}'] = i
                use[s] += 1
            else:
                names[s] = i
        self.names = names

    def __str__(self):
        return f"{self.name} -> {' '.join(self.rhs) if self.rhs else '<empty>'}"


class LexerModel:
    def __init__(self, file, cls, tokens, rules, reflags, ignore, bases, node):
        self.file = file
        self.cls = cls
        self.tokens = tokens          # set of token names
        self.rules = rules            # ordered list of LexRule
        self.reflags = reflags
        self.ignore = ignore
        self.bases = bases
        self.node = node

    def rule(self, name):
        for r in self.rules:
            if r.name == name:
                return r
        return None


class LexRule:
    def __init__(self, name, pattern, func, file, line, parts=None):
        self.name = name
        self.pattern = pattern        # the regex source as sly builds it
        self.func = func              # ast.FunctionDef or None
        self.file = file
        self.line = line
        self.parts = parts or [pattern]   # the individual @_ arguments


class GrammarModel:
    def __init__(self):
        self.dialect = None
        self.file = None
        self.cls = None
        self.node = None
        self.tokens = set()
        self.precedence = []          # list of (assoc, [terms])
        self.precmap = {}             # term -> (assoc, level)
        self.productions = []         # index 0 = S'
        self.actions = OrderedDict()  # (name, lineno) -> FunctionDef, every @_ function
        self.start = None
        self.error_func = None        # (file, class, FunctionDef) resolved through bases
        self.lexer = None
        self.star_sets = {}           # name -> sorted list (statically evaluated module-level set)
        self.nonterminals = set()

    @property
    def terminals(self):
        return set(self.tokens) | {'error'}

    def prods_of(self, name):
        return [p for p in self.productions[1:] if p.name == name]

    def prods_of_func(self, fn):
        return [p for p in self.productions[1:] if p.func is fn]


# ----------------------------------------------------------------------------------------------

def _class(tree, name, file):
    for n in tree.body:
        if isinstance(n, ast.ClassDef) and n.name == name:
            return n
    raise AnalysisError(f'class {name} not found in {file}')


def _module_of(src, modname):
    rel = modname.replace('.', '/')
    for cand in (rel + '.py', rel + '/__init__.py'):
        if src.exists(cand):
            return cand
    raise AnalysisError(f'module {modname} not found')


def _imports(tree):
    """name -> (module, original name) for `from m import a [as b]` at module level."""
    m = {}
    for n in tree.body:
        if isinstance(n, ast.ImportFrom) and n.module and n.level == 0:
            for a in n.names:
                m[a.asname or a.name] = (n.module, a.name)
    return m


def dialect_classes(src):
    """Read get_lexer_parser in mindsdb_sql/__init__.py: dialect -> ((lexer module, class), (parser module, class))."""
    file = 'mindsdb_sql/__init__.py'
    tree = src.tree(file)
    fn = None
    for n in tree.body:
        if isinstance(n, ast.FunctionDef) and n.name == 'get_lexer_parser':
            fn = n
    if fn is None:
        raise AnalysisError('get_lexer_parser not found in mindsdb_sql/__init__.py')
    out = {}
    # the function is interpreted for each dialect name (fail-closed AST interpreter): it must return a (lexer, parser) pair of fresh instances
    from .interp import Interp, Obj, Raised, Env
    imports = _imports(tree)
    for st in ast.walk(tree):             # the classes are imported inside get_lexer_parser or inside helpers it calls
        if isinstance(st, ast.ImportFrom) and st.module and st.level == 0:
            for a in st.names:
                imports.setdefault(a.asname or a.name, (st.module, a.name))
                imports.setdefault(a.name, (st.module, a.name))
    for d in DIALECTS:
        try:
            res = Interp.for_file(src, file).call_function(fn, [d], {}, Env())
        except Raised:
            continue
        except AnalysisError:
            continue
        if isinstance(res, tuple) and len(res) == 2 and all(isinstance(x, Obj) for x in res) and all(x.kind in imports for x in res):
            out[d] = (imports[res[0].kind], imports[res[1].kind])
    if any(d not in out for d in DIALECTS):
        # not interpretable (e.g. the function consults module state): read the `XLexer(), XParser()` pairs under `dialect == '<name>'` tests
        def scan(stmts, dialect):
            for st in stmts:
                if isinstance(st, ast.If):
                    d = None
                    t = st.test
                    if (isinstance(t, ast.Compare) and len(t.ops) == 1 and isinstance(t.ops[0], ast.Eq) and const_str(t.comparators[0]) is not None):
                        d = const_str(t.comparators[0])
                    scan(st.body, d or dialect)
                    scan(st.orelse, dialect if d is None else None)
                elif isinstance(st, (ast.Assign, ast.Return)) and dialect:
                    v = st.value
                    if isinstance(v, ast.Tuple) and len(v.elts) == 2 and all(isinstance(e, ast.Call) for e in v.elts):
                        names = [dotted(e.func) for e in v.elts]
                        if all(nm in imports for nm in names):
                            out.setdefault(dialect, (imports[names[0]], imports[names[1]]))
                elif isinstance(st, (ast.For, ast.While, ast.With, ast.Try)):
                    scan(getattr(st, 'body', []), dialect)
        scan(fn.body, None)
    for d in DIALECTS:
        if d not in out:
            raise AnalysisError(f'get_lexer_parser: cannot resolve the lexer/parser classes of dialect {d!r} '
                                f'(get_lexer_parser({d!r}) must return a pair XLexer(), XParser() of imported classes)')
    return out


# -- set expressions ---------------------------------------------------------------------------

class _SetEval:
    """Evaluates the module-level set algebra the repo uses for token sets."""

    def __init__(self, src):
        self.src = src
        self._lex = {}

    def lexer_tokens(self, file, cls):
        key = (file, cls)
        if key in self._lex:
            return self._lex[key]
        tree = self.src.tree(file)
        c = _class(tree, cls, file)
        val = None
        for st in c.body:
            if isinstance(st, ast.Assign) and len(st.targets) == 1 and isinstance(st.targets[0], ast.Name) \
                    and st.targets[0].id == 'tokens':
                val = st.value
        if val is None:
            raise AnalysisError(f'{cls} in {file} has no `tokens` assignment')
        self._lex[key] = None
        res = self.eval(val, file, in_class=True)
        self._lex[key] = res
        return res

    def resolve_class(self, name, file):
        tree = self.src.tree(file)
        for n in tree.body:
            if isinstance(n, ast.ClassDef) and n.name == name:
                return file, name
        imp = _imports(tree)
        if name in imp:
            mod, orig = imp[name]
            f2 = _module_of(self.src, mod)
            return self.resolve_class(orig, f2)
        raise AnalysisError(f'cannot resolve class {name} from {file}')

    def eval(self, node, file, in_class=False):
        if isinstance(node, ast.Set):
            out = set()
            for e in node.elts:
                if isinstance(e, ast.Name) and (in_class and e.id.isupper() or e.id.isupper()):
                    out.add(e.id)
                elif const_str(e) is not None:
                    out.add(e.value)
                else:
                    raise AnalysisError(f'{file}:{e.lineno}: unmodelled element in token set: {unparse(e)}')
            return out
        if isinstance(node, ast.Attribute) and node.attr == 'tokens' and isinstance(node.value, ast.Name):
            f2, c2 = self.resolve_class(node.value.id, file)
            return set(self.lexer_tokens(f2, c2))
        if isinstance(node, ast.Call) and isinstance(node.func, ast.Attribute):
            m = node.func.attr
            base = node.func.value
            if m == 'copy' and not node.args:
                return set(self.eval(base, file, in_class))
            if m in ('union', 'difference', 'intersection') and len(node.args) >= 1:
                r = set(self.eval(base, file, in_class))
                for a in node.args:
                    o = self.eval(a, file, in_class)
                    r = r | o if m == 'union' else (r - o if m == 'difference' else r & o)
                return r
        if isinstance(node, ast.BinOp) and isinstance(node.op, (ast.BitOr, ast.Sub, ast.BitAnd)):
            l, r = self.eval(node.left, file, in_class), self.eval(node.right, file, in_class)
            return l | r if isinstance(node.op, ast.BitOr) else (l - r if isinstance(node.op, ast.Sub) else l & r)
        if isinstance(node, ast.Name):
            return self.module_name(node.id, file)
        raise AnalysisError(f'{file}:{getattr(node, "lineno", 0)}: unmodelled set expression: {unparse(node)}')

    def module_name(self, name, file):
        """Value of a module-level name bound by a modelled set expression plus .remove/.add/.discard calls."""
        tree = self.src.tree(file)
        val = None
        for st in tree.body:
            if isinstance(st, ast.Assign) and len(st.targets) == 1 and isinstance(st.targets[0], ast.Name) \
                    and st.targets[0].id == name:
                val = set(self.eval(st.value, file))
            elif isinstance(st, ast.Expr) and isinstance(st.value, ast.Call) and isinstance(st.value.func, ast.Attribute) \
                    and isinstance(st.value.func.value, ast.Name) and st.value.func.value.id == name:
                m = st.value.func.attr
                if val is None:
                    raise AnalysisError(f'{file}:{st.lineno}: {name} used before assignment')
                if m in ('remove', 'discard', 'add') and len(st.value.args) == 1 and const_str(st.value.args[0]) is not None:
                    a = st.value.args[0].value
                    if m == 'add':
                        val.add(a)
                    else:
                        if m == 'remove' and a not in val:
                            raise AnalysisError(f'{file}:{st.lineno}: {name}.remove({a!r}) of a missing element raises at import')
                        val.discard(a)
                else:
                    raise AnalysisError(f'{file}:{st.lineno}: unmodelled mutation of {name}: {unparse(st)}')
            elif isinstance(st, (ast.AugAssign,)) and isinstance(st.target, ast.Name) and st.target.id == name:
                raise AnalysisError(f'{file}:{st.lineno}: unmodelled mutation of {name}')
        if val is None:
            raise AnalysisError(f'{file}: module-level name {name} is not bound by a modelled set expression')
        return val


# -- lexer ---------------------------------------------------------------------------------------

def _reflags(node):
    import re
    if node is None:
        return 0
    if isinstance(node, ast.Constant) and isinstance(node.value, int):
        return node.value
    d = dotted(node)
    if d and d.startswith('re.') and hasattr(re, d[3:]):
        return int(getattr(re, d[3:]))
    if isinstance(node, ast.BinOp) and isinstance(node.op, ast.BitOr):
        return _reflags(node.left) | _reflags(node.right)
    raise AnalysisError(f'unmodelled reflags expression {unparse(node)}')


def prod_record(p, values):
    """the record sly hands to the action of production p (p[i], p[-i], p.SYMBOL, p.SYMBOL0 / SYMBOL1 for repeated symbols), as a dict for the interpreter"""
    rec = {}
    cnt = {s_: p.rhs.count(s_) for s_ in p.rhs}
    seen = {}
    for i, (s_, v) in enumerate(zip(p.rhs, values)):
        rec[i] = v
        rec[i - len(p.rhs)] = v
        if cnt[s_] > 1:
            rec[f'{s_}{seen.get(s_, 0)}'] = v
            seen[s_] = seen.get(s_, 0) + 1
        else:
            rec[s_] = v
    return rec


def _const_value(src, file, expr):
    """value of a constant expression of a lexer class body (string literals, module-level constants, + % join, comprehensions), folded by the fail-closed
    interpreter; None when it is not a constant"""
    s = const_str(expr)
    if s is not None:
        return s
    from .interp import Interp, Env, Raised
    try:
        return Interp.for_file(src, file).ev(expr, Env())
    except (AnalysisError, Raised):
        return None


def extract_lexer(src, file, cls, _seen=None):
    tree = src.tree(file)
    c = _class(tree, cls, file)
    se = _SetEval(src)
    tokens = se.lexer_tokens(file, cls)
    rules = []
    reflags = None
    ignore = None
    bases = []
    for b in c.bases:
        bn = dotted(b)
        if bn in ('Lexer', 'sly.Lexer'):
            continue
        f2, c2 = se.resolve_class(bn, file)
        base = extract_lexer(src, f2, c2)
        bases.append(base)
        rules.extend(base.rules)
        if reflags is None:
            reflags = base.reflags
        if ignore is None:
            ignore = base.ignore
    existing = {r.name: i for i, r in enumerate(rules)}
    own = OrderedDict()      # key -> value in class-dict insertion order (first assignment position)
    for st in c.body:
        if isinstance(st, ast.Assign) and len(st.targets) == 1 and isinstance(st.targets[0], ast.Name):
            k = st.targets[0].id
            if k == 'reflags':
                reflags = _reflags(st.value)
                continue
            if k == 'ignore':
                ignore = const_str(st.value)
                continue
            if k in ('tokens', 'literals', 'regex_module'):
                continue
            pat = const_str(st.value)
            if pat is None and (k in tokens or k.startswith('ignore_')):
                pat = _const_value(src, file, st.value)
                if not isinstance(pat, str):
                    raise AnalysisError(f'{file}:{st.lineno}: token {k} is not a constant pattern string')
            if pat is None:
                continue
            if k in own and own[k].func is None:
                raise AnalysisError(f'{file}:{st.lineno}: lexer name {k} redefined (sly raises at import)')
            own[k] = LexRule(k, pat, None, file, st.lineno)
        elif isinstance(st, ast.FunctionDef):
            pats = []
            for d in st.decorator_list:      # outermost first; sly prepends each later-applied decorator
                if isinstance(d, ast.Call) and isinstance(d.func, ast.Name) and d.func.id == '_':
                    args = []
                    for a in d.args:
                        v = _const_value(src, file, a.value if isinstance(a, ast.Starred) else a)
                        vs = list(v) if isinstance(a, ast.Starred) and isinstance(v, (list, tuple)) else [v]
                        if not all(isinstance(x, str) for x in vs):
                            raise AnalysisError(f'{file}:{a.lineno}: lexer @_ argument `{norm(a)}` is not a constant pattern string')
                        args.extend(vs)
                    pats.append(args)
            if pats:
                # decorators apply bottom-up; each application puts its pattern in front
                parts = []
                pattern = None
                for args in reversed(pats):
                    p = '|'.join(f'({a})' for a in args)
                    pattern = p if pattern is None else p + '|' + pattern
                    parts = args + parts
                own[st.name] = LexRule(st.name, pattern, st, file, st.lineno, parts)
            elif st.name in own and own[st.name].func is None:
                # def NAME(self, t) after NAME = 'pattern': function takes the prior string as pattern
                r = own[st.name]
                own[st.name] = LexRule(st.name, r.pattern, st, file, st.lineno)
    for k, r in own.items():
        if not (k in tokens or k.startswith('ignore_') or r.func is not None):
            if not k.startswith('_'):
                raise AnalysisError(f'{file}:{r.line}: {k} does not match a name in tokens (sly raises at import)')
            continue
        if k in existing:
            rules[existing[k]] = r
        else:
            existing[k] = len(rules)
            rules.append(r)
    return LexerModel(file, cls, set(tokens), rules, reflags or 0, ignore or '', bases, c)


# -- parser --------------------------------------------------------------------------------------

def _prec_table(node, file, module=None):
    # module-level `NAME = ('A', 'B', ...)` assigned once: a row may splat it in (`('left', *_ADDITIVE)`)
    consts = {}
    if module is not None:
        stores = {}
        for x in ast.walk(module):
            if isinstance(x, ast.Name) and isinstance(x.ctx, (ast.Store, ast.Del)):
                stores[x.id] = stores.get(x.id, 0) + 1
        for st in module.body:
            if isinstance(st, ast.Assign) and len(st.targets) == 1 and isinstance(st.targets[0], ast.Name) and stores.get(st.targets[0].id) == 1 \
                    and isinstance(st.value, (ast.Tuple, ast.List)) and all(const_str(e) is not None for e in st.value.elts):
                consts[st.targets[0].id] = [e.value for e in st.value.elts]
    if not isinstance(node, (ast.Tuple, ast.List)):
        raise AnalysisError(f'{file}:{node.lineno}: precedence is not a tuple literal')
    table = []
    for row in node.elts:
        if not isinstance(row, (ast.Tuple, ast.List)) or len(row.elts) < 2:
            raise AnalysisError(f'{file}:{row.lineno}: malformed precedence row {unparse(row)}')
        assoc = const_str(row.elts[0])
        if assoc not in ('left', 'right', 'nonassoc'):
            raise AnalysisError(f'{file}:{row.lineno}: unmodelled associativity {unparse(row.elts[0])}')
        terms = []
        for e in row.elts[1:]:
            if isinstance(e, ast.Name) and e.id.isupper():
                terms.append(e.id)
            elif const_str(e) is not None:
                terms.append(e.value)
            elif isinstance(e, ast.Starred) and isinstance(e.value, ast.Name) and e.value.id in consts:
                terms.extend(consts[e.value.id])
            else:
                raise AnalysisError(f'{file}:{e.lineno}: unmodelled precedence term {unparse(e)}')
        table.append((assoc, terms, row.lineno))
    return table


def _prec_value(src, node, file, depth=0):
    """the precedence table of a parser class: a tuple literal (rows may splat module-level tuples), or - evaluated by the fail-closed interpreter - the value of a
    module-level constant / a call of a pure helper (`precedence_levels('left PLUS MINUS', ...)`), or the table of another parser class (`SQLParser.precedence`)"""
    if isinstance(node, (ast.Tuple, ast.List)):
        return _prec_table(node, file, src.tree(file))
    if depth > 3:
        raise AnalysisError(f'{file}:{node.lineno}: precedence is defined through too many indirections')
    tree = src.tree(file)
    if isinstance(node, ast.Attribute) and node.attr == 'precedence' and isinstance(node.value, ast.Name):
        # the table of another parser class, imported into this module or defined in it
        cname = node.value.id
        for st in ast.walk(tree):
            if isinstance(st, ast.ClassDef) and st.name == cname:
                for b in st.body:
                    if isinstance(b, ast.Assign) and len(b.targets) == 1 and isinstance(b.targets[0], ast.Name) and b.targets[0].id == 'precedence':
                        return _prec_value(src, b.value, file, depth + 1)
            if isinstance(st, ast.ImportFrom) and st.module and st.module.startswith('mindsdb_sql') and any((a.asname or a.name) == cname for a in st.names):
                f2 = st.module.replace('.', '/') + '.py'
                if src.exists(f2):
                    t2 = src.tree(f2)
                    real = next((a.name for a in st.names if (a.asname or a.name) == cname), cname)
                    for c2 in t2.body:
                        if isinstance(c2, ast.ClassDef) and c2.name == real:
                            for b in c2.body:
                                if isinstance(b, ast.Assign) and len(b.targets) == 1 and isinstance(b.targets[0], ast.Name) and b.targets[0].id == 'precedence':
                                    return _prec_value(src, b.value, f2, depth + 1)
        raise AnalysisError(f'{file}:{node.lineno}: the precedence table of {cname} was not found')
    from .interp import Interp, Env, Raised
    try:
        val = Interp.for_file(src, file, {}, {}).ev(node, Env())
    except Raised as r:
        raise AnalysisError(f'{file}:{node.lineno}: evaluating the precedence table raises {r.exc_name}')
    rows = []
    if not isinstance(val, (tuple, list)) or not val:
        raise AnalysisError(f'{file}:{node.lineno}: precedence is not a tuple literal and does not evaluate to a table ({val!r:.60})')
    for row in val:
        if not (isinstance(row, (tuple, list)) and len(row) >= 2 and all(isinstance(x, str) for x in row) and row[0] in ('left', 'right', 'nonassoc')):
            raise AnalysisError(f'{file}:{node.lineno}: malformed precedence row {row!r}')
        rows.append((row[0], list(row[1:]), node.lineno))
    return rows


def _is_rule_decorator(d):
    return isinstance(d, ast.Call) and isinstance(d.func, ast.Name) and d.func.id == '_'


def extract_parser(src, file, cls, lexer=None):
    tree = src.tree(file)
    c = _class(tree, cls, file)
    se = _SetEval(src)
    g = GrammarModel()
    g.file, g.cls, g.node, g.lexer = file, cls, c, lexer
    prec_node = None
    tokens_node = None
    order = []
    defs = {}
    for st in c.body:
        if isinstance(st, ast.Assign) and len(st.targets) == 1 and isinstance(st.targets[0], ast.Name):
            k = st.targets[0].id
            if k == 'precedence':
                prec_node = st.value
            elif k == 'tokens':
                tokens_node = st.value
            elif k == 'start':
                raise AnalysisError(f'{file}:{st.lineno}: explicit start symbol is not modelled')
        elif isinstance(st, ast.FunctionDef):
            decs = [d for d in st.decorator_list if _is_rule_decorator(d)]
            other = [d for d in st.decorator_list if not _is_rule_decorator(d)]
            if not decs:
                if st.name in defs:
                    raise AnalysisError(f'{file}:{st.lineno}: {st.name} redefined without @_ (sly raises)')
                continue
            if other:
                raise AnalysisError(f'{file}:{st.lineno}: unmodelled decorator on grammar action {st.name}')
            if st.name not in defs:
                order.append(st.name)
                defs[st.name] = []
            defs[st.name].append((st, decs))
            g.actions[(st.name, st.lineno)] = st
    if tokens_node is None:
        raise AnalysisError(f'{cls}: no tokens attribute')
    g.tokens = se.eval(tokens_node, file, in_class=True)
    if 'error' in g.tokens:
        raise AnalysisError(f'{cls}: token named error')
    if prec_node is not None:
        g.precedence = _prec_value(src, prec_node, file)
    for lvl, (assoc, terms, _ln) in enumerate(g.precedence, 1):
        for t in terms:
            if t in g.precmap:
                raise AnalysisError(f'{cls}: precedence specified twice for {t} (sly raises at import)')
            g.precmap[t] = (assoc, lvl)
    terminals = g.terminals
    raw = []
    for name in order:
        for st, decs in reversed(defs[name]):              # latest definition first (next_func chain)
            rules = []
            for d in reversed(decs):                       # bottom decorator is applied first
                if d.keywords:
                    raise AnalysisError(f'{file}:{d.lineno}: keyword argument in @_')
                rs = []
                for a in d.args:
                    s = const_str(a)
                    if s is not None:
                        rs.append((s, False))
                    elif isinstance(a, ast.Starred) and isinstance(a.value, ast.Name):
                        vals = sorted(se.module_name(a.value.id, file))
                        g.star_sets[a.value.id] = vals
                        rs.extend((v, True) for v in vals)
                    else:
                        raise AnalysisError(f'{file}:{a.lineno}: @_ argument of {name} is neither a string literal '
                                            f'nor a starred module-level set: {unparse(a)}')
                rules.extend(rs[::-1])                     # sly: rules[::-1] of one decorator
            first = min([d.lineno for d in st.decorator_list] + [st.lineno])
            n = len(rules)
            for i, (r, star) in enumerate(rules):
                raw.append((name, r, first + n - 1 - i, st, star))
    g.productions = [None]
    seen = {}
    for name, r, line, st, star in raw:
        syms = r.split()
        if any(x in syms for x in ('{', '[', '}', ']')) or any('|' in s for s in syms) or syms[1:2] in ([':'], ['::=']):
            raise AnalysisError(f'{file}:{line}: EBNF / named-rule syntax in grammar rule is not modelled: {r!r}')
        for s in syms:
            if s[0] in '\'"':
                raise AnalysisError(f'{file}:{line}: literal token in rule {r!r} is not modelled')
        if name in terminals:
            raise AnalysisError(f'{file}:{line}: rule name {name} is a token')
        precname = None
        if '%prec' in syms:
            if syms[-2:-1] != ['%prec']:
                raise AnalysisError(f'{file}:{line}: %prec not at the end of rule {r!r}')
            precname = syms[-1]
            if precname not in g.precmap:
                raise AnalysisError(f'{file}:{line}: nothing known about the precedence of {precname} (sly raises)')
            prodprec = g.precmap[precname]
            syms = syms[:-2]
        else:
            rt = None
            for s in reversed(syms):
                if s in terminals:
                    rt = s
                    break
            precname = rt
            prodprec = g.precmap.get(rt, ('right', 0))
        key = (name, tuple(syms))
        if key in seen:
            raise AnalysisError(f'{file}:{line}: duplicate rule {name} -> {syms} (sly raises at import)')
        seen[key] = True
        g.productions.append(Production(len(g.productions), name, syms, prodprec, precname, line, st, r, star))
    if len(g.productions) < 2:
        raise AnalysisError(f'{cls}: no grammar rules')
    g.start = g.productions[1].name
    g.productions[0] = Production(0, "S'", [g.start], ('right', 0), None, 0, None, '', False)
    g.nonterminals = {p.name for p in g.productions}
    for p in g.productions[1:]:
        for s in p.rhs:
            if s not in terminals and s not in g.nonterminals:
                raise AnalysisError(f'{file}:{p.line}: symbol {s!r} used in {p} but not defined as a token or a rule')
    # error callback through the bases
    g.error_func = _resolve_method(src, file, cls, 'error')
    return g


def _resolve_method(src, file, cls, name, depth=0):
    tree = src.tree(file)
    c = _class(tree, cls, file)
    for st in c.body:
        if isinstance(st, ast.FunctionDef) and st.name == name:
            return (file, cls, st)
    se = _SetEval(src)
    for b in c.bases:
        bn = dotted(b)
        if bn in ('Parser', 'sly.Parser'):
            f2 = 'sly/yacc.py'
            return _resolve_method(src, f2, 'Parser', name, depth + 1)
        if bn in ('Lexer', 'sly.Lexer'):
            return _resolve_method(src, 'sly/lex.py', 'Lexer', name, depth + 1)
        if bn == 'object' or bn is None:
            continue
        f2, c2 = se.resolve_class(bn, file)
        r = _resolve_method(src, f2, c2, name, depth + 1)
        if r:
            return r
    return None


_cache = {}


def load_dialect(src, dialect):
    """GrammarModel (+ .lexer) of one dialect; memoised per SourceSet object."""
    from .source import memo_on
    return memo_on(src, ('grammar', dialect), lambda: _load_dialect(src, dialect))


def _load_dialect(src, dialect):
    dc = dialect_classes(src)
    (lmod, lcls), (pmod, pcls) = dc[dialect]
    lfile = _module_of(src, lmod)
    pfile = _module_of(src, pmod)
    se = _SetEval(src)
    lfile, lcls = se.resolve_class(lcls, lfile)
    pfile, pcls = se.resolve_class(pcls, pfile)
    lex = extract_lexer(src, lfile, lcls)
    g = extract_parser(src, pfile, pcls, lex)
    g.dialect = dialect
    return g
