"""Tiny partial evaluator for the side-effect-free expression shapes the repository uses in its
dispatch code (comparisons, boolean operators, membership, len, subscripts, constants).  Anything
else raises AnalysisError: rules that partially evaluate code fail closed, never guess."""
import ast

from .source import AnalysisError, norm


class Unknown(Exception):
    pass


def ev(node, env):
    if isinstance(node, ast.Constant):
        return node.value
    if isinstance(node, ast.Name):
        if node.id in env:
            return env[node.id]
        if node.id in ('True', 'False', 'None'):
            return {'True': True, 'False': False, 'None': None}[node.id]
        raise AnalysisError(f'partial evaluation: free name {node.id!r} in `{norm(node)}`')
    if isinstance(node, ast.Attribute):
        d = norm(node)
        if d in env:
            return env[d]
        base = ev(node.value, env)
        if isinstance(base, dict) and node.attr in base:
            return base[node.attr]
        if hasattr(base, '__dict__') and hasattr(base, node.attr):
            return getattr(base, node.attr)
        raise AnalysisError(f'partial evaluation: unknown attribute `{d}`')
    if isinstance(node, ast.BoolOp):
        if isinstance(node.op, ast.And):
            v = True
            for x in node.values:
                v = ev(x, env)
                if not v:
                    return v
            return v
        v = False
        for x in node.values:
            v = ev(x, env)
            if v:
                return v
        return v
    if isinstance(node, ast.UnaryOp):
        v = ev(node.operand, env)
        if isinstance(node.op, ast.Not):
            return not v
        if isinstance(node.op, ast.USub):
            return -v
    if isinstance(node, ast.BinOp) and isinstance(node.op, (ast.Add, ast.Mult, ast.Sub)):
        l, r = ev(node.left, env), ev(node.right, env)
        if isinstance(node.op, ast.Add):
            return l + r
        if isinstance(node.op, ast.Mult):
            return l * r
        return l - r
    if isinstance(node, ast.JoinedStr):
        return ''.join(v.value if isinstance(v, ast.Constant) else str(ev(v.value, env)) for v in node.values)
    if isinstance(node, ast.Compare):
        left = ev(node.left, env)
        for op, c in zip(node.ops, node.comparators):
            right = ev(c, env)
            if isinstance(op, ast.Eq): r = left == right
            elif isinstance(op, ast.NotEq): r = left != right
            elif isinstance(op, ast.Lt): r = left < right
            elif isinstance(op, ast.LtE): r = left <= right
            elif isinstance(op, ast.Gt): r = left > right
            elif isinstance(op, ast.GtE): r = left >= right
            elif isinstance(op, ast.Is): r = left is right
            elif isinstance(op, ast.IsNot): r = left is not right
            elif isinstance(op, ast.In): r = left in right
            elif isinstance(op, ast.NotIn): r = left not in right
            else:
                raise AnalysisError(f'partial evaluation: operator in `{norm(node)}`')
            if not r:
                return False
            left = right
        return True
    if isinstance(node, (ast.Tuple, ast.List)):
        return [ev(e, env) for e in node.elts]
    if isinstance(node, ast.Set):
        return set(ev(e, env) for e in node.elts)
    if isinstance(node, ast.Dict):
        return {ev(k, env): ev(v, env) for k, v in zip(node.keys, node.values)}
    if isinstance(node, ast.Subscript):
        return ev(node.value, env)[ev(node.slice, env)]
    if isinstance(node, ast.IfExp):
        return ev(node.body, env) if ev(node.test, env) else ev(node.orelse, env)
    if isinstance(node, ast.Call):
        fn = norm(node.func)
        args = [ev(a, env) for a in node.args]
        if fn == 'len' and len(args) == 1:
            return len(args[0])
        if fn == 'list' and len(args) == 1:
            return list(args[0])
        if fn == 'isinstance' and ('isinstance' in env):
            return env['isinstance'](*args)
        if isinstance(node.func, ast.Attribute) and node.func.attr in ('upper', 'lower', 'strip') and not args:
            return getattr(ev(node.func.value, env), node.func.attr)()
        if isinstance(node.func, ast.Attribute) and node.func.attr == 'replace' and len(args) == 2:
            base = ev(node.func.value, env)
            if isinstance(base, str):
                return base.replace(*args)
        if isinstance(node.func, ast.Attribute) and node.func.attr in ('get',) and 1 <= len(args) <= 2:
            return ev(node.func.value, env).get(*args)
        if fn in env and callable(env[fn]):
            return env[fn](*args)
    raise AnalysisError(f'partial evaluation: unmodelled construct `{norm(node)}`')
