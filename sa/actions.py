"""Engine B (part): semantic-value kinds of grammar symbols and per-production specialisation of actions.

For every grammar action and every production attached to it, `hasattr(p, 'n')`, `getattr(p, 'n', d)` and
`len(p)` fold to constants (sly's name map: duplicates are numbered expr0/expr1), dead branches are pruned,
and a small forward abstract interpretation computes the *kinds* of every expression:

   kinds ::= set of tags: 'str' 'int' 'float' 'bool' 'None' 'list' 'dict' 'tuple' 'Token' <class name> '?'

The kinds of each nonterminal are the fixpoint of the kinds of the return expressions of its actions.
List/dict values carry element kinds; dict literals carry a closed key set.
"""
import ast

from .source import AnalysisError, norm, dotted, const_str, raised_classes
from .cfg import Flow

UNK = '?'
STR_METHODS = {'lower', 'upper', 'strip', 'lstrip', 'rstrip', 'replace', 'join', 'format', 'title', 'capitalize', 'ljust', 'rjust', 'center', 'casefold', 'swapcase',
               'expandtabs', 'removeprefix', 'removesuffix', 'translate', 'zfill'}
BUILTIN_ATTRS = {
    'str': STR_METHODS | {'split', 'startswith', 'endswith', 'isdigit', 'find', 'index', 'count', 'encode', 'splitlines',
                          'isalpha', 'isupper', 'islower', 'partition', 'rsplit', 'zfill', 'isidentifier'},
    'list': {'append', 'extend', 'insert', 'pop', 'remove', 'index', 'count', 'sort', 'reverse', 'copy', 'clear'},
    'dict': {'get', 'pop', 'update', 'items', 'keys', 'values', 'copy', 'setdefault', 'clear', 'popitem'},
    'tuple': {'index', 'count'},
    'int': {'bit_length'}, 'float': {'is_integer'}, 'bool': set(), 'None': set(),
}
# which attributes exist is a fact about the builtin types themselves
for _k, _t in (('str', str), ('list', list), ('dict', dict), ('tuple', tuple), ('int', int), ('float', float)):
    BUILTIN_ATTRS[_k] = set(BUILTIN_ATTRS[_k]) | {m for m in dir(_t) if not m.startswith('_')}


class V:
    """abstract value"""
    __slots__ = ('kinds', 'elem', 'keys', 'nonempty', 'tok')

    def __init__(self, kinds=(), elem=None, keys=None, nonempty=False, tok=None):
        self.kinds = frozenset(kinds)
        self.elem = elem            # V of elements (list/tuple/dict values) or None
        self.keys = keys            # frozenset of closed literal keys for dict, or None = open
        self.nonempty = nonempty
        self.tok = tok              # the value is the unchanged text of this token type (provenance, survives assignment and helper parameters)

    def __eq__(self, o):
        return isinstance(o, V) and self.kinds == o.kinds and self.elem == o.elem and self.keys == o.keys and self.nonempty == o.nonempty and self.tok == o.tok

    def __hash__(self):
        return hash((self.kinds, self.keys))

    def __repr__(self):
        s = '|'.join(sorted(self.kinds))
        if self.elem is not None:
            s += f'[{self.elem!r}]'
        if self.keys is not None:
            s += '{' + ','.join(sorted(map(str, self.keys))) + '}'
        return s

    @property
    def known(self):
        return UNK not in self.kinds and bool(self.kinds)


def join(a, b, depth=0):
    if a is None:
        return b
    if b is None:
        return a
    elem = None
    if a.elem is not None or b.elem is not None:
        elem = join(a.elem, b.elem, depth + 1) if depth < 3 else V([UNK])
    keys = None
    if a.keys is not None and b.keys is not None:
        keys = a.keys & b.keys if ('dict' in a.kinds and 'dict' in b.kinds) else (a.keys if 'dict' in a.kinds else b.keys)
    elif 'dict' not in a.kinds and b.keys is not None:
        keys = b.keys
    elif 'dict' not in b.kinds and a.keys is not None:
        keys = a.keys
    return V(a.kinds | b.kinds, elem, keys, a.nonempty and b.nonempty, a.tok if a.tok == b.tok else None)


def vk(*kinds):
    return V(kinds)


class _NoProd:
    names = {}
    rhs = ()
    name = ''
    func = None

    def __str__(self):
        return '<not a grammar action>'


_NOPROD = _NoProd()


class ActionKinds:
    def __init__(self, g, model, extra_funcs=None):
        self.g = g
        self.model = model
        self.nt = {}                # nonterminal -> V
        self.class_names = set(model.classes)
        self.passes = 0
        self._depth = 0
        self._summaries = {}
        self.module_funcs = {}      # name -> (file, FunctionDef) for helpers callable from actions
        self.class_tuples = {}      # module-level NAME = (cls, cls, ...)
        src = model.src
        for file in (g.file, 'mindsdb_sql/parser/utils.py', 'mindsdb_sql/parser/ast/select/identifier.py'):
            if src.exists(file):
                for n in src.tree(file).body:
                    if isinstance(n, ast.FunctionDef):
                        self.module_funcs.setdefault(n.name, (file, n))
                    elif isinstance(n, ast.Assign) and len(n.targets) == 1 and isinstance(n.targets[0], ast.Name) and isinstance(n.value, ast.Tuple) and n.value.elts \
                            and all(dotted(e_) is not None for e_ in n.value.elts):
                        self.class_tuples.setdefault(n.targets[0].id, n.value)       # NUMBER_TYPES = (int, float): usable as the second argument of isinstance
        tree_file = g.file
        from .source import SourceSet
        self._fold_cache = {}

    # ---- production-specialised constant folding ----------------------------------------------------------
    def sym_value(self, sym):
        if sym in self.g.tokens:
            return V(['str'], nonempty=True, tok=sym)        # sly never produces an empty token
        return self.nt.get(sym) or V()

    def fold(self, test, prod, pvar, st=None):
        """True / False / None(unknown) for tests that depend only on the production shape."""
        if isinstance(test, ast.Call) and dotted(test.func) == 'hasattr' and len(test.args) == 2 \
                and isinstance(test.args[0], ast.Name) and test.args[0].id == pvar and const_str(test.args[1]) is not None:
            return test.args[1].value in prod.names
        if isinstance(test, ast.Name) and st is not None and test.id in st.get('#const', {}):
            return st['#const'][test.id]
        if isinstance(test, ast.UnaryOp) and isinstance(test.op, ast.Not):
            v = self.fold(test.operand, prod, pvar, st)
            return None if v is None else (not v)
        if isinstance(test, ast.BoolOp):
            vals = [self.fold(v, prod, pvar, st) for v in test.values]
            if isinstance(test.op, ast.And):
                if any(v is False for v in vals):
                    return False
                return True if all(v is True for v in vals) else None
            if any(v is True for v in vals):
                return True
            return False if all(v is False for v in vals) else None
        if isinstance(test, ast.Compare) and len(test.ops) == 1:
            l, r = test.left, test.comparators[0]
            def plen(e):
                if isinstance(e, ast.Call) and dotted(e.func) == 'len' and len(e.args) == 1 and isinstance(e.args[0], ast.Name) \
                        and e.args[0].id == pvar:
                    return len(prod.rhs)
                if isinstance(e, ast.Constant) and isinstance(e.value, int):
                    return e.value
                return None
            a, b = plen(l), plen(r)
            if a is not None and b is not None and (isinstance(l, ast.Call) or isinstance(r, ast.Call)):
                op = test.ops[0]
                return {ast.Eq: a == b, ast.NotEq: a != b, ast.Lt: a < b, ast.LtE: a <= b, ast.Gt: a > b, ast.GtE: a >= b}.get(type(op))
        return None

    # ---- expression evaluation ---------------------------------------------------------------------------------
    def ev(self, e, st, prod, pvar, sink=None):
        """abstract value of expression e; `sink(kind, node, info)` receives raise-capable constructs."""
        ev = lambda x: self.ev(x, st, prod, pvar, sink)
        if e is None:
            return vk('None')
        if isinstance(e, ast.Constant):
            v = e.value
            if v is None:
                return vk('None')
            return V([type(v).__name__], nonempty=bool(v) if isinstance(v, str) else False)
        if isinstance(e, ast.JoinedStr):
            for x in e.values:
                if isinstance(x, ast.FormattedValue):
                    ev(x.value)
            return vk('str')
        key = norm(e)
        if key in st.get('#narrow', {}):
            return st['#narrow'][key]
        if isinstance(e, ast.Name):
            if e.id in st:
                return st[e.id]
            if e.id in self.class_names:
                return V(['type', 'class:' + e.id])         # the class object itself, remembered by name: usable as the second argument of isinstance
            return vk(UNK)
        if isinstance(e, ast.Attribute) and isinstance(e.value, ast.Name) and e.value.id == pvar:
            if e.attr in ('_slice', '_stack', '_namemap', 'lineno', 'index', 'end'):
                return V(['list'], V(['Token']), nonempty=True) if e.attr == '_slice' else vk(UNK)
            if e.attr in prod.names:
                return self.sym_value(prod.rhs[prod.names[e.attr]])
            if sink:
                sink('R2', e, f'`{norm(e)}` does not exist in production `{prod}` (names: {list(prod.names)})')
            return vk(UNK)
        if isinstance(e, ast.Subscript) and isinstance(e.value, ast.Name) and e.value.id == pvar:
            idx = e.slice
            if isinstance(idx, ast.UnaryOp) and isinstance(idx.op, ast.USub) and isinstance(idx.operand, ast.Constant):
                return vk(UNK)          # p[-1]: value below the production on the stack
            if isinstance(idx, ast.Constant) and isinstance(idx.value, int):
                if 0 <= idx.value < len(prod.rhs):
                    return self.sym_value(prod.rhs[idx.value])
                if sink:
                    sink('R2', e, f'`{norm(e)}` is out of range for production `{prod}` ({len(prod.rhs)} symbols)')
                return vk(UNK)
            iv = ev(idx)
            # p[len(p) - 1] and friends
            if norm(idx) == f'len({pvar}) - 1' and prod.rhs:
                return self.sym_value(prod.rhs[-1])
            out = None
            for s in prod.rhs:
                out = join(out, self.sym_value(s))
            return out or vk(UNK)
        if isinstance(e, ast.Call):
            return self.ev_call(e, st, prod, pvar, sink)
        if isinstance(e, ast.Attribute):
            base = ev(e.value)
            self.check_attr(e, base, e.attr, sink)
            if e.attr == 'parts':
                return V(['list'], V(['str', 'Star']), keys=frozenset(['#parts']), nonempty=True)
            if e.attr in ('alias',):
                return vk('Identifier', 'None')
            return vk(UNK)
        if isinstance(e, ast.Subscript):
            base = ev(e.value)
            iv = ev(e.slice) if not isinstance(e.slice, ast.Slice) else V()
            if isinstance(e.slice, ast.Slice) and base.known and base.kinds <= {'list', 'tuple', 'str'}:
                # a slice has the kind of its base; it may be empty unless it is the full copy `x[:]`
                full = e.slice.lower is None and e.slice.upper is None and e.slice.step is None
                return V(base.kinds, base.elem, base.keys if full else None, nonempty=base.nonempty and full)
            k = const_str(e.slice)
            if 'dict' in base.kinds and k is not None:
                proven = (base.keys is not None and k in base.keys) or k in st.get('#keys', {}).get(norm(e.value), ())
                if not proven and sink:
                    sink('R1', e, f'`{norm(e)}`: key {k!r} is not known to be present (dict keys: {sorted(base.keys) if base.keys is not None else "open / user-supplied"})')
            if k is None and not isinstance(e.slice, ast.Slice) and iv.known and iv.kinds <= {'str'} and iv.tok is not None and sink and isinstance(e.ctx, ast.Load):
                # a string key computed at run time (from token text): only a mapping can be subscripted with it, and the key must be proven present
                proven = ('#expr:' + norm(e.slice)) in st.get('#keys', {}).get(norm(e.value), ())
                if not proven and not (base.known and base.kinds <= {'str'}):
                    sink('R1', e, f'`{norm(e)}`: the key is a string computed from the input (`{norm(e.slice)}`); nothing proves it is a key of `{norm(e.value)}` for every '
                                  f'spelling the lexer accepts (under re.IGNORECASE `UNİON` is the UNION token, but \'İ\'.upper() is not \'I\')')
            if 'None' in base.kinds and base.known and sink:
                sink('R7', e, f'`{norm(e)}` subscripts a value that can be None')
            if norm(e.value) == f'{pvar}._slice' and isinstance(e.slice, ast.Constant) and isinstance(e.slice.value, int):
                if not (0 <= e.slice.value < len(prod.rhs)) and sink:
                    sink('R2', e, f'`{norm(e)}` is out of range for production `{prod}`')
            elif isinstance(e.slice, ast.Constant) and isinstance(e.slice.value, int) and base.kinds <= {'list', 'tuple'} and base.known:
                if not base.nonempty and sink:
                    sink('R3', e, f'`{norm(e)}` indexes a list that is not known to be non-empty')
            if base.keys == frozenset(['#parts']) and isinstance(e.slice, ast.Constant) and e.slice.value == 0:
                return vk('str')        # only the LAST part of an identifier can be a Star (`identifier DOT star`)
            return base.elem or vk(UNK)
        if isinstance(e, (ast.List, ast.Tuple, ast.Set)):
            el = None
            for x in e.elts:
                el = join(el, ev(x.value if isinstance(x, ast.Starred) else x))
            return V(['list' if isinstance(e, ast.List) else ('tuple' if isinstance(e, ast.Tuple) else 'set')], el or V(), nonempty=bool(e.elts))
        if isinstance(e, ast.Dict):
            keys = set()
            el = None
            closed = True
            for k, v in zip(e.keys, e.values):
                if k is None:
                    closed = False
                    ev(v)
                    continue
                kv = ev(k)
                if isinstance(k, ast.Constant):
                    keys.add(k.value)
                else:
                    closed = False
                el = join(el, ev(v))
            return V(['dict'], el or V(), frozenset(keys) if closed else None)
        if isinstance(e, (ast.ListComp, ast.GeneratorExp, ast.SetComp)):
            st2 = dict(st)
            for gen in e.generators:
                it = self.ev(gen.iter, st2, prod, pvar, sink)
                self.check_iter(gen.iter, it, sink)
                self.bind(gen.target, it.elem or vk(UNK), st2)
                for c in gen.ifs:
                    self.ev(c, st2, prod, pvar, sink)
            el = self.ev(e.elt, st2, prod, pvar, sink)
            return V(['list'], el)
        if isinstance(e, ast.DictComp):
            st2 = dict(st)
            for gen in e.generators:
                it = self.ev(gen.iter, st2, prod, pvar, sink)
                self.check_iter(gen.iter, it, sink)
                self.bind(gen.target, it.elem or vk(UNK), st2)
            self.ev(e.key, st2, prod, pvar, sink)
            return V(['dict'], self.ev(e.value, st2, prod, pvar, sink), None)
        if isinstance(e, ast.BoolOp):
            out = None
            cur = st
            for i, x in enumerate(e.values):
                if cur is None:
                    break
                v = self.ev(x, cur, prod, pvar, sink)
                if isinstance(e.op, ast.Or):
                    if v.known and all(k in self.class_names for k in v.kinds):
                        out = join(out, v)          # instances of repository classes are always truthy: short-circuit
                        break
                    if i < len(e.values) - 1:
                        v = V(v.kinds - {'None'}, v.elem, v.keys, v.nonempty) if v.kinds - {'None'} else None
                    cur = self.narrow(x, cur, False, prod, pvar)
                else:
                    cur = self.narrow(x, cur, True, prod, pvar)
                out = join(out, v)
            return out or vk(UNK)
        if isinstance(e, ast.IfExp):
            f = self.fold(e.test, prod, pvar, st)
            if f is True:
                return ev(e.body)
            if f is False:
                return ev(e.orelse)
            ev(e.test)
            t = self.narrow(e.test, st, True, prod, pvar)
            fl = self.narrow(e.test, st, False, prod, pvar)
            a = self.ev(e.body, t, prod, pvar, sink) if t is not None else None
            b = self.ev(e.orelse, fl, prod, pvar, sink) if fl is not None else None
            return join(a, b) or vk(UNK)
        if isinstance(e, ast.UnaryOp):
            v = ev(e.operand)
            if isinstance(e.op, ast.Not):
                return vk('bool')
            if isinstance(e.op, (ast.USub, ast.UAdd)):
                if not (v.kinds <= {'int', 'float', 'bool'}) and sink:
                    sink('R5', e, f'`{norm(e)}` applies a sign to a value of kind {v!r}')
                return V(v.kinds & {'int', 'float'} or ['int'])
            return vk(UNK)
        if isinstance(e, ast.BinOp):
            a, b = ev(e.left), ev(e.right)
            if isinstance(e.op, ast.Add):
                if a.kinds <= {'list'} and b.kinds <= {'list'} and a.known and b.known:
                    return V(['list'], join(a.elem, b.elem), nonempty=a.nonempty or b.nonempty)
                if a.kinds <= {'str'} and b.kinds <= {'str'} and a.known and b.known:
                    return vk('str')
                if a.known and b.known:
                    num = {'int', 'float', 'bool'}
                    ok = (a.kinds <= num and b.kinds <= num) or (a.kinds <= {'list'} and b.kinds <= {'list'}) or \
                         (a.kinds <= {'str'} and b.kinds <= {'str'}) or (a.kinds <= {'tuple'} and b.kinds <= {'tuple'})
                    if not ok and sink:
                        sink('R5', e, f'`{norm(e)}` adds values of kinds {a!r} and {b!r}')
                return join(a, b)
            if isinstance(e.op, ast.Mod) and a.kinds <= {'str'}:
                return vk('str')
            if isinstance(e.op, ast.Mult) and (a.kinds <= {'str'} or b.kinds <= {'str'}):
                return vk('str')
            if a.known and b.known and not (a.kinds <= {'int', 'float', 'bool'} and b.kinds <= {'int', 'float', 'bool'}) and sink:
                sink('R5', e, f'`{norm(e)}`: arithmetic on kinds {a!r}, {b!r}')
            return vk('int', 'float')
        if isinstance(e, ast.Compare):
            ev(e.left)
            for c in e.comparators:
                ev(c)
            return vk('bool')
        if isinstance(e, ast.Starred):
            return ev(e.value)
        if isinstance(e, ast.Lambda):
            return vk('function')
        return vk(UNK)

    def check_attr(self, node, base, attr, sink):
        if not sink or not base.known or (attr.startswith('__') and attr.endswith('__')):
            return
        missing = []
        for k in base.kinds:
            if k in BUILTIN_ATTRS:
                if attr not in BUILTIN_ATTRS[k]:
                    missing.append(k)
            elif k in self.class_names:
                ci = self.model.resolve(k) if len(self.model.classes.get(k, [])) == 1 else None
                if ci is None:
                    return
                fields = self.model.self_fields(ci)
                c, m = self.model.method(ci, attr)
                cls_attr = any(isinstance(s, ast.Assign) and any(isinstance(t, ast.Name) and t.id == attr for t in s.targets)
                               for c2 in self.model.mro(ci) for s in c2.node.body)
                if attr not in fields and m is None and not cls_attr:
                    missing.append(k)
            else:
                return
        if missing:
            sink('R7', node, f'`{norm(node)}`: a value of kind {sorted(missing)} (out of {base!r}) has no attribute `{attr}`')

    def check_iter(self, node, v, sink):
        if sink and v.known and (v.kinds & {'None', 'int', 'float', 'bool'}):
            sink('R9', node, f'iteration over `{norm(node)}` whose value can be {sorted(v.kinds & {"None", "int", "float", "bool"})}')

    def bind(self, target, v, st):
        if isinstance(target, ast.Name):
            st[target.id] = v
        elif isinstance(target, (ast.Tuple, ast.List)) and v is not None and v.kinds == {'pair'} and len(target.elts) == 2:
            self.bind(target.elts[0], vk('str'), st)
            self.bind(target.elts[1], v.elem or vk(UNK), st)
        elif isinstance(target, (ast.Tuple, ast.List)):
            for t in target.elts:
                self.bind(t, (v.elem if v is not None and v.elem is not None else vk(UNK)), st)

    def ctor_check(self, e, cname, st, prod, pvar, sink):
        """constructor call of a repository class: keyword / positional arity against the __init__ chain"""
        lst = self.model.classes.get(cname, [])
        if len(lst) != 1 or not sink:
            return
        ci = lst[0]
        names = []
        accepts_kwargs = True
        accepts_varargs = True
        for c in self.model.mro(ci):
            fn = c.methods.get('__init__')
            if fn is None:
                continue
            a = fn.args
            names += [x.arg for x in a.posonlyargs + a.args][1:] + [x.arg for x in a.kwonlyargs]
            accepts_kwargs = a.kwarg is not None
            accepts_varargs = a.vararg is not None
            # does it forward **kwargs to super().__init__ ?
            fwd = any(isinstance(n, ast.Call) and norm(n.func) in ('super().__init__',) and any(k.arg is None for k in n.keywords)
                      for n in ast.walk(fn))
            if not (accepts_kwargs and fwd):
                break
        else:
            accepts_kwargs = False
        if not any(c.methods.get('__init__') for c in self.model.mro(ci)):
            return
        for k in e.keywords:
            if k.arg is not None and k.arg not in names and not (accepts_kwargs and False):
                sink('R10', e, f'`{cname}(... {k.arg}=...)`: the constructor chain of {cname} has no parameter `{k.arg}` '
                              f'(parameters: {names}) - TypeError at parse time')
        # required parameters
        c0, fn0 = self.model.method(ci, '__init__')
        if fn0 is not None:
            a = fn0.args
            pos = [x.arg for x in a.posonlyargs + a.args][1:]
            required = pos[:len(pos) - len(a.defaults)] if a.defaults else pos
            given = set(pos[:len([x for x in e.args if not isinstance(x, ast.Starred)])]) | {k.arg for k in e.keywords}
            has_star = any(isinstance(x, ast.Starred) for x in e.args) or any(k.arg is None for k in e.keywords)
            missing = [r for r in required if r not in given]
            if missing and not has_star:
                sink('R10', e, f'`{norm(e)[:60]}`: required parameter(s) {missing} of {cname}.__init__ are not passed')

    def ev_call(self, e, st, prod, pvar, sink):
        ev = lambda x: self.ev(x, st, prod, pvar, sink)
        d = dotted(e.func)
        args = [ev(a.value if isinstance(a, ast.Starred) else a) for a in e.args]
        kw = {k.arg: ev(k.value) for k in e.keywords}
        if d == 'getattr' and len(e.args) >= 2 and isinstance(e.args[0], ast.Name) and e.args[0].id == pvar and (
                const_str(e.args[1]) is not None or (isinstance(e.args[1], ast.Name) and e.args[1].id in st.get('#strconst', {}))):
            # the name is a literal, or a parameter of this helper that its caller (or its default) fixes to a literal
            nm = e.args[1].value if const_str(e.args[1]) is not None else st['#strconst'][e.args[1].id]
            if nm in prod.names:
                return self.sym_value(prod.rhs[prod.names[nm]])
            if len(e.args) == 3:
                return args[2]
            if sink:
                sink('R2', e, f'`{norm(e)}` without default: `{nm}` does not exist in production `{prod}`')
            return vk(UNK)
        if d in ('hasattr', 'isinstance', 'callable', 'bool', 'any', 'all'):
            return vk('bool')
        if d == 'len':
            return vk('int')
        if d in ('str', 'repr'):
            return vk('str')
        if d in ('int', 'float'):
            a0 = args[0] if args else vk(UNK)
            ok = a0.kinds <= {'int', 'float', 'bool'} and a0.known
            if not ok and e.args:
                src = e.args[0]
                tok = None
                if isinstance(src, ast.Subscript) and isinstance(src.value, ast.Name) and src.value.id == pvar \
                        and isinstance(src.slice, ast.Constant) and src.slice.value < len(prod.rhs):
                    tok = prod.rhs[src.slice.value]
                elif isinstance(src, ast.Attribute) and isinstance(src.value, ast.Name) and src.value.id == pvar and src.attr in prod.names:
                    tok = prod.rhs[prod.names[src.attr]]
                if tok is None and a0.tok is not None:
                    tok = a0.tok                # the token text arrived through a local / a helper's parameter
                r = None
                if tok in self.g.tokens:
                    import re
                    r = self.g.lexer.rule(tok)
                    probe = {'int': ['0', '12', '007'], 'float': ['0.0', '1.5', '10.25', '3.']}[d]
                    bad = ['a', '1a', '', ' ', '[number]', '1.2.3', '-', '0x1']
                    accepts_bad = any(re.fullmatch(r.pattern, b, self.g.lexer.reflags) for b in bad) if r else True
                    ok = r is not None and not accepts_bad
                if not ok and sink:
                    sink('R4', e, f'`{norm(e)}`: {d}() of a value of kind {a0!r} that is not the text of a numeric token')
                if ok and d == 'int' and sink and r is not None:
                    # CPython (>= 3.11) refuses to convert more than 4300 digits: int() of an unbounded digit run raises ValueError unless it is caught here
                    import re as _re2
                    unbounded = bool(_re2.search(r'(?<!\\\\)[+*]|\\{\\d+,\\}', r.pattern))
                    guarded = False
                    cur = getattr(e, '_parent', None)
                    while cur is not None and not isinstance(cur, ast.FunctionDef):
                        par = getattr(cur, '_parent', None)
                        if isinstance(par, ast.Try) and cur in par.body:
                            for h in par.handlers:
                                ts = [] if h.type is None else (h.type.elts if isinstance(h.type, ast.Tuple) else [h.type])
                                names = {(dotted(t) or '').split('.')[-1] for t in ts}
                                if (h.type is None or names & {'ValueError', 'Exception'}) and any(
                                        isinstance(x, ast.Raise) and 'ParsingException' in norm(x) for x in ast.walk(h)):
                                    guarded = True
                        cur = par
                    if unbounded and not guarded:
                        sink('R4', e, f'`{norm(e)}`: the {tok} token can have any number of digits and int() raises ValueError beyond 4300 digits (CPython limit): '
                                      f'the conversion must be guarded (ValueError -> ParsingException)')
            return vk(d)
        if d in ('list', 'tuple', 'sorted', 'reversed'):
            a0 = args[0] if args else V()
            return V(['list'], a0.elem or (vk('str') if 'dict' in a0.kinds else V()))
        if d in ('dict',):
            return V(['dict'], None, None)
        if d in ('set', 'frozenset'):
            return vk('set')
        if d in ('enumerate', 'zip', 'map', 'filter', 'range', 'iter'):
            return V(['list'], vk(UNK))
        if d in ('min', 'max', 'sum', 'abs'):
            return vk('int', 'float')
        if d in ('Identifier.from_path_str',):
            a0 = args[0] if args else vk(UNK)
            if not (a0.kinds <= {'str'} and a0.known) and sink:
                sink('R6', e, f'`{norm(e)}`: the path must be a string, got kind {a0!r}')
            return vk('Identifier')
        if norm(e.func) == 'super().__init__' and '#ctor' in st:
            kind, owner, vaname, kwname, va, kwx = st['#ctor']
            lst = self.model.classes.get(kind, [])
            if len(lst) == 1:
                mro = self.model.mro(lst[0])
                names = [c.name for c in mro]
                nxt = None
                if owner in names:
                    for c in mro[names.index(owner) + 1:]:
                        if '__init__' in c.methods:
                            nxt = c
                            break
                if nxt is not None:
                    fargs = []
                    for a_ in e.args:
                        if isinstance(a_, ast.Starred) and isinstance(a_.value, ast.Name) and a_.value.id == vaname:
                            fargs.extend(va)
                        elif isinstance(a_, ast.Starred):
                            fargs = None
                            break
                        else:
                            fargs.append(ev(a_))
                    fkw = {}
                    if fargs is not None:
                        for k_ in e.keywords:
                            if k_.arg is None and isinstance(k_.value, ast.Name) and k_.value.id == kwname:
                                fkw.update(dict(kwx))
                            elif k_.arg is not None:
                                fkw[k_.arg] = ev(k_.value)
                        self.call_function(nxt.methods['__init__'], nxt.file, fargs, fkw, e, sink, self_kind=kind, init_owner=nxt.name)
            return vk('None')
        if d in self.module_funcs:
            file, fn = self.module_funcs[d]
            # a helper that is handed the production slice itself sees the names of THIS production
            pctx = None
            for i, a_ in enumerate(e.args):
                if pvar is not None and isinstance(a_, ast.Name) and a_.id == pvar and i < len(fn.args.args):
                    pctx = (prod, fn.args.args[i].arg)
            val = self.call_function(fn, file, args, kw, e, sink, pctx=pctx)
            known_ret = {'tokens_to_string': vk('str'), 'unquote_string_token': vk('str'), 'variable_token_to_name': vk('str'), 'param_to_identifier': vk('Identifier'),
                         'ensure_select_keyword_order': vk('None'), 'path_str_to_parts': V(['list'], vk('str'))}
            return known_ret.get(d, val)
        last = d.split('.')[-1] if d else None
        if last in self.class_names and (d == last or d.startswith('ast.')) and len(self.model.classes.get(last, [])) == 1:
            ci = self.model.classes[last][0]
            self.ctor_check(e, last, st, prod, pvar, sink)
            c0, init = self.model.method(ci, '__init__')
            if init is not None and not any(isinstance(x, ast.Starred) for x in e.args) and not any(k.arg is None for k in e.keywords):
                self.call_function(init, c0.file, args, kw, e, sink, self_kind=last)
            if last == 'Identifier' and sink:
                a0 = args[0] if args else kw.get('path_str')
                pa = kw.get('parts')
                if a0 is not None and not (a0.kinds <= {'str', 'Star'} and a0.known):
                    sink('R6', e, f'`{norm(e)[:70]}`: Identifier asserts a non-empty string path, the argument has kind {a0!r}')
                if a0 is None and pa is None:
                    sink('R6', e, f'`{norm(e)[:70]}`: Identifier asserts that path_str or parts is given')
            return vk(last)
        if isinstance(e.func, ast.Attribute):
            base = ev(e.func.value)
            m = e.func.attr
            self.check_attr(e.func, base, m, sink)
            if base.kinds <= {'str'} and base.known:
                if m == 'join' and args and sink:
                    a0 = args[0]
                    el = a0.elem
                    if el is not None and el.known and not el.kinds <= {'str'}:
                        sink('R5', e, f'`{norm(e)[:70]}`: str.join over elements of kind {el!r}: a non-string element (the Star of `a.*`) raises TypeError')
                if m in STR_METHODS:
                    if base.tok is not None and m in ('lower', 'upper', 'strip', 'lstrip', 'rstrip', 'title', 'capitalize'):
                        return V(['str'], tok='~' + base.tok.lstrip('~'))          # still text the user wrote, transformed ('~' = derived from token text)
                    return vk('str')
                if m in ('split', 'splitlines', 'rsplit'):
                    return V(['list'], vk('str'), nonempty=True)
                if m in ('startswith', 'endswith') or m.startswith('is'):
                    return vk('bool')
            if 'dict' in base.kinds:
                if m == 'get':
                    dflt = args[1] if len(args) > 1 else vk('None')
                    return join(base.elem or vk(UNK), dflt)
                if m == 'pop':
                    k = const_str(e.args[0]) if e.args else None
                    if len(e.args) < 2 and sink:
                        proven = (base.keys is not None and k in base.keys) or k in st.get('#keys', {}).get(norm(e.func.value), ())
                        if not proven:
                            sink('R1', e, f'`{norm(e)}` without default: key {k!r} is not known to be present')
                    dflt = args[1] if len(args) > 1 else None
                    return join(base.elem or vk(UNK), dflt)
                if m in ('items',):
                    return V(['list'], V(['pair'], base.elem or vk(UNK)))
                if m in ('keys',):
                    return V(['list'], vk('str'))
                if m in ('values',):
                    return V(['list'], base.elem or vk(UNK))
                if m == 'copy':
                    return base
                if m in ('update', 'clear', 'setdefault'):
                    return vk('None')
            if 'list' in base.kinds:
                if m in ('append', 'extend', 'insert', 'sort', 'reverse', 'clear', 'remove'):
                    return vk('None')
                if m == 'copy':
                    return base
                if m == 'pop':
                    return base.elem or vk(UNK)
                if m in ('index', 'count'):
                    return vk('int')
            if m in ('to_string', 'get_string', 'to_tree', 'parts_to_str'):
                return vk('str')
            if m == 'copy':
                return base
            if m in ('lower', 'upper', 'strip', 'replace', 'format', 'join') and UNK in base.kinds:
                return vk('str')
            return vk(UNK)
        if d and '.' not in d and d[:1].isupper() and not d.isupper() and d not in self.class_names:
            # a class that is not the repository's (Decimal, Fraction, OrderedDict ...): its instances are values of that foreign kind
            return vk('ext:' + d)
        return vk(UNK)

    # ---- narrowing --------------------------------------------------------------------------------------------------
    def narrow(self, test, st, branch, prod, pvar):
        f = self.fold(test, prod, pvar, st)
        if f is not None:
            return st if f == branch else None
        if isinstance(test, ast.UnaryOp) and isinstance(test.op, ast.Not):
            return self.narrow(test.operand, st, not branch, prod, pvar)
        if isinstance(test, ast.BoolOp):
            if (isinstance(test.op, ast.And) and branch) or (isinstance(test.op, ast.Or) and not branch):
                for v in test.values:
                    st = self.narrow(v, st, branch, prod, pvar)
                    if st is None:
                        return None
                return st
            # (a and b) is false / (a or b) is true: feasible iff some operand can take that value (given the earlier ones)
            cur = st
            for v in test.values:
                if cur is None:
                    break
                if self.narrow(v, cur, branch, prod, pvar) is not None:
                    return st
                cur = self.narrow(v, cur, not branch, prod, pvar)
            return None
        def setn(expr, v):
            s2 = dict(st)
            nr = dict(s2.get('#narrow', {}))
            nr[norm(expr)] = v
            s2['#narrow'] = nr
            if isinstance(expr, ast.Name):
                s2[expr.id] = v
            return s2
        if isinstance(test, ast.Call) and dotted(test.func) in ('all', 'any') and len(test.args) == 1 and isinstance(test.args[0], (ast.GeneratorExp, ast.ListComp)) \
                and len(test.args[0].generators) == 1 and not test.args[0].generators[0].ifs and isinstance(test.args[0].generators[0].target, ast.Name):
            # all(isinstance(x, T) for x in E) true / any(not isinstance(x, T) for x in E) false: the elements of E are T;
            # any(isinstance(x, T) for x in E) false / all(not isinstance ...) true: no element of E is T
            gen = test.args[0].generators[0]
            elt = test.args[0].elt
            neg = False
            if isinstance(elt, ast.UnaryOp) and isinstance(elt.op, ast.Not):
                elt, neg = elt.operand, True
            if isinstance(elt, ast.Call) and dotted(elt.func) == 'isinstance' and len(elt.args) == 2 and isinstance(elt.args[0], ast.Name) \
                    and elt.args[0].id == gen.target.id:
                which = dotted(test.func)
                universal = (which == 'all' and branch) or (which == 'any' and not branch)      # the element test holds for every element
                if universal:
                    cur = self.ev(gen.iter, st, prod, pvar, None)
                    ts = elt.args[1].elts if isinstance(elt.args[1], ast.Tuple) else [elt.args[1]]
                    names = {(dotted(t) or UNK).split('.')[-1] for t in ts}
                    el = cur.elem
                    if el is not None and el.known:
                        keep = {k for k in el.kinds if (k in names) != neg} if which == 'all' else {k for k in el.kinds if (k in names) == neg}
                        if keep:
                            return setn(gen.iter, V(cur.kinds, V(keep, el.elem, el.keys, el.nonempty), cur.keys, cur.nonempty))
            return st
        if isinstance(test, ast.Call) and isinstance(test.func, ast.Name) and test.func.id in self.module_funcs and len(test.args) == 2 and not test.keywords and branch:
            # ... the same with the class handed in: `def f(x, cls)` whose true results pass `if not isinstance(x, cls): return False`
            hf2 = self.module_funcs[test.func.id][1]
            if len(hf2.args.args) == 2:
                p0, p1 = hf2.args.args[0].arg, hf2.args.args[1].arg
                for st_ in hf2.body:
                    if isinstance(st_, (ast.Import, ast.ImportFrom)) or (isinstance(st_, ast.Expr) and isinstance(st_.value, ast.Constant)):
                        continue
                    t_ = None
                    if isinstance(st_, ast.If) and not st_.orelse and len(st_.body) == 1 and isinstance(st_.body[0], ast.Return) \
                            and isinstance(st_.body[0].value, ast.Constant) and st_.body[0].value.value is False \
                            and isinstance(st_.test, ast.UnaryOp) and isinstance(st_.test.op, ast.Not):
                        t_ = st_.test.operand
                    elif isinstance(st_, ast.Return) and isinstance(st_.value, ast.BoolOp) and isinstance(st_.value.op, ast.And):
                        t_ = st_.value.values[0]
                    if isinstance(t_, ast.Call) and dotted(t_.func) == 'isinstance' and len(t_.args) == 2 and isinstance(t_.args[0], ast.Name) and t_.args[0].id == p0 \
                            and isinstance(t_.args[1], ast.Name) and t_.args[1].id == p1:
                        return self.narrow(ast.Call(func=ast.Name(id='isinstance', ctx=ast.Load()), args=[test.args[0], test.args[1]], keywords=[]), st, True, prod, pvar)
                    break
        if isinstance(test, ast.Call) and isinstance(test.func, ast.Name) and (test.func.id in self.module_funcs or test.func.id in getattr(self, '_local_funcs', {})) \
                and len(test.args) == 1 and not test.keywords and branch:
            # a type predicate: a helper `def f(x)` that answers True only for instances of some classes - every path to a true result passes
            # `if not isinstance(x, C): return False` (guard form) or the result is `isinstance(x, C) and ...`
            hf = (self.module_funcs.get(test.func.id) or self._local_funcs[test.func.id])[1]
            if len(hf.args.args) == 1:
                par = hf.args.args[0].arg
                guard = None
                for st_ in hf.body:
                    if isinstance(st_, (ast.Import, ast.ImportFrom)) or (isinstance(st_, ast.Expr) and isinstance(st_.value, ast.Constant)):
                        continue
                    t_ = None
                    if isinstance(st_, ast.If) and not st_.orelse and len(st_.body) == 1 and isinstance(st_.body[0], ast.Return) \
                            and isinstance(st_.body[0].value, ast.Constant) and st_.body[0].value.value is False \
                            and isinstance(st_.test, ast.UnaryOp) and isinstance(st_.test.op, ast.Not):
                        t_ = st_.test.operand
                    elif isinstance(st_, ast.Return) and isinstance(st_.value, ast.BoolOp) and isinstance(st_.value.op, ast.And):
                        t_ = st_.value.values[0]
                    if isinstance(t_, ast.Call) and dotted(t_.func) == 'isinstance' and len(t_.args) == 2 and isinstance(t_.args[0], ast.Name) and t_.args[0].id == par:
                        guard = t_
                    break
                if guard is not None:
                    return self.narrow(ast.Call(func=ast.Name(id='isinstance', ctx=ast.Load()), args=[test.args[0], guard.args[1]], keywords=[]), st, True, prod, pvar)
        if isinstance(test, ast.Call) and dotted(test.func) == 'isinstance' and len(test.args) == 2:
            cur = self.ev(test.args[0], st, prod, pvar, None)
            a1 = test.args[1]
            if isinstance(a1, ast.Name) and a1.id in self.class_tuples:
                a1 = self.class_tuples[a1.id]
            ts = a1.elts if isinstance(a1, ast.Tuple) else [a1]
            names = {(dotted(t) or UNK).split('.')[-1] for t in ts}
            if isinstance(a1, ast.Name) and a1.id in st:
                # a local that holds a class (or one of several classes): the classes its value can be
                held = self.ev(a1, st, prod, pvar, None)
                cands = set(held.kinds) | (set(held.elem.kinds) if held.elem is not None else set())
                cls_ = {k[6:] for k in cands if k.startswith('class:')}
                if cls_:
                    names = cls_
            def matches(k):
                if k in names:
                    return True
                if k in self.class_names and len(self.model.classes[k]) == 1:
                    return any(c.name in names for c in self.model.mro(self.model.classes[k][0]))
                if k == 'bool' and 'int' in names:
                    return True
                return False
            if cur.known:
                yes = {k for k in cur.kinds if matches(k)}
                no = set(cur.kinds) - yes
                sel = yes if branch else no
                if not sel:
                    return None
                return setn(test.args[0], V(sel, cur.elem, cur.keys, cur.nonempty))
            if branch:
                concrete = {n for n in names if n in self.class_names or n in BUILTIN_ATTRS}
                if concrete == names:
                    return setn(test.args[0], V(names))
            return st
        if isinstance(test, ast.Compare) and len(test.ops) == 1:
            l, r, op = test.left, test.comparators[0], test.ops[0]
            if isinstance(r, ast.Constant) and r.value is None and isinstance(op, (ast.Is, ast.IsNot, ast.Eq, ast.NotEq)):
                cur = self.ev(l, st, prod, pvar, None)
                is_none = isinstance(op, (ast.Is, ast.Eq)) == branch
                if is_none:
                    if cur.known and 'None' not in cur.kinds:
                        return None
                    return setn(l, vk('None'))
                rest = cur.kinds - {'None'}
                if cur.known and not rest:
                    return None
                return setn(l, V(rest or [UNK], cur.elem, cur.keys, cur.nonempty))
            if isinstance(r, ast.Constant) and r.value == '' and isinstance(op, (ast.Eq, ast.NotEq)):
                cur = self.ev(l, st, prod, pvar, None)
                empty = isinstance(op, ast.Eq) == branch
                if empty:
                    return None if (cur.known and cur.nonempty and cur.kinds <= {'str'}) else st
                return setn(l, V(cur.kinds, cur.elem, cur.keys, True if cur.kinds <= {'str'} else cur.nonempty))
            if isinstance(l, ast.Call) and dotted(l.func) == 'len' and len(l.args) == 1 and isinstance(r, ast.Constant) \
                    and isinstance(r.value, int):
                cur = self.ev(l.args[0], st, prod, pvar, None)
                pos = (isinstance(op, ast.Eq) and r.value > 0 and branch) or (isinstance(op, ast.Gt) and r.value >= 0 and branch) \
                    or (isinstance(op, ast.GtE) and r.value >= 1 and branch) or (isinstance(op, ast.NotEq) and r.value == 0 and branch) \
                    or (isinstance(op, ast.Eq) and r.value == 0 and not branch)
                if pos:
                    return setn(l.args[0], V(cur.kinds, cur.elem, cur.keys, True))
                return st
            if isinstance(op, (ast.In, ast.NotIn)) and const_str(l) is not None:
                present = isinstance(op, ast.In) == branch
                if present:
                    s2 = dict(st)
                    ks = dict(s2.get('#keys', {}))
                    ks[norm(r)] = set(ks.get(norm(r), ())) | {l.value}
                    s2['#keys'] = ks
                    return s2
            elif isinstance(op, (ast.In, ast.NotIn)):
                # `key_expr in table`: the same key expression may then be looked up in that table
                if isinstance(op, ast.In) == branch:
                    s2 = dict(st)
                    ks = dict(s2.get('#keys', {}))
                    ks[norm(r)] = set(ks.get(norm(r), ())) | {'#expr:' + norm(l)}
                    s2['#keys'] = ks
                    return s2
            return st
        if isinstance(test, (ast.Name, ast.Attribute, ast.Subscript, ast.Call)):
            cur = self.ev(test, st, prod, pvar, None)
            if not branch and cur.known:
                always_true = all((k in self.class_names) or (k in ('list', 'str', 'dict', 'tuple') and cur.nonempty) for k in cur.kinds)
                if always_true:
                    return None
            if branch:
                rest = cur.kinds - {'None'}
                if cur.known and not rest:
                    return None
                if isinstance(test, ast.Call):
                    return st
                return setn(test, V(rest or [UNK], cur.elem, cur.keys, True if cur.kinds <= {'list', 'str', 'dict', 'tuple', 'None'} and cur.known else cur.nonempty))
            return st
        return st

    # ---- running one action for one production -----------------------------------------------------------------------
    def run(self, prod, sink=None):
        fn = prod.func
        pvar = fn.args.args[1].arg
        return self.run_body(fn, {}, prod, pvar, sink)

    def call_function(self, fn, file, args, kw, e, sink, self_kind=None, pctx=None, init_owner=None):
        """abstract call of a repository function / constructor with the given argument values (depth-limited)"""
        if self._depth >= 3:
            return vk(UNK)
        a = fn.args
        params = [x.arg for x in a.posonlyargs + a.args]
        st = {}
        if self_kind is not None and params:
            st[params[0]] = vk(self_kind)
            params = params[1:]
        defaults = dict(zip([x.arg for x in (a.posonlyargs + a.args)][-len(a.defaults):], a.defaults)) if a.defaults else {}
        for x, d in zip(a.kwonlyargs, a.kw_defaults):
            if d is not None:
                defaults[x.arg] = d
        for pn, v in zip(params, args):
            st[pn] = v
        for k, v in kw.items():
            if k is not None:
                st[k] = v
        for pn in params + [x.arg for x in a.kwonlyargs]:
            if pn not in st:
                st[pn] = self.ev(defaults[pn], {}, _NOPROD, None, None) if pn in defaults else vk(UNK)
        if a.vararg:
            st[a.vararg.arg] = V(['tuple'], vk(UNK))
        if a.kwarg:
            st[a.kwarg.arg] = V(['dict'], vk(UNK), None)
        # parameters that this call fixes to a string literal (positionally, by keyword, or by their default): usable as attribute names (`getattr(p, symbol)`)
        strconst = {}
        if isinstance(e, ast.Call):
            off = 0
            for i_, a_ in enumerate(e.args):
                if i_ + off < len(params) and const_str(a_) is not None:
                    strconst[params[i_]] = a_.value
            for k_ in e.keywords:
                if k_.arg and const_str(k_.value) is not None:
                    strconst[k_.arg] = k_.value.value
            given = set(params[:len(e.args)]) | {k_.arg for k_ in e.keywords if k_.arg}
            for pn in params:
                if pn not in given and pn in defaults and const_str(defaults[pn]) is not None:
                    strconst[pn] = defaults[pn].value
        st['#strconst'] = strconst
        # predicates defined inside this function (`def is_bare_not(node): return isinstance(node, C) and ...`) narrow like the module-level ones
        self._local_funcs = getattr(self, '_local_funcs', {})
        for s_ in fn.body:
            if isinstance(s_, ast.FunctionDef):
                self._local_funcs[s_.name] = (file, s_)
        if self_kind is not None:
            # what a constructor hands on with super().__init__(*args, **kwargs)
            named = set(params) | {x.arg for x in a.kwonlyargs}
            st['#ctor'] = (self_kind, init_owner or self_kind, a.vararg.arg if a.vararg else None, a.kwarg.arg if a.kwarg else None,
                           tuple(args[len(params):]), tuple(sorted(((k, v) for k, v in kw.items() if k is not None and k not in named), key=lambda kv: kv[0])))
        key = (id(fn), repr(sorted((k, repr(v)) for k, v in st.items())), None if pctx is None else (pctx[0].number, pctx[1]))
        if key in self._summaries:
            val, finds = self._summaries[key]
        else:
            self._summaries[key] = (vk(UNK), [])        # recursion guard
            finds = []
            self._depth += 1
            try:
                val = self.run_body(fn, st, pctx[0] if pctx else _NOPROD, pctx[1] if pctx else None,
                                    lambda kind, node, info: finds.append((kind, node, info)), allowed_raise=('ParsingException',))
            finally:
                self._depth -= 1
            self._summaries[key] = (val, finds)
        if sink:
            for kind, node, info in finds:
                sink(kind, e, f'in {fn.name}() [{file}:{getattr(node, "lineno", 0)}] called as `{norm(e)[:60]}`: {info}')
        return val

    def run_body(self, fn, init, prod, pvar, sink=None, allowed_raise=('ParsingException',)):
        rets = []

        def transfer(s, st):
            st = dict(st)
            if isinstance(s, ast.Assign):
                v = self.ev(s.value, st, prod, pvar, sink)
                for t in s.targets:
                    if isinstance(t, (ast.Tuple, ast.List)) and isinstance(s.value, (ast.Tuple, ast.List)) and len(t.elts) == len(s.value.elts) \
                            and not any(isinstance(x, ast.Starred) for x in list(t.elts) + list(s.value.elts)):
                        # a, b = x, y: element-wise (the kinds of the elements are not mixed)
                        vals = [self.ev(x, st, prod, pvar, None) for x in s.value.elts]
                        for tt, vv in zip(t.elts, vals):
                            self.assign(tt, vv, st, prod, pvar, sink)
                        continue
                    self.assign(t, v, st, prod, pvar, sink)
                    if isinstance(t, ast.Name):
                        cs = dict(st.get('#const', {}))
                        fv = self.fold(s.value, prod, pvar, st)
                        if fv is None:
                            cs.pop(t.id, None)
                        else:
                            cs[t.id] = fv
                        st['#const'] = cs
            elif isinstance(s, ast.AugAssign):
                v = self.ev(ast.BinOp(left=s.target, op=s.op, right=s.value), st, prod, pvar, sink)
                self.assign(s.target, v, st, prod, pvar, sink)
            elif isinstance(s, ast.Expr):
                self.effect(s.value, st, prod, pvar, sink)
            elif isinstance(s, ast.Return):
                rets.append(self.ev(s.value, st, prod, pvar, sink) if s.value is not None else vk('None'))
            elif isinstance(s, ast.For):
                it = self.ev(s.iter, st, prod, pvar, sink)
                self.check_iter(s.iter, it, sink)
                el = it.elem
                if 'dict' in it.kinds and it.known:
                    el = vk('str')
                c_ = s.iter
                if isinstance(c_, ast.Call) and isinstance(c_.func, ast.Name) and c_.func.id in ('enumerate', 'zip') and isinstance(s.target, ast.Tuple) \
                        and not c_.keywords and all(not isinstance(a_, ast.Starred) for a_ in c_.args):
                    # `for i, x in enumerate(xs)` / `for a, b in zip(xs, ys)`: the components are the elements of the arguments
                    srcs = [self.ev(a_, st, prod, pvar, sink) for a_ in c_.args]
                    comps = ([vk('int')] + [srcs[0].elem or vk(UNK)]) if c_.func.id == 'enumerate' and len(srcs) == 1 else [x_.elem or vk(UNK) for x_ in srcs]
                    if len(comps) == len(s.target.elts):
                        for t_, v_ in zip(s.target.elts, comps):
                            self.bind(t_, v_, st)
                        el = None
                        c_ = 'bound'
                if c_ != 'bound':
                    self.bind(s.target, el or vk(UNK), st)
            elif isinstance(s, (ast.If, ast.While)):
                self.ev(s.test, st, prod, pvar, sink)
            elif isinstance(s, ast.Assert):
                f = self.fold(s.test, prod, pvar, st)
                if f is None:
                    v = self.ev(s.test, st, prod, pvar, None)
                    t = self.narrow(s.test, st, False, prod, pvar)
                    if t is not None and sink:
                        sink('R6', s, f'`assert {norm(s.test)}` is not provable for production `{prod}` (value kind {v!r}): AssertionError on user input')
                elif f is False and sink:
                    sink('R6', s, f'`assert {norm(s.test)}` always fails for production `{prod}`')
                n = self.narrow(s.test, st, True, prod, pvar)
                return n if n is not None else st
            elif isinstance(s, ast.Delete):
                pass
            elif isinstance(s, (ast.Pass, ast.Import, ast.ImportFrom, ast.Global, ast.Nonlocal, ast.FunctionDef, ast.With)):
                pass
            return st

        def cond(test, st, branch):
            return self.narrow(test, st, branch, prod, pvar)

        def joinst(a, b):
            out = {}
            for k in set(a) | set(b):
                if k == '#narrow':
                    na, nb = a.get(k, {}), b.get(k, {})
                    out[k] = {x: join(na[x], nb[x]) for x in na if x in nb}
                elif k == '#keys':
                    ka, kb = a.get(k, {}), b.get(k, {})
                    out[k] = {x: set(ka[x]) & set(kb[x]) for x in ka if x in kb}
                elif k == '#ctor':
                    if a.get(k) == b.get(k):
                        out[k] = a.get(k)
                elif k in ('#const', '#strconst'):
                    ca, cb = a.get(k, {}), b.get(k, {})
                    out[k] = {x: ca[x] for x in ca if x in cb and ca[x] == cb[x]}
                elif k in a and k in b:
                    out[k] = join(a[k], b[k])
                else:
                    out[k] = join(a.get(k) or b.get(k), vk(UNK)) if False else (a.get(k) or b.get(k))
            return out
        flow = Flow(transfer, joinst, cond)
        res = flow.run(fn, dict(init))
        if res.end is not None:
            rets.append(vk('None'))
        if sink:
            for r, st in res.raises:
                if r.exc is not None:
                    nm = ((dotted(r.exc.func) if isinstance(r.exc, ast.Call) else dotted(r.exc)) or UNK).split('.')[-1]
                    if isinstance(r.exc, ast.Call):
                        for a in r.exc.args:
                            self.ev(a, st, prod, pvar, sink)
                    classes = raised_classes(r.exc, fn)
                    if not classes <= set(allowed_raise) | {'<reraise>'}:
                        sink('R8', r, f'raises {"/".join(sorted(classes))}; the parse path may only raise ParsingException')
        out = None
        for v in rets:
            out = join(out, v)
        return out or vk('None')

    def assign(self, t, v, st, prod, pvar, sink):
        if isinstance(t, ast.Name):
            st[t.id] = v
            nr = st.get('#narrow')
            if nr and t.id in nr:
                nr = dict(nr)
                nr.pop(t.id, None)
                st['#narrow'] = nr
        elif isinstance(t, (ast.Tuple, ast.List)):
            for i, x in enumerate(t.elts):
                self.assign(x, (v.elem if v.elem is not None else vk(UNK)), st, prod, pvar, sink)
        elif isinstance(t, ast.Attribute):
            base = self.ev(t.value, st, prod, pvar, sink)
            if sink and base.known:
                bad = [k for k in base.kinds if k in BUILTIN_ATTRS]
                if bad:
                    sink('R7', t, f'`{norm(t)} = ...` stores an attribute on a value that can be {sorted(bad)} (kinds {base!r})')
        elif isinstance(t, ast.Subscript):
            base = self.ev(t.value, st, prod, pvar, sink)
            self.ev(t.slice, st, prod, pvar, sink) if not isinstance(t.slice, ast.Slice) else None
            if isinstance(t.value, ast.Name) and t.value.id in st and 'dict' in base.kinds:
                st[t.value.id] = V(base.kinds, join(base.elem, v), None, base.nonempty)
            if sink and base.known and 'None' in base.kinds:
                sink('R7', t, f'`{norm(t)} = ...` stores into a value that can be None')

    def effect(self, e, st, prod, pvar, sink):
        v = self.ev(e, st, prod, pvar, sink)
        if isinstance(e, ast.Call) and isinstance(e.func, ast.Attribute) and isinstance(e.func.value, ast.Name) and e.func.value.id in st:
            nm = e.func.value.id
            cur = st[nm]
            if e.func.attr == 'append' and e.args and ('list' in cur.kinds or not cur.kinds):
                st[nm] = V(cur.kinds or ['list'], join(cur.elem, self.ev(e.args[0], st, prod, pvar, None)), cur.keys, True)
            elif e.func.attr == 'extend' and e.args and 'list' in cur.kinds:
                a = self.ev(e.args[0], st, prod, pvar, None)
                st[nm] = V(cur.kinds, join(cur.elem, a.elem), cur.keys, cur.nonempty)
            elif e.func.attr == 'update' and e.args and 'dict' in cur.kinds:
                a = self.ev(e.args[0], st, prod, pvar, None)
                st[nm] = V(cur.kinds, join(cur.elem, a.elem), None, cur.nonempty)

    # ---- fixpoint over the grammar ---------------------------------------------------------------------------------------
    def solve(self, max_passes=12):
        prods = [p for p in self.g.productions[1:] if p.func is not None]
        for i in range(max_passes):
            changed = False
            for p in prods:
                if p.from_star and p.rhs != prods[0].rhs and getattr(self, '_star_done', None) == p.func:
                    v = self._star_val
                else:
                    v = self.run(p)
                    if p.from_star:
                        self._star_done, self._star_val = p.func, v
                old = self.nt.get(p.name)
                new = join(old, v)
                if new != old:
                    self.nt[p.name] = new
                    changed = True
            self.passes = i + 1
            self._star_done = None
            if not changed:
                break
        else:
            raise AnalysisError('semantic-value kind analysis did not converge')
        # narrowing: the ascending iteration keeps what early passes guessed while other values were still unknown (e.g. `x[0]` of a list whose element
        # kind was not known yet).  Recomputing every value from the converged environment gives a smaller post-fixpoint; repeat while it shrinks.
        for _ in range(6):
            new_nt = {}
            for p in prods:
                if p.from_star and p.rhs != prods[0].rhs and getattr(self, '_star_done', None) == p.func:
                    v = self._star_val
                else:
                    v = self.run(p)
                    if p.from_star:
                        self._star_done, self._star_val = p.func, v
                new_nt[p.name] = join(new_nt.get(p.name), v)
            self._star_done = None
            for k, v in self.nt.items():
                new_nt.setdefault(k, v)
            if new_nt == self.nt:
                break
            self.nt = new_nt


_ak_cache = {}


def kinds_for(src, dialect):
    """solved ActionKinds of one dialect, memoised per SourceSet"""
    from .grammar import load_dialect
    from .pymodel import model_for
    from .source import memo_on

    def build():
        ak = ActionKinds(load_dialect(src, dialect), model_for(src))
        ak.solve()
        return ak
    return memo_on(src, ('kinds', dialect), build)
