"""Static model of ErrorHandling.make_suggestion (mindsdb_sql/__init__.py): which token types become which
display strings.  The special cases and the string filter are *read from the source* and partially
evaluated; an unrecognised shape is an AnalysisError (fail closed)."""
import ast

from .source import AnalysisError, norm, dotted, const_str
from . import peval

FILE = 'mindsdb_sql/__init__.py'


class SuggestModel:
    def __init__(self, src):
        self._memo = {}
        tree = src.tree(FILE)
        cls = None
        for n in tree.body:
            if isinstance(n, ast.ClassDef) and n.name == 'ErrorHandling':
                cls = n
        if cls is None:
            raise AnalysisError('ErrorHandling not found in mindsdb_sql/__init__.py')
        self.cls = cls
        self.fn = None
        for m in cls.body:
            if isinstance(m, ast.FunctionDef) and m.name == 'make_suggestion':
                self.fn = m
        if self.fn is None:
            raise AnalysisError('ErrorHandling.make_suggestion not found')
        self.src = src
        self.semantic = False
        try:
            self._structural(src)
        except AnalysisError as e:
            # the function is not written as one loop that fills one dictionary (helpers, comprehensions, early returns ...): the same facts are then read off
            # the behaviour of the whole function, interpreted at the end of input (where it lists every candidate it would show)
            self.semantic = True
            self.structural_failure = str(e)
            self.loop, self.tokvar = None, 'token_name'
            self._semantic_thresholds()

    def _structural(self, src):
        # the loop `for token_name in self.expected_tokens:`
        loop = None
        for n in ast.walk(self.fn):
            # ... over the expected tokens as they are, or over any rearrangement of them (sorted(...), list(...), reversed(...))
            if isinstance(n, ast.For) and isinstance(n.target, ast.Name) and any(
                    isinstance(x, ast.Attribute) and norm(x) == 'self.expected_tokens' for x in ast.walk(n.iter)) and loop is None:
                loop = n
        if loop is None:
            raise AnalysisError('make_suggestion: loop over self.expected_tokens not found')
        self.loop = loop
        self.tokvar = loop.target.id
        # the first part of the function - everything up to and including that loop - is interpreted (sa/interp.py): it computes the
        # display -> token dictionary from the expected token types and the lexer's attributes
        top = loop
        while getattr(top, '_parent', None) is not None and top._parent is not self.fn:
            top = top._parent
        if top not in self.fn.body:
            raise AnalysisError('make_suggestion: the loop over self.expected_tokens is not a statement of the function body')
        idx = self.fn.body.index(top)
        stored = {n.value.id for n in ast.walk(loop) if isinstance(n, ast.Subscript) and isinstance(n.ctx, ast.Store) and isinstance(n.value, ast.Name)}
        stored |= {t.id for n in ast.walk(loop) if isinstance(n, ast.Assign) and isinstance(n.value, ast.Dict) for t in n.targets if isinstance(t, ast.Name)}
        before = {t.id for st in self.fn.body[:idx] for n in ast.walk(st) if isinstance(n, ast.Assign) for t in n.targets if isinstance(t, ast.Name)}
        cands = sorted(stored & before)
        if len(cands) != 1:
            raise AnalysisError(f'make_suggestion: the dictionary filled by the loop over the expected tokens is not identifiable ({cands})')
        self.dictvar = cands[0]
        ret = ast.Return(value=ast.Name(id=self.dictvar, ctx=ast.Load()))
        self.head = ast.FunctionDef(name='make_suggestion_head', args=self.fn.args, body=list(self.fn.body[:idx + 1]) + [ret], decorator_list=[],
                                    lineno=self.fn.lineno, col_offset=0)
        ast.fix_missing_locations(self.head)
        self.src = src
        # thresholds: `len(expected) == 1` and `1 < len(expected) < 20`
        self.hi = None
        for n in ast.walk(self.fn):
            if isinstance(n, ast.Compare) and len(n.ops) == 2 and norm(n.comparators[0]) == 'len(expected)' \
                    and isinstance(n.comparators[1], ast.Constant) and isinstance(n.left, ast.Constant):
                self.lo, self.hi = n.left.value, n.comparators[1].value
        if self.hi is None:
            raise AnalysisError('make_suggestion: the `1 < len(expected) < N` test was not found')

    PROBE = ('ZZZPROBE', 'zzzprobe')
    PROBE2 = ('ZZZPROBF', 'zzzprobf')

    def _whole(self, token_types, attrs):
        """make_suggestion interpreted as a whole at the end of input (no offending token): the list it would show"""
        from .interp import Interp, Obj, Raised, Env
        it = Interp.for_file(self.src, FILE, {}, {'Token': lambda it_: Obj('Token')})
        lexer = Obj('Lexer', **{k: v for k, v in attrs.items() if v is not None})
        self_ = Obj('ErrorHandling', expected_tokens=list(token_types), lexer=lexer, tokens=[], bad_token=None,
                    parser=Obj('Parser', state=0, statestack=[0], symstack=[], error_info=None))
        try:
            r = it.call_function(self.fn, [self_], {}, Env())
        except Raised as r_:
            raise AnalysisError(f'make_suggestion raises {r_.exc_name} at the end of input for the expected tokens {list(token_types)[:4]}')
        if not isinstance(r, (list, tuple)):
            raise AnalysisError('make_suggestion does not return a list at the end of input')
        return list(r)

    def _semantic_thresholds(self):
        names = [f'ZZZK{chr(65 + i // 26)}{chr(65 + i % 26)}' for i in range(40)]
        lens = {}
        for k in (1, 2, 3, 5, 10, 15, 18, 19, 20, 21, 25, 30, 40):
            lens[k] = len(self._whole(names[:k], {n: n.lower() for n in names[:k]}))
        full = [k for k in sorted(lens) if k >= 2 and lens[k] == k]
        empty = [k for k in sorted(lens) if k >= 2 and lens[k] == 0]
        if lens.get(1) != 1 or not full or not empty or max(full) >= min(empty):
            raise AnalysisError(f'make_suggestion: the listing thresholds are not of the form 1 < n < N ({lens}); structural reading failed with: {self.structural_failure}')
        # exact boundary between the largest full and the smallest empty count
        lo_k, hi_k = max(full), min(empty)
        while hi_k - lo_k > 1:
            mid = (lo_k + hi_k) // 2
            n_ = len(self._whole(names[:mid], {n: n.lower() for n in names[:mid]}))
            if n_ == mid:
                lo_k = mid
            else:
                hi_k = mid
        self.lo, self.hi = 1, hi_k

    def _semantic_classify(self, token_name, pattern_attr):
        p1, p2 = self.PROBE, self.PROBE2
        attrs = {token_name: pattern_attr, p1[0]: p1[1], p2[0]: p2[1]}
        r = self._whole([token_name, p1[0], p2[0]], attrs)
        if p1[1] in r and p2[1] in r:
            extra = [x for x in r if x not in (p1[1], p2[1])]
            if len(extra) > 1:
                raise AnalysisError(f'make_suggestion: one expected token {token_name} gives several display strings {extra}')
            return ('add', extra[0]) if extra else ('skip', None)
        return ('break', r[0]) if r else ('skip', None)

    def _head(self, token_types, attrs):
        """the display dictionary the first part of make_suggestion builds for these expected token types (in this order)"""
        from .interp import Interp, Obj, Raised, Env
        it = Interp.for_file(self.src, FILE, {}, {})
        lexer = Obj('Lexer', **{k: v for k, v in attrs.items() if v is not None})
        self_ = Obj('ErrorHandling', expected_tokens=list(token_types), lexer=lexer, tokens=[], bad_token=None, parser=Obj('Parser'))
        try:
            d = it.call_function(self.head, [self_], {}, Env())
        except Raised as r:
            raise AnalysisError(f'make_suggestion raises {r.exc_name} while collecting the expected tokens {list(token_types)[:4]}')
        if not isinstance(d, dict):
            raise AnalysisError('make_suggestion: the collected expected tokens are not a dictionary')
        return d

    def _with_probe(self, token_types, attrs):
        """-> (the loop was left early?, {display: token})"""
        key = 'probe-ok'
        if key not in self._memo:
            self._memo[key] = self._head([self.PROBE[0]], {self.PROBE[0]: self.PROBE[1]}) == {self.PROBE[1]: self.PROBE[0]}
        if not self._memo[key]:
            raise AnalysisError('make_suggestion: a plain keyword token is not shown by its own text (the probe of the model does not work)')
        a = dict(attrs)
        a[self.PROBE[0]] = self.PROBE[1]
        d = dict(self._head(list(token_types) + [self.PROBE[0]], a))
        left_early = self.PROBE[1] not in d
        d.pop(self.PROBE[1], None)
        return left_early, d

    def classify(self, token_name, pattern):
        key = (token_name, pattern if isinstance(pattern, (str, type(None))) else '<callable>')
        if key not in self._memo:
            self._memo[key] = self._classify(token_name, pattern)
        return self._memo[key]

    def _classify(self, token_name, pattern):
        """-> ('break', display) | ('add', display) | ('skip', None): what one iteration of the loop does for a token
        type whose lexer attribute is `pattern` (a str for string rules, None/callable marker otherwise)."""
        from .interp import Obj
        if self.semantic:
            return self._semantic_classify(token_name, pattern if isinstance(pattern, (str, type(None))) else Obj('function'))
        left_early, d = self._with_probe([token_name], {token_name: pattern if isinstance(pattern, (str, type(None))) else Obj('function')})
        if len(d) > 1:
            raise AnalysisError(f'make_suggestion: one expected token {token_name} gives several display strings {sorted(d)}')
        if left_early:
            return ('break', next(iter(d))) if d else ('skip', None)
        return ('add', next(iter(d))) if d else ('skip', None)

    def display_set(self, lexer, token_types):
        """The `expected` dict of make_suggestion for a list of expected token types:
        returns (mode, {display: token}) with mode 'identifier-only' when the ID special case breaks the loop."""
        from .interp import Obj
        attrs = {}
        for t in token_types:
            r = lexer.rule(t)
            if r is not None and r.func is None:
                attrs[t] = r.pattern
            elif r is not None:
                attrs[t] = Obj('function')
        if self.semantic:
            # one token at a time, in the order the function itself takes them (it sorts them): a token that replaces the whole candidate set ends the collection
            d = {}
            for t in sorted(token_types):
                kind, disp = self.classify(t, attrs.get(t) if isinstance(attrs.get(t), (str, type(None))) else _Callable())
                if kind == 'break':
                    return 'identifier-only', {disp: t}
                if kind == 'add':
                    d[disp] = t
            return 'normal', d
        left_early, d = self._with_probe(list(token_types), attrs)
        return ('identifier-only' if left_early else 'normal'), d


class _Callable:
    """stands for a lexer attribute that is a function (token defined with @_): not a str"""
    pass


_cache = {}


def suggest_for(src):
    from .source import memo_on
    return memo_on(src, 'suggest', lambda: SuggestModel(src))
