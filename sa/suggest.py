"""Static model of ErrorHandling.make_suggestion (mindsdb_sql/__init__.py): which token types become which
display strings.  The special cases and the string filter are *read from the source* and partially
evaluated; an unrecognised shape is an AnalysisError (fail closed)."""
import ast

from .source import AnalysisError, norm, dotted, const_str
from . import peval

FILE = 'mindsdb_sql/__init__.py'


class SuggestModel:
    def __init__(self, src):
        self._memo = {}
        tree = src.tree(FILE)
        cls = None
        for n in tree.body:
            if isinstance(n, ast.ClassDef) and n.name == 'ErrorHandling':
                cls = n
        if cls is None:
            raise AnalysisError('ErrorHandling not found in mindsdb_sql/__init__.py')
        self.cls = cls
        self.fn = None
        for m in cls.body:
            if isinstance(m, ast.FunctionDef) and m.name == 'make_suggestion':
                self.fn = m
        if self.fn is None:
            raise AnalysisError('ErrorHandling.make_suggestion not found')
        # the loop `for token_name in self.expected_tokens:`
        loop = None
        for n in ast.walk(self.fn):
            if isinstance(n, ast.For) and norm(n.iter) == 'self.expected_tokens' and isinstance(n.target, ast.Name):
                loop = n
        if loop is None:
            raise AnalysisError('make_suggestion: loop over self.expected_tokens not found')
        self.loop = loop
        self.tokvar = loop.target.id
        # value = getattr(self.lexer, token_name, None)
        self.valvar = None
        for st in loop.body:
            if isinstance(st, ast.Assign) and isinstance(st.value, ast.Call) and dotted(st.value.func) == 'getattr' \
                    and norm(st.value.args[0]) == 'self.lexer' and norm(st.value.args[1]) == self.tokvar:
                self.valvar = st.targets[0].id
        if self.valvar is None:
            raise AnalysisError('make_suggestion: `value = getattr(self.lexer, token_name, None)` not found')
        chain = [st for st in loop.body if isinstance(st, ast.If)]
        if len(chain) != 1:
            raise AnalysisError('make_suggestion: expected one if/elif chain in the loop over expected tokens')
        self.chain = chain[0]
        # thresholds: `len(expected) == 1` and `1 < len(expected) < 20`
        self.hi = None
        for n in ast.walk(self.fn):
            if isinstance(n, ast.Compare) and len(n.ops) == 2 and norm(n.comparators[0]) == 'len(expected)' \
                    and isinstance(n.comparators[1], ast.Constant) and isinstance(n.left, ast.Constant):
                self.lo, self.hi = n.left.value, n.comparators[1].value
        if self.hi is None:
            raise AnalysisError('make_suggestion: the `1 < len(expected) < N` test was not found')

    def classify(self, token_name, pattern):
        key = (token_name, pattern if isinstance(pattern, (str, type(None))) else '<callable>')
        if key not in self._memo:
            self._memo[key] = self._classify(token_name, pattern)
        return self._memo[key]

    def _classify(self, token_name, pattern):
        """-> ('break', display) | ('add', display) | ('skip', None): what one iteration of the loop does for a token
        type whose lexer attribute is `pattern` (a str for string rules, None/callable marker otherwise)."""
        env = {self.tokvar: token_name, self.valvar: pattern,
               'isinstance': lambda v, t: (t == 'str' and isinstance(v, str)), 'str': 'str'}
        node = self.chain
        while True:
            try:
                ok = peval.ev(node.test, env)
            except AnalysisError as e:
                raise AnalysisError(f'make_suggestion: branch test `{norm(node.test)}` is not modelled ({e})')
            if ok:
                return self._run(node.body, env)
            if len(node.orelse) == 1 and isinstance(node.orelse[0], ast.If):
                node = node.orelse[0]
                continue
            if node.orelse:
                return self._run(node.orelse, env)
            return ('skip', None)

    def _run(self, body, env):
        env = dict(env)
        for st in body:
            if isinstance(st, ast.Expr) and isinstance(st.value, ast.Constant):
                continue
            if isinstance(st, ast.Assign) and len(st.targets) == 1:
                t = st.targets[0]
                if isinstance(t, ast.Name):
                    if t.id == 'expected':      # expected = {'[identifier]': token_name}
                        if isinstance(st.value, ast.Dict) and len(st.value.keys) == 1:
                            k = peval.ev(st.value.keys[0], env)
                            env['_set'] = k
                            continue
                        raise AnalysisError(f'make_suggestion: unmodelled `{norm(st)}`')
                    env[t.id] = self._ev_str(st.value, env)
                    continue
                if isinstance(t, ast.Subscript) and norm(t.value) == 'expected':
                    return ('add', peval.ev(t.slice, env))
            if isinstance(st, ast.Break):
                if '_set' in env:
                    return ('break', env['_set'])
                return ('skip', None)
            if isinstance(st, ast.If):
                if peval.ev(st.test, env):
                    r = self._run(st.body, env)
                else:
                    r = self._run(st.orelse, env)
                if r[0] != 'skip':
                    return r
                continue
            raise AnalysisError(f'make_suggestion: unmodelled statement `{norm(st)}` in the token loop')
        if '_set' in env:
            return ('set', env['_set'])
        return ('skip', None)

    def _ev_str(self, e, env):
        if isinstance(e, ast.Call) and isinstance(e.func, ast.Attribute) and e.func.attr == 'replace' and len(e.args) == 2:
            base = self._ev_str(e.func.value, env)
            a, b = peval.ev(e.args[0], env), peval.ev(e.args[1], env)
            return base.replace(a, b)
        return peval.ev(e, env)

    def display_set(self, lexer, token_types):
        """The `expected` dict of make_suggestion for a list of expected token types (order-insensitive part):
        returns (mode, {display: token}) with mode 'identifier-only' when the ID special case breaks the loop."""
        expected = {}
        for t in token_types:
            r = lexer.rule(t)
            pat = None
            if r is not None and r.func is None:
                pat = r.pattern
            elif r is not None:
                pat = _Callable()
            kind, disp = self.classify(t, pat)
            if kind == 'break':
                return 'identifier-only', {disp: t}
            if kind in ('add', 'set'):
                expected[disp] = t
        return 'normal', expected


class _Callable:
    """stands for a lexer attribute that is a function (token defined with @_): not a str"""
    pass


_cache = {}


def suggest_for(src):
    k = id(src)
    if k not in _cache or _cache[k][0] is not src:
        _cache[k] = (src, SuggestModel(src))
    return _cache[k][1]
