"""Check context, verdict protocol, evidence and known-findings handling."""
import json
import os
import time

from .source import AnalysisError, SourceSet, norm

VERIF = os.path.dirname(os.path.dirname(os.path.abspath(__file__)))


class Finding:
    def __init__(self, rule, construct, msg, file=None, line=None, witness=None):
        self.rule = rule
        self.construct = construct
        self.msg = msg
        self.file = file
        self.line = line
        self.witness = witness

    @property
    def key(self):
        return f'{self.rule}:{self.construct}'

    def as_dict(self):
        d = {'rule': self.rule, 'construct': self.construct, 'what_fails': self.msg}
        if self.file:
            d['file'] = self.file
        if self.line:
            d['line'] = self.line
        if self.witness is not None:
            d['witness'] = self.witness
        return d

    def where(self):
        if self.file:
            return f'{self.file}:{self.line}' if self.line else self.file
        return '-'


class Ctx:
    """What a rule module gets: sources, tier, and sinks for obligations/findings/statistics."""

    def __init__(self, prop, src, tier='quick', only=None):
        self.prop = prop
        self.src = src
        self.tier = tier
        self.only = only            # restrict to one finding key (replay)
        self.findings = []
        self.counts = {}            # measured instance counts, by name
        self.floors = {}            # name -> minimum confirmed by hand
        self.samples = []
        self.notes = []             # free-text lines for evidence (listed, not violations)
        self.obligations = 0        # rule instances evaluated
        self.discharged = 0
        self.constructs = set()     # distinct constructs actually constrained by a rule
        self.rules = {}             # rule id -> [evaluated, failed]
        self.unresolved = []
        self.assumptions = []
        self.explanation = ''
        self.not_decided = []
        self.extra = {}

    # -- obligations ---------------------------------------------------------------------
    def ob(self, rule, construct, ok, msg='', node=None, file=None, line=None, witness=None):
        """One rule instance: `ok` True = discharged.  False = finding."""
        self.obligations += 1
        r = self.rules.setdefault(rule, [0, 0])
        r[0] += 1
        self.constructs.add(f'{rule}:{construct}')
        if ok:
            self.discharged += 1
            return True
        r[1] += 1
        if node is not None:
            line = line or getattr(node, 'lineno', None)
        self.findings.append(Finding(rule, construct, msg, file, line, witness))
        return False

    def finding(self, rule, construct, msg, node=None, file=None, line=None, witness=None):
        return self.ob(rule, construct, False, msg, node, file, line, witness)

    def count(self, name, n=1):
        self.counts[name] = self.counts.get(name, 0) + n

    def setcount(self, name, n):
        self.counts[name] = n

    def floor(self, name, minimum):
        self.floors[name] = minimum

    def sample(self, obj, limit=14):
        if len(self.samples) < limit:
            self.samples.append(obj)

    def note(self, text):
        self.notes.append(text)

    def need(self, cond, what):
        """An anchor the analysis relies on; its absence is an analysis error, not a pass."""
        if not cond:
            raise AnalysisError(what)

    def check_floors(self):
        for name, minimum in self.floors.items():
            got = self.counts.get(name, 0)
            if got < minimum:
                raise AnalysisError(
                    f'instance count {name}={got} below the floor {minimum} confirmed by reading the tree '
                    f'(a rule that matches fewer sites than it used to is not trusted)')


def load_known():
    p = os.path.join(VERIF, 'known_findings.json')
    if not os.path.isfile(p):
        return []
    with open(p) as f:
        return json.load(f)['findings']


def run_property(prop, module, repo='/repo', tier='quick', only=None, overlay=None,
                 write_evidence=True, quiet=False, meta=None):
    """Run one property's rule module; print verdict lines; return exit code."""
    t0 = time.time()
    out = []
    src = SourceSet(repo, overlay)
    ctx = Ctx(prop, src, tier, only)
    floor_error = None
    try:
        module.run(ctx)
        try:
            ctx.check_floors()
        except AnalysisError as e:
            floor_error = e         # only fatal when no violation was found (a violation is definitive)
    except AnalysisError as e:
        out.append(f'ANALYSIS-ERROR property={prop} {e}')
        if not quiet:
            print('\n'.join(out))
        return 2, ctx, out
    known = {}
    for k in load_known():
        if k['property'] == prop:
            known[f"{k['rule']}:{k['construct']}"] = k
    viol = []
    hit = []
    seen = set()
    for f in ctx.findings:
        if f.key in seen:
            continue
        seen.add(f.key)
        if only and f.key != only:
            continue
        k = known.get(f.key)
        if k is not None and k.get('status') == 'known':
            hit.append(f)
        else:
            viol.append(f)
    for f in hit:
        out.append(f'KNOWN-FINDING: property={prop} {f.key} [{f.where()}] {f.msg}')
    stale = [k for key, k in known.items() if k.get('status') == 'known' and key not in seen]
    for k in stale:
        out.append(f"NOTE property={prop} listed known finding no longer fires: {k['rule']}:{k['construct']}")
    rc = 0
    if not viol and floor_error is not None:
        out.append(f'ANALYSIS-ERROR property={prop} {floor_error}')
        if not quiet:
            print('\n'.join(out))
        return 2, ctx, out
    if viol:
        rc = 1
        rdir = os.path.join(VERIF, 'evidence', 'replay')
        if write_evidence:
            os.makedirs(rdir, exist_ok=True)
        for i, f in enumerate(viol):
            rp = os.path.join(rdir, f'{prop}-{i}.json')
            if write_evidence:
                with open(rp, 'w') as fh:
                    json.dump({'property': prop, 'key': f.key, **f.as_dict()}, fh, indent=1)
            out.append(f'VIOLATION property={prop} replay={rp}')
            out.append(f'  rule={f.rule} construct={f.construct} at {f.where()}')
            out.append(f'  {f.msg}')
            if f.witness is not None:
                out.append(f'  witness: {f.witness}')
    wall = time.time() - t0
    if rc == 0:
        out.append(f'OK property={prop} tier={tier} obligations={ctx.obligations} discharged={ctx.discharged} '
                   f'known_findings={len(hit)} rules={len(ctx.rules)} wall={wall:.2f}s')
    if write_evidence and not only:
        write_evidence_file(ctx, tier, wall, viol, hit, meta or {})
    if not quiet:
        print('\n'.join(out))
    return rc, ctx, out


def write_evidence_file(ctx, tier, wall, viol, hit, meta):
    level = meta.get('level', 'other')
    cov = {
        'evaluations': ctx.obligations,
        'distinct_nontrivial': len(ctx.constructs),
        'rule': 'one evaluation = one rule instance (rule id x construct: production/state/look-ahead, class.field, '
                'call site, function path) evaluated on the current source of /repo; distinct = distinct '
                'rule:construct keys; non-trivial = the construct exists in the tree and was constrained by the rule',
        'samples': ctx.samples or [f.as_dict() for f in (viol + hit)[:5]] or ['(no instances)'],
        'obligations': ctx.obligations,
        'discharged': ctx.discharged,
        'explanation': ctx.explanation,
        'exhaustive': True,
        'rules': {k: {'evaluated': v[0], 'failed': v[1]} for k, v in sorted(ctx.rules.items())},
        'counts': ctx.counts,
        'floors': ctx.floors,
        'not_decided': ctx.not_decided,
        'files_consulted': sorted(ctx.src.consulted),
        'source_digest': ctx.src.digest(),
        'known_findings_hit': [f.key for f in hit],
        'violations': [f.as_dict() for f in viol],
        'listed_not_violations': ctx.notes[:60],
        'unresolved': ctx.unresolved[:40],
    }
    if level == 'proof':
        cov['checker_cmd'] = meta.get('checker_cmd', f'./check {ctx.prop} --tier {tier}')
        cov['trusted_base'] = meta.get('trusted_base', [])
    cov.update(ctx.extra)
    ev = {
        'property_id': ctx.prop,
        'tier': tier,
        'seed': int(os.environ.get('VERIF_SEED', '0') or 0),
        'level': level,
        'coverage': cov,
        'assumptions': ctx.assumptions,
        'wall_s': round(wall, 3),
        'violations': len(viol),
    }
    d = os.path.join(VERIF, 'evidence')
    os.makedirs(d, exist_ok=True)
    with open(os.path.join(d, f'{ctx.prop}.json'), 'w') as f:
        json.dump(ev, f, indent=1, default=str)
