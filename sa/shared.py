"""Engine B (part): inventory of state that outlives a call and of every write to it.

A result can depend on history or on another thread only through state that outlives the call:
module globals, class attributes, memoisation caches, function attributes, default-argument objects.
"""
import ast

from .source import norm, dotted, walk_no_nested, enclosing_class

MUTATORS = {'append', 'extend', 'insert', 'pop', 'remove', 'update', 'add', 'discard', 'clear', 'sort', 'reverse',
            'setdefault', 'popitem', 'appendleft', '__setitem__', '__delitem__'}
CACHE_DECORATORS = {'lru_cache', 'cache', 'cached_property', 'functools.lru_cache', 'functools.cache',
                    'functools.cached_property', 'memoize', 'memoized'}


def _mutable_value(v):
    if isinstance(v, (ast.List, ast.Dict, ast.Set, ast.ListComp, ast.DictComp, ast.SetComp)):
        return True
    if isinstance(v, ast.Call):
        d = (dotted(v.func) or '').split('.')[-1]
        if d in ('list', 'dict', 'set', 'defaultdict', 'OrderedDict', 'deque', 'Counter', 'copy'):
            return True
        if isinstance(v.func, ast.Attribute) and v.func.attr in ('copy', 'union', 'difference', 'intersection'):
            return True
    return False


class Site:
    def __init__(self, kind, file, fn, node, target, detail=''):
        self.kind, self.file, self.fn, self.node, self.target, self.detail = kind, file, fn, node, target, detail

    @property
    def key(self):
        return f'{self.file.split("/")[-1]}:{self.fn}:{self.target}'


def module_mutables(tree):
    """module-level name -> assignment node, for names bound to mutable displays / containers"""
    out = {}
    for st in tree.body:
        if isinstance(st, ast.Assign) and len(st.targets) == 1 and isinstance(st.targets[0], ast.Name) and _mutable_value(st.value):
            out[st.targets[0].id] = st
    return out


def class_mutables(cls):
    out = {}
    for st in cls.body:
        if isinstance(st, ast.Assign) and len(st.targets) == 1 and isinstance(st.targets[0], ast.Name) and _mutable_value(st.value):
            out[st.targets[0].id] = st
    return out


def _fn_name(fn):
    c = enclosing_class(fn)
    return f'{c.name}.{fn.name}' if c is not None else fn.name


def is_classmethod(fn):
    return any((dotted(d) or '') in ('classmethod',) for d in fn.decorator_list)


def is_metaclass(cls):
    return any((dotted(b) or '') == 'type' for b in cls.bases)


def scan_file(src, file):
    """All writes to state that outlives a call, in one file."""
    tree = src.tree(file)
    sites = []
    cls_cache = {}
    mm = module_mutables(tree)
    repo_classes = src.__dict__.get('_repo_class_names')
    if repo_classes is None:
        repo_classes = src.__dict__['_repo_class_names'] = {c.name for f_ in src.py_files('mindsdb_sql') for c in ast.walk(src.tree(f_)) if isinstance(c, ast.ClassDef)}
    module_names = {t.id for st in tree.body if isinstance(st, ast.Assign) for t in st.targets if isinstance(t, ast.Name)}
    for fn in [n for n in ast.walk(tree) if isinstance(n, (ast.FunctionDef, ast.AsyncFunctionDef))]:
        fname = _fn_name(fn)
        cls = enclosing_class(fn)
        # cache decorators
        for d in fn.decorator_list:
            dn = dotted(d.func) if isinstance(d, ast.Call) else dotted(d)
            if dn in CACHE_DECORATORS:
                sites.append(Site('cache', file, fname, d, f'@{dn}'))
        declared_global = set()
        for n in walk_no_nested(fn):
            if isinstance(n, ast.Global):
                declared_global |= set(n.names)
        # local aliases of module-level mutables
        alias = {}
        for n in walk_no_nested(fn):
            if isinstance(n, ast.Assign) and len(n.targets) == 1 and isinstance(n.targets[0], ast.Name) \
                    and isinstance(n.value, ast.Name) and n.value.id in mm:
                alias[n.targets[0].id] = n.value.id
        local_names = {a.arg for a in fn.args.args + fn.args.kwonlyargs} | {
            t.id for n in walk_no_nested(fn) if isinstance(n, (ast.Assign, ast.For, ast.AugAssign, ast.With))
            for t in ast.walk(n.targets[0] if isinstance(n, ast.Assign) else (n.target if hasattr(n, 'target') else n))
            if isinstance(t, ast.Name) and isinstance(t.ctx, ast.Store)}
        cm, rebound_on_self = {}, set()
        if cls is not None:
            if id(cls) not in cls_cache:
                rb = set()
                for m in cls.body:
                    if isinstance(m, ast.FunctionDef):
                        for x in ast.walk(m):
                            if isinstance(x, ast.Attribute) and isinstance(x.ctx, ast.Store) and isinstance(x.value, ast.Name) \
                                    and x.value.id == 'self':
                                rb.add(x.attr)
                cls_cache[id(cls)] = (class_mutables(cls), rb)
            cm, rebound_on_self = cls_cache[id(cls)]

        def root_of(e):
            """('global', name) / ('classattr', name) / None for the object an expression denotes"""
            if isinstance(e, ast.Name):
                if e.id in alias:
                    return ('global', alias[e.id])
                if e.id in mm and (e.id not in local_names or e.id in declared_global):
                    return ('global', e.id)
                return None
            if isinstance(e, ast.Attribute) and isinstance(e.value, ast.Name):
                base = e.value.id
                if base == 'self' and e.attr in cm and e.attr not in rebound_on_self:
                    return ('classattr', f'{cls.name}.{e.attr}')
                if base == 'cls' or (cls is not None and base == cls.name):
                    return ('classattr', f'{cls.name if cls else base}.{e.attr}')
                return None
            if isinstance(e, ast.Attribute) and dotted(e.value) is not None:
                # an attribute of ANOTHER class of the repository, named directly or through a module (`ast.Identifier.quote = ''`)
                chain = dotted(e.value).split('.')
                if chain[-1] in repo_classes and chain[0] not in local_names and chain[0] not in ('self', 'cls'):
                    return ('classattr', f'{chain[-1]}.{e.attr}')
            if isinstance(e, ast.Attribute) and norm(e.value) in ('self.__class__', 'type(self)'):
                return ('classattr', f'{cls.name if cls else "?"}.{e.attr}')
            if isinstance(e, ast.Subscript):
                return root_of(e.value)
            return None
        for n in walk_no_nested(fn):
            tgts = []
            if isinstance(n, ast.Assign):
                tgts = n.targets
            elif isinstance(n, (ast.AugAssign, ast.AnnAssign)):
                tgts = [n.target]
            elif isinstance(n, ast.Delete):
                tgts = n.targets
            for t in tgts:
                for e in (t.elts if isinstance(t, (ast.Tuple, ast.List)) else [t]):
                    if isinstance(e, ast.Name) and e.id in declared_global:
                        sites.append(Site('global-rebind', file, fname, n, e.id))
                    elif isinstance(e, ast.Subscript):
                        r = root_of(e.value)
                        if r:
                            sites.append(Site(r[0] + '-item-store', file, fname, n, r[1]))
                    elif isinstance(e, ast.Attribute):
                        r = root_of(e)
                        if r and r[0] == 'classattr' and not (isinstance(e.value, ast.Name) and e.value.id == 'self'):
                            sites.append(Site('classattr-rebind', file, fname, n, r[1]))
                        elif isinstance(n, ast.AugAssign) and r and r[0] == 'classattr':
                            sites.append(Site('classattr-augassign', file, fname, n, r[1]))
                    if isinstance(n, ast.AugAssign) and isinstance(e, ast.Name):
                        r = root_of(e)
                        if r:
                            sites.append(Site(r[0] + '-augassign', file, fname, n, r[1]))
            if isinstance(n, ast.Call) and isinstance(n.func, ast.Attribute) and n.func.attr in MUTATORS:
                r = root_of(n.func.value)
                if r:
                    sites.append(Site(r[0] + '-mutation', file, fname, n, r[1], n.func.attr))
            if isinstance(n, ast.Call) and dotted(n.func) == 'setattr' and n.args:
                a0 = n.args[0]
                if isinstance(a0, ast.Name) and (a0.id == 'cls' or (cls is not None and a0.id == cls.name)):
                    sites.append(Site('classattr-rebind', file, fname, n, f'{cls.name if cls else a0.id}.<setattr>'))
        # mutable default arguments that are mutated
        a = fn.args
        for p, d in list(zip((a.posonlyargs + a.args)[::-1], a.defaults[::-1])) + list(zip(a.kwonlyargs, a.kw_defaults)):
            if d is not None and _mutable_value(d):
                for n in walk_no_nested(fn):
                    if isinstance(n, ast.Call) and isinstance(n.func, ast.Attribute) and n.func.attr in MUTATORS \
                            and isinstance(n.func.value, ast.Name) and n.func.value.id == p.arg:
                        sites.append(Site('default-arg-mutation', file, fname, n, p.arg))
    return sites


def import_time_only(src, files):
    """Functions that only run while a class is being defined (import time): metaclass methods, classmethods that no
    instance-level code calls, and module-level helpers reachable only from those.  Computed as a fixpoint on a
    name-based call graph (over-approximating callers: any call of the same attribute/bare name counts)."""
    funcs = {}          # key -> (file, cls or None, FunctionDef)
    for f in files:
        tree = src.tree(f)
        for fn in [n for n in ast.walk(tree) if isinstance(n, ast.FunctionDef)]:
            cls = enclosing_class(fn)
            funcs[(f, f'{cls.name}.{fn.name}' if cls is not None else fn.name)] = (f, cls, fn)
    ito = set()
    for key, (f, cls, fn) in funcs.items():
        if cls is not None and is_metaclass(cls) and not any(isinstance(m, ast.FunctionDef) and m.name == '__call__' for m in cls.body):
            ito.add(key)
        elif fn.name == '__init_subclass__':
            ito.add(key)
    cand = {key for key, (f, cls, fn) in funcs.items() if (cls is not None and is_classmethod(fn)) or cls is None}

    def callers(short):
        """keys of functions containing a call whose callee name ends with `short` (private-name mangling tolerant)"""
        out = set()
        base = short.lstrip('_')
        for key, (f, cls, fn) in funcs.items():
            for n in walk_no_nested(fn):
                if isinstance(n, ast.Call):
                    nm = n.func.attr if isinstance(n.func, ast.Attribute) else (n.func.id if isinstance(n.func, ast.Name) else None)
                    if nm is not None and nm.lstrip('_') == base:
                        out.add(key)
        return out
    # runtime-reachable = least fixpoint from the runtime roots over the (name-based) call relation
    callees = {}
    module_level = {fn.name.lstrip('_') for (f, cls, fn) in funcs.values() if cls is None}
    for key, (f, cls, fn) in funcs.items():
        names = set()
        # a call through a local variable / parameter (`build = TABLE.get(op); build(a, b)`) calls whatever value the local holds - functions used as values are
        # accounted for below -, not the function of the repository that happens to be spelled like the local
        locals_ = {a.arg for a in fn.args.args + fn.args.kwonlyargs} | {x.id for x in walk_no_nested(fn) if isinstance(x, ast.Name) and isinstance(x.ctx, ast.Store)}
        for n in walk_no_nested(fn):
            if isinstance(n, ast.Call):
                if isinstance(n.func, ast.Name) and n.func.id in locals_:
                    continue
                nm = n.func.attr if isinstance(n.func, ast.Attribute) else (n.func.id if isinstance(n.func, ast.Name) else None)
                if nm:
                    # a bare name can only be a function that is not a method ('#' marks it); an attribute call can be anything of that name
                    names.add(nm.lstrip('_') if isinstance(n.func, ast.Attribute) else '#' + nm.lstrip('_'))
            elif isinstance(n, ast.Name) and isinstance(n.ctx, ast.Load) and n.id.lstrip('_') in module_level:
                names.add('#' + n.id.lstrip('_'))         # a module-level function used as a value (`f = helper`, a table of functions): whoever holds it may call it
        callees[key] = names
    by_short = {}
    for key, (f, cls, fn) in funcs.items():
        by_short.setdefault(fn.name.lstrip('_'), set()).add(key)
        if cls is None:
            by_short.setdefault('#' + fn.name.lstrip('_'), set()).add(key)
    called_somewhere = set()
    for key, names in callees.items():
        for nm in names:
            called_somewhere |= by_short.get(nm, set()) - {key}
    roots = set()
    for key, (f, cls, fn) in funcs.items():
        if key in ito:
            continue
        if key not in cand:
            roots.add(key)                      # instance-level method
        elif cls is None and key not in called_somewhere:
            roots.add(key)                      # module-level function nobody here calls: public entry point
    reach = set(roots)
    work = list(roots)
    while work:
        k = work.pop()
        for nm in callees.get(k, ()):
            for k2 in by_short.get(nm, ()):
                if k2 not in reach and k2 not in ito:
                    reach.add(k2)
                    work.append(k2)
    ito |= (cand - reach)
    return {k[1] for k in ito}
