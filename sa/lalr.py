"""Engine A (2/3): LALR(1) tables of a GrammarModel, built exactly the way sly/yacc.py builds them.

Own implementation (LR(0) item sets + DeRemer/Pennello look-aheads + yacc conflict resolution).
Four sly specifics are reproduced on purpose (validated entry-for-entry against sly's tables during
development; see DESIGN.md section 2):
 1. an LR(0) state is identified by the *sequence* of its kernel items (sly's goto trie);
 2. closure order = productions of the symbol after the dot in grammar order;
 3. conflicts are resolved pairwise in arrival order, a stored None (nonassoc error entry) is
    treated as "no entry" by the next competing action, default precedence is ('right', 0),
    reduce/reduce keeps the production with the smaller `line`;
 4. defaulted states = states whose single action is a reduction.
"""
import time

SHIFT, REDUCE, ACCEPT, ERROR = 'shift', 'reduce', 'accept', 'error'


class Tables:
    def __init__(self, g):
        self.g = g
        self.P = g.productions
        self.states = []        # list of item lists [(prod, dot), ...] kernel first
        self.kernels = []
        self.trans = {}         # (state, symbol) -> state
        self.action = []        # per state: {terminal: int | None}   >0 shift, <0 reduce, 0 accept, None error
        self.actionp = []       # per state: {terminal: (prod, dot)} the item that produced the stored action
        self.LA = {}            # (state, prod) -> set of terminals
        self.conflicts = []     # (state, terminal, kind, detail)
        self.defaulted = {}
        self.build_s = 0.0

    def goto(self, s, sym):
        return self.trans.get((s, sym))

    def items_str(self, s, kernel_only=True):
        out = []
        for p, d in (self.kernels[s] if kernel_only else self.states[s]):
            pr = self.P[p]
            rhs = list(pr.rhs)
            rhs.insert(d, '.')
            out.append(f"{pr.name} -> {' '.join(rhs)}")
        return out


def build(g):
    t0 = time.time()
    T = Tables(g)
    P = g.productions
    terminals = g.terminals
    nts = {}
    for i, p in enumerate(P):
        nts.setdefault(p.name, []).append(i)
    nullable = set()
    ch = True
    while ch:
        ch = False
        for p in P:
            if p.name not in nullable and all(s in nullable for s in p.rhs):
                nullable.add(p.name)
                ch = True

    def closure(kernel):
        J = list(kernel)
        seen = set(J)
        added = set()
        i = 0
        while i < len(J):
            p, d = J[i]
            i += 1
            rhs = P[p].rhs
            if d < len(rhs) and rhs[d] in nts and rhs[d] not in added:
                added.add(rhs[d])
                for q in nts[rhs[d]]:
                    if (q, 0) not in seen:
                        seen.add((q, 0))
                        J.append((q, 0))
        return J

    states = [closure([(0, 0)])]
    kernels = [((0, 0),)]
    kidx = {((0, 0),): 0}
    trans = {}
    i = 0
    while i < len(states):
        I = states[i]
        syms = []
        seen_s = set()
        for p, d in I:
            rhs = P[p].rhs
            if d < len(rhs) and rhs[d] not in seen_s:
                seen_s.add(rhs[d])
                syms.append(rhs[d])
        for x in syms:
            k = tuple((p, d + 1) for p, d in I if d < len(P[p].rhs) and P[p].rhs[d] == x)
            if k not in kidx:
                kidx[k] = len(states)
                kernels.append(k)
                states.append(closure(list(k)))
            trans[(i, x)] = kidx[k]
        i += 1

    # ---- DeRemer / Pennello -------------------------------------------------------------
    succ = {}
    for (s, x), r in trans.items():
        succ.setdefault(s, []).append((x, r))
    ntrans = [(s, x) for (s, x) in trans if x in nts]
    DR = {}
    reads = {}
    includes = {t: [] for t in ntrans}
    lookback = {}
    start = P[0].rhs[0]
    for (s, A) in ntrans:
        r = trans[(s, A)]
        DR[(s, A)] = set(x for x, _ in succ.get(r, []) if x not in nts)
        if s == 0 and A == start:
            DR[(s, A)].add('$end')
        reads[(s, A)] = [(r, x) for x, _ in succ.get(r, []) if x in nullable]
    for (s, A) in ntrans:
        for p in nts[A]:
            rhs = P[p].rhs
            q = s
            for j, sym in enumerate(rhs):
                if sym in nts and all(y in nullable for y in rhs[j + 1:]):
                    includes[(q, sym)].append((s, A))
                q = trans[(q, sym)]
            lookback.setdefault((q, p), []).append((s, A))

    def digraph(X, R, F0):
        # F(x) = F0(x) U union of F(y) for x R y, with SCCs collapsed (iterative Tarjan)
        N = {x: 0 for x in X}
        F = {}
        INF = 1 << 60
        stack = []
        for root in X:
            if N[root] != 0:
                continue
            work = [(root, iter(R.get(root, ())))]
            stack.append(root)
            N[root] = len(stack)
            F[root] = set(F0[root])
            depth = {root: len(stack)}
            while work:
                x, it = work[-1]
                advanced = False
                for y in it:
                    if N[y] == 0:
                        stack.append(y)
                        N[y] = len(stack)
                        depth[y] = len(stack)
                        F[y] = set(F0[y])
                        work.append((y, iter(R.get(y, ()))))
                        advanced = True
                        break
                    N[x] = min(N[x], N[y])
                    F[x] |= F[y]
                if advanced:
                    continue
                work.pop()
                if N[x] == depth[x]:
                    while True:
                        z = stack.pop()
                        N[z] = INF
                        F[z] = F[x]
                        if z == x:
                            break
                if work:
                    px = work[-1][0]
                    N[px] = min(N[px], N[x])
                    F[px] |= F[x]
        return F

    Read = digraph(ntrans, reads, DR)
    Follow = digraph(ntrans, includes, Read)
    LA = {}
    for (q, p), lbs in lookback.items():
        s = set()
        for t in lbs:
            s |= Follow[t]
        LA[(q, p)] = s

    # ---- action table with sly's resolution ------------------------------------------------
    precmap = g.precmap
    for st, I in enumerate(states):
        act = {}
        actp = {}
        for p, d in I:
            pr = P[p]
            if d == len(pr.rhs):
                if p == 0:
                    act['$end'] = 0
                    actp['$end'] = (p, d)
                    continue
                for a in sorted(LA.get((st, p), ())):
                    r = act.get(a)
                    if r is not None:
                        if r > 0:
                            sprec, slevel = precmap.get(a, ('right', 0))
                            rprec, rlevel = pr.prec
                            if slevel < rlevel or (slevel == rlevel and rprec == 'left'):
                                act[a] = -p
                                actp[a] = (p, d)
                                T.conflicts.append((st, a, 'sr', 'reduce', p, slevel, rlevel))
                            elif slevel == rlevel and rprec == 'nonassoc':
                                act[a] = None
                                T.conflicts.append((st, a, 'sr', 'error', p, slevel, rlevel))
                            else:
                                T.conflicts.append((st, a, 'sr', 'shift', p, slevel, rlevel))
                        else:
                            old = P[-r]
                            if old.line > pr.line:
                                act[a] = -p
                                actp[a] = (p, d)
                                T.conflicts.append((st, a, 'rr', 'new', p, -r, None))
                            else:
                                T.conflicts.append((st, a, 'rr', 'old', p, -r, None))
                    else:
                        act[a] = -p
                        actp[a] = (p, d)
            else:
                a = pr.rhs[d]
                if a not in nts:
                    j = trans[(st, a)]
                    r = act.get(a)
                    if r is not None:
                        if r > 0:
                            if r != j:
                                raise AssertionError('shift/shift conflict')
                        else:
                            rp = P[actp[a][0]]
                            rprec, rlevel = rp.prec
                            sprec, slevel = precmap.get(a, ('right', 0))
                            if slevel > rlevel or (slevel == rlevel and rprec == 'right'):
                                act[a] = j
                                actp[a] = (p, d)
                                T.conflicts.append((st, a, 'sr', 'shift', rp.number, slevel, rlevel))
                            elif slevel == rlevel and rprec == 'nonassoc':
                                act[a] = None
                                T.conflicts.append((st, a, 'sr', 'error', rp.number, slevel, rlevel))
                            else:
                                T.conflicts.append((st, a, 'sr', 'reduce', rp.number, slevel, rlevel))
                    else:
                        act[a] = j
                        actp[a] = (p, d)
        T.action.append(act)
        T.actionp.append(actp)
    for st, act in enumerate(T.action):
        vals = list(act.values())
        if len(vals) == 1 and vals[0] is not None and vals[0] < 0:
            T.defaulted[st] = vals[0]
    T.states = states
    T.kernels = kernels
    T.trans = trans
    T.LA = LA
    T.nullable = nullable
    T.nts = nts
    T.build_s = time.time() - t0
    return T


_cache = {}


def sly_defaulted_tail(src):
    """the statements of sly's LRTable.__init__ that compute `defaulted_states`, as a function of `self` (interpreted by the callers on action tables)"""
    import ast
    from .source import AnalysisError, memo_on

    def make():
        tree = src.tree('sly/yacc.py')
        init = None
        for n in ast.walk(tree):
            if isinstance(n, ast.ClassDef) and n.name == 'LRTable':
                for f in n.body:
                    if isinstance(f, ast.FunctionDef) and f.name == '__init__':
                        init = f
        if init is None:
            raise AnalysisError('sly/yacc.py: LRTable.__init__ not found')
        first = next((k for k, st in enumerate(init.body) if any((isinstance(x, ast.Name) and 'defaulted' in x.id) or (isinstance(x, ast.Attribute) and 'defaulted' in x.attr)
                                                                  for x in ast.walk(st))), None)
        if first is None:
            raise AnalysisError('sly/yacc.py: LRTable.__init__ does not compute defaulted_states')
        tail = ast.FunctionDef(name='defaulted_states_tail', args=ast.arguments(posonlyargs=[], args=[ast.arg(arg='self')], kwonlyargs=[], kw_defaults=[], defaults=[]),
                               body=list(init.body[first:]), decorator_list=[], lineno=init.body[first].lineno, col_offset=0)
        ast.fix_missing_locations(tail)
        return tail, init.body[first].lineno
    return memo_on(src, ('sly-defaulted-tail',), make)


def tables_for(src, dialect):
    from .grammar import load_dialect
    from .source import memo_on, AnalysisError

    def make():
        T = build(load_dialect(src, dialect))
        # which states the driver treats as defaulted is sly's decision: its own code is interpreted on the reconstructed action table
        from .interp import Interp, Obj, Raised, Env
        tail, _ = sly_defaulted_tail(src)
        self_ = Obj('LRTable', lr_action={st: dict(act) for st, act in enumerate(T.action)})
        try:
            Interp.for_file(src, 'sly/yacc.py', {}, {}, max_steps=20_000_000).call_function(tail, [self_], {}, Env())
        except Raised as r:
            raise AnalysisError(f'sly/yacc.py: the computation of defaulted_states raises {r.exc_name} on the {dialect} tables')
        ds = self_.attrs.get('defaulted_states')
        if not isinstance(ds, dict):
            raise AnalysisError('sly/yacc.py: LRTable.__init__ leaves no defaulted_states table')
        T.defaulted_formula = dict(T.defaulted)
        T.defaulted = dict(ds)
        return T
    return memo_on(src, ('lalr', dialect), make)


def kind(t, st, a):
    """Decoded action of state st on terminal a: (SHIFT, j) / (REDUCE, p) / (ACCEPT,) / (ERROR,) / None (absent)."""
    act = t.action[st]
    if a not in act:
        return None
    v = act[a]
    if v is None:
        return (ERROR,)
    if v > 0:
        return (SHIFT, v)
    if v < 0:
        return (REDUCE, -v)
    return (ACCEPT,)


def lr_parse(t, terminals):
    """Run the LR automaton of the reconstructed tables on a sequence of terminal names (as sly's driver does, with defaulted states).
    -> (accepted, [numbers of the productions reduced, in order])"""
    toks = list(terminals) + ['$end']
    stack = [0]
    reds = []
    i = 0
    for _ in range(20000):
        st = stack[-1]
        if st in t.defaulted:
            act = (REDUCE, -t.defaulted[st])
        else:
            act = kind(t, st, toks[i])
        if act is None or act[0] == ERROR:
            return False, reds
        if act[0] == SHIFT:
            stack.append(act[1])
            i += 1
        elif act[0] == REDUCE:
            pr = t.P[act[1]]
            if pr.rhs:
                del stack[-len(pr.rhs):]
            nxt = t.goto(stack[-1], pr.name)
            if nxt is None:
                return False, reds
            stack.append(nxt)
            reds.append(act[1])
        else:
            return True, reds
    return False, reds
