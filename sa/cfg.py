"""Engine B (part): structured forward dataflow over a function body.

The repository uses only structured control flow (if / for / while / try / with / return / raise /
break / continue), so a syntax-directed abstract interpreter with joins at merge points is an
exact CFG traversal.  A client supplies

    transfer(stmt, state) -> state          for simple statements (and the header of compound ones)
    cond(test, state, branch) -> state|None narrowing on a branch (None = infeasible)
    join(a, b) -> state

States must support ==.  Loops are iterated to a fixpoint (bounded).  `try` bodies may raise at any
statement: the handler entry state is the join of all states reached inside the body.
Results: lists of (node, state) for returns and raises, and the fall-through state.
"""
import ast

from .source import AnalysisError


class Result:
    def __init__(self):
        self.returns = []     # (Return node, state before it)
        self.raises = []      # (Raise node, state before it)
        self.end = None       # state on falling off the end (None if unreachable)
        self.at = {}          # id(stmt) -> state before the statement (joined over visits)
        self.calls = []


class Flow:
    def __init__(self, transfer, join, cond=None, max_iter=12):
        self.transfer = transfer
        self.join = join
        self.cond = cond or (lambda test, st, branch: st)
        self.max_iter = max_iter

    def run(self, fn, init):
        self.res = Result()
        out = self._block(fn.body, init, [])
        self.res.end = out
        return self.res

    # internal: returns fall-through state or None; loop_stack holds dicts collecting break/continue states
    def _j(self, a, b):
        if a is None:
            return b
        if b is None:
            return a
        return self.join(a, b)

    def _block(self, stmts, st, loops):
        for s in stmts:
            if st is None:
                return None
            st = self._stmt(s, st, loops)
        return st

    def _record(self, s, st):
        k = id(s)
        self.res.at[k] = self._j(self.res.at.get(k), st)

    def _stmt(self, s, st, loops):
        self._record(s, st)
        if isinstance(s, ast.Return):
            st2 = self.transfer(s, st)
            self.res.returns.append((s, st2 if st2 is not None else st))
            self._exc_note(st)
            return None
        if isinstance(s, ast.Raise):
            self.res_raise(s, st)
            return None
        if isinstance(s, ast.If):
            st = self.transfer(s, st)
            t = self.cond(s.test, st, True)
            f = self.cond(s.test, st, False)
            a = self._block(s.body, t, loops) if t is not None else None
            b = self._block(s.orelse, f, loops) if f is not None else None
            return self._j(a, b)
        if isinstance(s, (ast.For, ast.While, ast.AsyncFor)):
            return self._loop(s, st, loops)
        if isinstance(s, (ast.With, ast.AsyncWith)):
            st = self.transfer(s, st)
            return self._block(s.body, st, loops)
        if isinstance(s, ast.Try) or s.__class__.__name__ == 'TryStar':
            return self._try(s, st, loops)
        if isinstance(s, ast.Break):
            if loops:
                loops[-1]['break'] = self._j(loops[-1]['break'], st)
            return None
        if isinstance(s, ast.Continue):
            if loops:
                loops[-1]['continue'] = self._j(loops[-1]['continue'], st)
            return None
        if isinstance(s, (ast.FunctionDef, ast.AsyncFunctionDef, ast.ClassDef)):
            return self.transfer(s, st)
        if isinstance(s, ast.Match):
            raise AnalysisError(f'match statement at line {s.lineno} is not modelled')
        st2 = self.transfer(s, st)
        self._exc_note(st)
        return st2

    # try support: every state reached inside a try body is a possible handler entry
    def _exc_note(self, st):
        for fr in getattr(self, '_try_frames', []):
            fr['states'] = self._j(fr['states'], st)

    def res_raise(self, s, st):
        frames = getattr(self, '_try_frames', [])
        if frames and frames[-1]['catches']:
            frames[-1]['states'] = self._j(frames[-1]['states'], st)
            frames[-1]['raises'].append((s, st))
        else:
            self.res.raises.append((s, st))

    def _loop(self, s, st, loops):
        st = self.transfer(s, st)
        frame = {'break': None, 'continue': None}
        head = st
        out_false = None
        for _ in range(self.max_iter):
            frame['continue'] = None
            if isinstance(s, ast.While):
                t = self.cond(s.test, head, True)
                out_false = self.cond(s.test, head, False)
            else:
                t = head
                out_false = head
            body_out = self._block(s.body, t, loops + [frame]) if t is not None else None
            back = self._j(body_out, frame['continue'])
            new_head = self._j(head, back)
            if new_head == head:
                break
            head = new_head
        else:
            raise AnalysisError(f'loop at line {s.lineno}: dataflow did not converge')
        if isinstance(s, ast.While):
            out_false = self.cond(s.test, head, False)
        else:
            out_false = head
        after = self._block(s.orelse, out_false, loops) if out_false is not None else None
        return self._j(after, frame['break'])

    def _try(self, s, st, loops):
        frames = getattr(self, '_try_frames', None)
        if frames is None:
            frames = self._try_frames = []
        fr = {'states': st, 'raises': [], 'catches': bool(s.handlers)}
        frames.append(fr)
        body_out = self._block(s.body, st, loops)
        frames.pop()
        outs = []
        body_else = self._block(s.orelse, body_out, loops) if body_out is not None else None
        outs.append(body_else)
        caught_all = False
        for h in s.handlers:
            hst = fr['states']
            if hst is not None:
                hst = self.transfer(h, hst)
            outs.append(self._block(h.body, hst, loops) if hst is not None else None)
            if h.type is None or (isinstance(h.type, ast.Name) and h.type.id in ('Exception', 'BaseException')):
                caught_all = True
        if not caught_all:
            # explicit raises inside the body that no handler is known to catch are kept as function raises
            for r in fr['raises']:
                self.res.raises.append(r)
        out = None
        for o in outs:
            out = self._j(out, o)
        if s.finalbody:
            fin_in = out if out is not None else fr['states']
            fout = self._block(s.finalbody, fin_in, loops) if fin_in is not None else None
            out = fout if out is not None else None
        return out


def function_named(tree_or_cls, name):
    for n in tree_or_cls.body:
        if isinstance(n, (ast.FunctionDef, ast.AsyncFunctionDef)) and n.name == name:
            return n
    return None


def class_named(tree, name):
    for n in tree.body:
        if isinstance(n, ast.ClassDef) and n.name == name:
            return n
    return None


def all_returns(fn):
    from .source import walk_no_nested
    return [n for n in walk_no_nested(fn) if isinstance(n, ast.Return)]


def _always_exits(stmts):
    """the block cannot fall through (ends in return / raise / continue / break on every path, syntactically)"""
    if not stmts:
        return False
    last = stmts[-1]
    if isinstance(last, (ast.Return, ast.Raise, ast.Continue, ast.Break)):
        return True
    if isinstance(last, ast.If):
        return _always_exits(last.body) and _always_exits(last.orelse)
    return False


def dominating_conditions(node, stop=None):
    """[(test, polarity)] known to hold when `node` executes: tests of enclosing if/elif branches, operands to the left in an `and`, and the negation of every
    earlier sibling `if` whose body always exits (guard clauses).  Conjunctions / negated disjunctions are flattened into their atoms."""
    out = []
    cur = node
    while cur is not stop and getattr(cur, '_parent', None) is not None:
        par = cur._parent
        if isinstance(par, ast.If):
            if cur in par.body:
                out.append((par.test, True))
            elif cur in par.orelse:
                out.append((par.test, False))
        elif isinstance(par, ast.IfExp):
            if cur is par.body:
                out.append((par.test, True))
            elif cur is par.orelse:
                out.append((par.test, False))
        elif isinstance(par, ast.BoolOp):
            i = par.values.index(cur) if cur in par.values else 0
            for v in par.values[:i]:
                out.append((v, isinstance(par.op, ast.And)))
        # guard clauses before this statement in the same block
        for field in ('body', 'orelse', 'finalbody'):
            blk = getattr(par, field, None)
            if isinstance(blk, list) and cur in blk:
                for st in blk[:blk.index(cur)]:
                    if isinstance(st, ast.If) and _always_exits(st.body) and not st.orelse:
                        out.append((st.test, False))
                    elif isinstance(st, ast.If) and st.orelse and _always_exits(st.orelse) and not _always_exits(st.body):
                        out.append((st.test, True))
        cur = par
    flat = []

    def add(t, pol):
        if isinstance(t, ast.UnaryOp) and isinstance(t.op, ast.Not):
            add(t.operand, not pol)
        elif isinstance(t, ast.BoolOp) and isinstance(t.op, ast.And) and pol:
            for v in t.values:
                add(v, True)
        elif isinstance(t, ast.BoolOp) and isinstance(t.op, ast.Or) and not pol:
            for v in t.values:
                add(v, False)
        else:
            flat.append((t, pol))
    for t, pol in out:
        add(t, pol)
    return flat
