"""Static model of mindsdb_sql.planner.utils.query_traversal: isinstance branches, visit sites, flags,
store-back targets.  Shared by C13 (walker), C12 (binding order), C10/C11 (what the rewrites can see)."""
import ast

from .source import AnalysisError, norm, dotted, ancestors
from .pymodel import FieldUse

WALKER_FILE = 'mindsdb_sql/planner/utils.py'
WALKER = 'query_traversal'


class Site:
    def __init__(self):
        self.call = None
        self.field = None
        self.shape = None
        self.sub = None
        self.kw = {}
        self.guarded = False
        self.result_used = True
        self.stores = []        # [(field, sub)] where the call's result ends up
        self.index = 0

    def label(self):
        return self.field + (f'[].{self.sub}' if self.sub else '')


class Branch:
    def __init__(self, classes, test, body):
        self.classes = classes      # list of class names (or ['<list>'])
        self.test = test
        self.body = body
        self.sites = []
        self.lineno = test.lineno


class WalkerModel:
    def __init__(self, src):
        tree = src.tree(WALKER_FILE)
        fn = None
        for n in tree.body:
            if isinstance(n, ast.FunctionDef) and n.name == WALKER:
                fn = n
        if fn is None:
            raise AnalysisError(f'{WALKER_FILE}: function {WALKER} not found')
        self.fn = fn
        self.file = WALKER_FILE
        self.params = [a.arg for a in fn.args.args]
        if len(self.params) < 2:
            raise AnalysisError('query_traversal: unexpected signature')
        self.node, self.cb = self.params[0], self.params[1]
        self.branches = []
        self.pre = []
        self.post = []
        chain = None

        def chain_len(st):
            k = 0
            while isinstance(st, ast.If) and self._isinstance_classes(st.test) is not None:
                k += 1
                st = st.orelse[0] if len(st.orelse) == 1 else None
            return k
        cands = [st for st in fn.body if isinstance(st, ast.If) and self._isinstance_classes(st.test) is not None]
        if cands:
            chain = max(cands, key=chain_len)       # the dispatch chain is the longest isinstance if/elif chain
        seen_chain = False
        for st in fn.body:
            if st is chain:
                seen_chain = True
            elif not seen_chain:
                self.pre.append(st)
            else:
                self.post.append(st)
        if chain is None:
            raise AnalysisError('query_traversal: isinstance dispatch chain not found')
        n = chain
        while True:
            cls = self._isinstance_classes(n.test)
            if cls is None:
                raise AnalysisError(f'query_traversal: branch test at line {n.lineno} is not isinstance(node, ...): {norm(n.test)}')
            b = Branch(cls, n.test, n.body)
            self._sites(b)
            self.branches.append(b)
            if len(n.orelse) == 1 and isinstance(n.orelse[0], ast.If):
                n = n.orelse[0]
                continue
            if n.orelse:
                raise AnalysisError(f'query_traversal: unmodelled else branch at line {n.orelse[0].lineno}')
            break

    def _isinstance_classes(self, t):
        if isinstance(t, ast.Call) and dotted(t.func) == 'isinstance' and len(t.args) == 2 \
                and isinstance(t.args[0], ast.Name) and t.args[0].id == self.node:
            a = t.args[1]
            elts = a.elts if isinstance(a, ast.Tuple) else [a]
            out = []
            for e in elts:
                d = dotted(e)
                if d is None:
                    return None
                out.append('<list>' if d == 'list' else d.split('.')[-1])
            return out
        return None

    def _is_walker_call(self, n):
        return isinstance(n, ast.Call) and isinstance(n.func, ast.Name) and n.func.id == WALKER

    def _sites(self, b):
        wrapper = ast.FunctionDef(name='_b', args=None, body=b.body, decorator_list=[], lineno=b.lineno)
        fu = FieldUse(wrapper, self.node)
        calls = []
        for st in b.body:
            for n in ast.walk(st):
                if self._is_walker_call(n):
                    calls.append(n)
        calls.sort(key=lambda c: (c.lineno, c.col_offset))
        for i, c in enumerate(calls):
            s = Site()
            s.call = c
            s.index = i
            if not c.args:
                raise AnalysisError(f'query_traversal: recursive call without arguments at line {c.lineno}')
            src = fu.field_of(c.args[0])
            if src is None:
                if isinstance(c.args[0], ast.Name) and b.classes == ['<list>']:
                    src = ('<items>', 'elem', None)
                else:
                    raise AnalysisError(f'query_traversal line {c.lineno}: cannot attribute the visited expression '
                                        f'`{norm(c.args[0])}` to a field of `{self.node}`')
            s.field, s.shape, s.sub = src
            if len(c.args) < 2 or not (isinstance(c.args[1], ast.Name) and c.args[1].id == self.cb):
                raise AnalysisError(f'query_traversal line {c.lineno}: recursive call does not pass the callback on')
            for k in c.keywords:
                s.kw[k.arg] = k.value
            for extra, name in zip(c.args[2:], self.params[2:]):
                s.kw[name] = extra
            # guard: some enclosing `if` inside the branch tests node.<field>
            for a in ancestors(c):
                if isinstance(a, ast.If) and a.body is b.body:
                    break
                if isinstance(a, ast.If):
                    for x in ast.walk(a.test):
                        if isinstance(x, ast.Attribute) and isinstance(x.value, ast.Name) and x.value.id == self.node \
                                and x.attr == s.field:
                            s.guarded = True
            self._stores(b, s, fu)
            b.sites.append(s)

    def _stores(self, b, s, fu):
        """Forward taint of the call result inside the branch."""
        c = s.call
        par = getattr(c, '_parent', None)
        if isinstance(par, ast.Expr):
            s.result_used = False
            return
        tainted = set()
        stores = []

        def mentions(e):
            for x in ast.walk(e):
                if x is c:
                    return True
                if isinstance(x, ast.Name) and x.id in tainted:
                    return True
            return False
        stmts = []
        for st in b.body:
            for n in ast.walk(st):
                if isinstance(n, (ast.Assign, ast.AugAssign, ast.Expr, ast.Return)):
                    stmts.append(n)
        stmts.sort(key=lambda n: (n.lineno, n.col_offset))
        start = c.lineno
        for _ in range(1):
            for n in stmts:
                if getattr(n, 'end_lineno', n.lineno) < start:
                    continue
                if isinstance(n, ast.Assign):
                    if not mentions(n.value):
                        for t in n.targets:             # reassignment with an unrelated value kills the taint
                            if isinstance(t, ast.Name):
                                tainted.discard(t.id)
                        continue
                    for t in n.targets:
                        for e in (t.elts if isinstance(t, (ast.Tuple, ast.List)) else [t]):
                            if isinstance(e, ast.Name):
                                tainted.add(e.id)
                            elif isinstance(e, ast.Subscript) and isinstance(e.value, ast.Name):
                                tainted.add(e.value.id)
                            elif isinstance(e, ast.Attribute):
                                src = fu.field_of(e)
                                if src:
                                    stores.append((src[0], src[2] if src[1] != 'node' else None, n))
                                elif isinstance(e.value, ast.Name) and e.value.id in fu.derive:
                                    f, sh, sub = fu.derive[e.value.id]
                                    stores.append((f, e.attr, n))
                elif isinstance(n, ast.Expr) and isinstance(n.value, ast.Call) and isinstance(n.value.func, ast.Attribute):
                    f = n.value.func
                    if f.attr in ('append', 'extend', 'insert', 'add', 'update') and any(mentions(a) for a in n.value.args):
                        if isinstance(f.value, ast.Name):
                            tainted.add(f.value.id)
                        else:
                            src = fu.field_of(f.value)
                            if src:
                                stores.append((src[0], None, n))
                elif isinstance(n, ast.Return) and n.value is not None and mentions(n.value):
                    stores.append(('<return>', None, n))
        seen = []
        for f, sub, n in stores:
            if (f, sub) not in seen:
                seen.append((f, sub))
        s.stores = seen

    def branch_for(self, model, ci):
        """First branch (in chain order) whose isinstance test accepts class ci."""
        for b in self.branches:
            for cn in b.classes:
                if cn != '<list>' and model.is_subclass(ci, cn):
                    return b
        return None


_cache = {}


def walker_for(src):
    k = id(src)
    if k not in _cache or _cache[k][0] is not src:
        _cache[k] = (src, WalkerModel(src))
    return _cache[k][1]
