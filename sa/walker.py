"""Static model of mindsdb_sql.planner.utils.query_traversal: isinstance branches, visit sites, flags,
store-back targets.  Shared by C13 (walker), C12 (binding order), C10/C11 (what the rewrites can see)."""
import ast
import copy

from .source import AnalysisError, norm, dotted, ancestors
from .pymodel import FieldUse

WALKER_FILE = 'mindsdb_sql/planner/utils.py'
WALKER = 'query_traversal'


class Site:
    def __init__(self):
        self.call = None
        self.field = None
        self.shape = None
        self.sub = None
        self.kw = {}
        self.guarded = False
        self.result_used = True
        self.stores = []        # [(field, sub)] where the call's result ends up
        self.store_problem = None
        self.index = 0
        self.extra_conditions = []
        self.projection = None      # the visit takes one component of every element of the field (a separate pass over the field)

    def label(self):
        return self.field + (f'[].{self.sub}' if self.sub else '')


class Branch:
    def __init__(self, classes, test, body):
        self.classes = classes      # list of class names (or ['<list>'])
        self.test = test
        self.body = body
        self.sites = []
        self.lineno = test.lineno


class WalkerModel:
    def __init__(self, src):
        tree = src.tree(WALKER_FILE)
        fn = None
        for n in tree.body:
            if isinstance(n, ast.FunctionDef) and n.name == WALKER:
                fn = n
        if fn is None:
            raise AnalysisError(f'{WALKER_FILE}: function {WALKER} not found')
        self.fn = fn
        self.file = WALKER_FILE
        # module-level `NAME = (ast.A, ast.B, ...)` assigned once: class tuples used by isinstance tests
        self.class_tuples = {}
        stored = {}
        for x in ast.walk(tree):
            if isinstance(x, ast.Name) and isinstance(x.ctx, (ast.Store, ast.Del)):
                stored[x.id] = stored.get(x.id, 0) + 1
        def tuple_elts(e):
            # (ast.A, ast.B) | NAME of such a tuple | <tuple> + <tuple>
            if isinstance(e, ast.Tuple) and e.elts and all(dotted(x) is not None for x in e.elts):
                return list(e.elts)
            if isinstance(e, ast.Name) and e.id in self.class_tuples:
                return list(self.class_tuples[e.id].elts)
            if isinstance(e, ast.BinOp) and isinstance(e.op, ast.Add):
                l_, r_ = tuple_elts(e.left), tuple_elts(e.right)
                return l_ + r_ if l_ is not None and r_ is not None else None
            return None
        for st in tree.body:
            if isinstance(st, ast.Assign) and len(st.targets) == 1 and isinstance(st.targets[0], ast.Name) and stored.get(st.targets[0].id) == 1:
                elts_ = tuple_elts(st.value)
                if elts_:
                    self.class_tuples[st.targets[0].id] = ast.Tuple(elts=elts_, ctx=ast.Load())
        self.params = [a.arg for a in fn.args.args]
        if len(self.params) < 2:
            raise AnalysisError('query_traversal: unexpected signature')
        self.node, self.cb = self.params[0], self.params[1]
        self.branches = []
        self.pre = []
        self.post = []
        self.norm = Normalizer(tree, WALKER)
        self.helpers = sorted(self.norm.helpers)
        chain = None

        def chain_len(st):
            k = 0
            while isinstance(st, ast.If) and self._isinstance_classes(st.test) is not None:
                k += 1
                st = st.orelse[0] if len(st.orelse) == 1 else None
            return k
        cands = [st for st in fn.body if isinstance(st, ast.If) and self._isinstance_classes(st.test) is not None]
        if cands:
            chain = max(cands, key=chain_len)       # the dispatch chain is the longest isinstance if/elif chain
        if chain is None:
            raise AnalysisError('query_traversal: isinstance dispatch chain not found')
        from .cfg import _always_exits
        # guard-style branches: a top-level `if isinstance(node, X): ... return ...` standing before the chain is a branch of the dispatch as well
        heads = []
        seen_chain = False
        for st in fn.body:
            if st is chain:
                seen_chain = True
                heads.append(st)
            elif isinstance(st, ast.If) and self._isinstance_classes(st.test) is not None and not st.orelse and _always_exits(st.body) and self.pre \
                    and not seen_chain:
                heads.append(st)
            elif not seen_chain:
                self.pre.append(st)
            else:
                self.post.append(st)
        for head in heads:
            self._add_chain(head)

    def _add_chain(self, chain):
        n = chain
        while True:
            cls = self._isinstance_classes(n.test)
            if cls is None:
                raise AnalysisError(f'query_traversal: branch test at line {n.lineno} is not isinstance(node, ...): {norm(n.test)}')
            b = Branch(cls, n.test, self.norm.block(clone(n.body)))
            b.ifnode = n
            renumber(b.body, n)
            self._sites(b)
            self.branches.append(b)
            if len(n.orelse) == 1 and isinstance(n.orelse[0], ast.If):
                n = n.orelse[0]
                continue
            if n.orelse:
                raise AnalysisError(f'query_traversal: unmodelled else branch at line {n.orelse[0].lineno}')
            break

    def _isinstance_classes(self, t):
        if isinstance(t, ast.Call) and dotted(t.func) == 'isinstance' and len(t.args) == 2 \
                and isinstance(t.args[0], ast.Name) and t.args[0].id == self.node:
            a = t.args[1]
            if isinstance(a, ast.Name) and a.id in getattr(self, 'class_tuples', {}):
                a = self.class_tuples[a.id]         # a module-level constant tuple of classes
            elts = a.elts if isinstance(a, ast.Tuple) else [a]
            out = []
            for e in elts:
                d = dotted(e)
                if d is None:
                    return None
                out.append('<list>' if d == 'list' else d.split('.')[-1])
            return out
        return None

    def _is_walker_call(self, n):
        return isinstance(n, ast.Call) and isinstance(n.func, ast.Name) and n.func.id == WALKER

    def _sites(self, b):
        wrapper = ast.FunctionDef(name='_b', args=None, body=b.body, decorator_list=[], lineno=b.lineno)
        fu = FieldUse(wrapper, self.node)
        calls = []
        for st in b.body:
            for n in ast.walk(st):
                if self._is_walker_call(n):
                    calls.append(n)
        calls.sort(key=lambda c: c._seq)
        for i, c in enumerate(calls):
            s = Site()
            s.call = c
            s.index = i
            if not c.args:
                raise AnalysisError(f'query_traversal: recursive call without arguments at line {c.lineno}')
            src = fu.field_of(c.args[0])
            a0 = c.args[0]
            if src is None and isinstance(a0, (ast.ListComp, ast.GeneratorExp)) and len(a0.generators) == 1 and not a0.generators[0].ifs \
                    and isinstance(a0.generators[0].target, ast.Name):
                # a projection of a field's elements: [rule[0] for rule in node.rules] - one component of every element, visited as a list of its own
                base = fu.field_of(a0.generators[0].iter)
                elt = a0.elt
                comp = None
                if isinstance(elt, ast.Subscript) and isinstance(elt.value, ast.Name) and elt.value.id == a0.generators[0].target.id and isinstance(elt.slice, ast.Constant):
                    comp = str(elt.slice.value)
                elif isinstance(elt, ast.Attribute) and isinstance(elt.value, ast.Name) and elt.value.id == a0.generators[0].target.id:
                    comp = elt.attr
                if base is not None and comp is not None:
                    src = (base[0], 'projection', None)
                    s.projection = comp
            if src is None:
                if isinstance(c.args[0], ast.Name) and b.classes == ['<list>']:
                    src = ('<items>', 'elem', None)
                else:
                    raise AnalysisError(f'query_traversal line {c.lineno}: cannot attribute the visited expression '
                                        f'`{norm(c.args[0])}` to a field of `{self.node}`')
            s.field, s.shape, s.sub = src
            if len(c.args) < 2 or not (isinstance(c.args[1], ast.Name) and c.args[1].id == self.cb):
                raise AnalysisError(f'query_traversal line {c.lineno}: recursive call does not pass the callback on')
            for k in c.keywords:
                s.kw[k.arg] = k.value
            for extra, name in zip(c.args[2:], self.params[2:]):
                s.kw[name] = extra
            # guard: some enclosing `if` inside the branch tests node.<field>
            for a in ancestors(c):
                if a is b.ifnode:
                    break
                if isinstance(a, ast.If):
                    for x in ast.walk(a.test):
                        if isinstance(x, (ast.Attribute, ast.Name)):
                            fo = fu.field_of(x)
                            if fo is not None and fo[0] == s.field and fo[1] == 'node':
                                s.guarded = True
            # conditions the visit stands under that are NOT presence tests of the visited field (aliases of the field resolved) nor the class test of the branch
            from .cfg import dominating_conditions
            s.extra_conditions = []
            for t_, pol in dominating_conditions(c, stop=b.ifnode):
                subj = None
                if isinstance(t_, ast.Compare) and len(t_.ops) == 1 and isinstance(t_.comparators[0], ast.Constant) and t_.comparators[0].value is None:
                    if (isinstance(t_.ops[0], ast.IsNot) and pol) or (isinstance(t_.ops[0], ast.Is) and not pol):
                        subj = t_.left
                elif isinstance(t_, (ast.Attribute, ast.Name)) and pol:
                    subj = t_
                elif isinstance(t_, ast.Call) and dotted(t_.func) == 'hasattr' and pol and len(t_.args) == 2 and norm(t_.args[0]) == self.node \
                        and isinstance(t_.args[1], ast.Constant) and t_.args[1].value == s.field:
                    continue
                elif isinstance(t_, ast.Call) and dotted(t_.func) == 'isinstance' and t_.args and norm(t_.args[0]) == self.node:
                    continue
                elif isinstance(t_, ast.Compare) and len(t_.ops) == 1 and isinstance(t_.left, ast.Call) and dotted(t_.left.func) == 'len' and t_.left.args \
                        and isinstance(t_.comparators[0], ast.Constant) and t_.comparators[0].value == 0 and (
                            (isinstance(t_.ops[0], (ast.Gt, ast.NotEq)) and pol) or (isinstance(t_.ops[0], ast.Eq) and not pol)):
                    subj = t_.left.args[0]
                if subj is not None:
                    fo = fu.field_of(subj)
                    if fo is not None and fo[0] == s.field:
                        continue
                s.extra_conditions.append((t_, pol))
            self._stores(b, s, fu)
            b.sites.append(s)

    def _stores(self, b, s, fu):
        """Forward taint of the call result inside the branch."""
        c = s.call
        par = getattr(c, '_parent', None)
        if isinstance(par, ast.Expr):
            s.result_used = False
            return
        tainted = set()
        stores = []

        def mentions(e):
            for x in ast.walk(e):
                if x is c:
                    return True
                if isinstance(x, ast.Name) and x.id in tainted:
                    return True
            return False
        stmts = []
        for st in b.body:
            for n in ast.walk(st):
                if isinstance(n, (ast.Assign, ast.AugAssign, ast.Expr, ast.Return)):
                    stmts.append(n)
        stmts.sort(key=lambda n: n._seq)

        def last_seq(n):
            return max(getattr(x, '_seq', 0) for x in ast.walk(n))
        start = c._seq
        for _ in range(1):
            for n in stmts:
                if last_seq(n) < start:
                    continue
                if isinstance(n, ast.Assign):
                    if not mentions(n.value):
                        for t in n.targets:             # reassignment with an unrelated value kills the taint
                            if isinstance(t, ast.Name):
                                tainted.discard(t.id)
                        continue
                    for t in n.targets:
                        for e in (t.elts if isinstance(t, (ast.Tuple, ast.List)) else [t]):
                            if isinstance(e, ast.Name):
                                tainted.add(e.id)
                            elif isinstance(e, ast.Subscript) and isinstance(e.value, ast.Name):
                                tainted.add(e.value.id)
                            elif isinstance(e, ast.Subscript) and fu.field_of(e.value):
                                src = fu.field_of(e.value)
                                stores.append((src[0], src[2], n))
                                how = self._index_provenance(b, e.slice, fu, src[0])
                                if how != 'position':
                                    s.store_problem = how
                            elif isinstance(e, ast.Attribute):
                                src = fu.field_of(e)
                                if src:
                                    stores.append((src[0], src[2] if src[1] != 'node' else None, n))
                                elif isinstance(e.value, ast.Name) and e.value.id in fu.derive:
                                    f, sh, sub = fu.derive[e.value.id]
                                    stores.append((f, e.attr, n))
                elif isinstance(n, ast.AugAssign):
                    # `acc += [x]` / `acc += x if isinstance(x, list) else [x]`: the accumulator carries the result; `node.f += ..` stores it
                    if mentions(n.value):
                        if isinstance(n.target, ast.Name):
                            tainted.add(n.target.id)
                        elif isinstance(n.target, ast.Attribute):
                            src = fu.field_of(n.target)
                            if src:
                                stores.append((src[0], src[2] if src[1] != 'node' else None, n))
                elif isinstance(n, ast.Expr) and isinstance(n.value, ast.Call) and isinstance(n.value.func, ast.Attribute):
                    f = n.value.func
                    if f.attr in ('append', 'extend', 'insert', 'add', 'update') and any(mentions(a) for a in n.value.args):
                        if isinstance(f.value, ast.Name):
                            tainted.add(f.value.id)
                        else:
                            src = fu.field_of(f.value)
                            if src:
                                stores.append((src[0], None, n))
                elif isinstance(n, ast.Return) and n.value is not None and mentions(n.value):
                    stores.append(('<return>', None, n))
        seen = []
        for f, sub, n in stores:
            if (f, sub) not in seen:
                seen.append((f, sub))
        s.stores = seen

    def _index_provenance(self, b, idx, fu, field):
        """'position' if the subscript index is the enumerate() position of the visited element, else a description."""
        if isinstance(idx, ast.Slice):
            parts = [p for p in (idx.lower, idx.upper) if p is not None]
            hows = [self._index_provenance(b, p, fu, field) for p in parts]
            bad = [h for h in hows if h != 'position']
            return bad[0] if bad else 'position'
        if isinstance(idx, ast.BinOp):
            hows = [self._index_provenance(b, p, fu, field) for p in (idx.left, idx.right) if not isinstance(p, ast.Constant)]
            bad = [h for h in hows if h != 'position']
            return bad[0] if bad else 'position'
        if isinstance(idx, ast.Name):
            if fu.index_vars.get(idx.id) == field:
                return 'position'
            for st in b.body:
                for n in ast.walk(st):
                    if isinstance(n, ast.Assign) and len(n.targets) == 1 and isinstance(n.targets[0], ast.Name) \
                            and n.targets[0].id == idx.id:
                        v = n.value
                        if isinstance(v, ast.Call) and isinstance(v.func, ast.Attribute) and v.func.attr == 'index':
                            return ('the slot is found by an equality search (`' + norm(v) + '`): ASTNode.__eq__ is structural, so '
                                    'an earlier structurally equal sibling is replaced instead of the visited node')
                        return 'the slot index `' + norm(v) + '` is not the position of the visited element'
            return f'the slot index `{idx.id}` is not the position of the visited element'
        return f'the slot index `{norm(idx)}` is not the position of the visited element'

    def branch_for(self, model, ci):
        """First branch (in chain order) whose isinstance test accepts class ci."""
        for b in self.branches:
            for cn in b.classes:
                if cn != '<list>' and model.is_subclass(ci, cn):
                    return b
        return None




def clone(n):
    """deep copy of an ast subtree that does not follow the _parent back-links"""
    if isinstance(n, ast.AST):
        new = n.__class__()
        for fld in n._fields:
            if hasattr(n, fld):
                setattr(new, fld, clone(getattr(n, fld)))
        for a in ('lineno', 'col_offset', 'end_lineno', 'end_col_offset'):
            if hasattr(n, a):
                setattr(new, a, getattr(n, a))
        return new
    if isinstance(n, list):
        return [clone(x) for x in n]
    return n


# ---- normalisation: inline same-module helpers, unroll loops over literal tuples, fold getattr/setattr ----

class _Subst(ast.NodeTransformer):
    def __init__(self, mapping, kwargs_name=None, kwargs=None):
        self.mapping = mapping
        self.kwargs_name = kwargs_name
        self.kwargs = kwargs or []

    def visit_Name(self, n):
        if n.id in self.mapping:
            return clone(self.mapping[n.id])
        return n

    def visit_Call(self, n):
        self.generic_visit(n)
        if self.kwargs_name:
            new_kw = []
            for k in n.keywords:
                if k.arg is None and isinstance(k.value, ast.Name) and k.value.id == self.kwargs_name:
                    new_kw.extend(clone(self.kwargs))
                else:
                    new_kw.append(k)
            n.keywords = new_kw
        return n


class _Fold(ast.NodeTransformer):
    def visit_Call(self, n):
        self.generic_visit(n)
        if isinstance(n.func, ast.Name) and n.func.id == 'getattr' and len(n.args) == 2 and isinstance(n.args[1], ast.Constant) \
                and isinstance(n.args[1].value, str):
            return ast.copy_location(ast.Attribute(value=n.args[0], attr=n.args[1].value, ctx=ast.Load()), n)
        return n

    def visit_Expr(self, n):
        self.generic_visit(n)
        v = n.value
        if isinstance(v, ast.Call) and isinstance(v.func, ast.Name) and v.func.id == 'setattr' and len(v.args) == 3 \
                and isinstance(v.args[1], ast.Constant) and isinstance(v.args[1].value, str):
            tgt = ast.Attribute(value=v.args[0], attr=v.args[1].value, ctx=ast.Store())
            return ast.copy_location(ast.Assign(targets=[tgt], value=v.args[2]), n)
        return n


def _assigned_names(fn):
    out = set()
    for n in ast.walk(fn):
        if isinstance(n, ast.Name) and isinstance(n.ctx, ast.Store):
            out.add(n.id)
    return out


def _structure_continue(stmts):
    """the body of one (unrolled) loop iteration without `continue`: what follows `if c: continue` moves under `else`"""
    def always_continues(block):
        for x in block:
            if isinstance(x, ast.Continue):
                return True
            if isinstance(x, ast.If) and x.orelse and always_continues(x.body) and always_continues(x.orelse):
                return True
        return False

    def conv(block):
        res = []
        for i, x in enumerate(block):
            if isinstance(x, ast.Continue):
                return res
            if isinstance(x, ast.If):
                cb, ce = always_continues(x.body), bool(x.orelse) and always_continues(x.orelse)
                body, orelse = conv(x.body), conv(x.orelse)
                if cb and not ce:
                    res.append(ast.If(test=x.test, body=body or [ast.Pass()], orelse=orelse + conv(block[i + 1:])))
                    return res
                if ce and not cb:
                    res.append(ast.If(test=x.test, body=body + conv(block[i + 1:]), orelse=orelse))
                    return res
                res.append(ast.If(test=x.test, body=body or [ast.Pass()], orelse=orelse))
                if cb and ce:
                    return res
                continue
            res.append(x)
        return res
    out = conv(stmts)
    for x in out:
        ast.fix_missing_locations(x)
    return out


def _structure_exits(stmts, after):
    """one (unrolled) iteration of a loop whose body uses `break` (and `continue`), followed by the already structured later iterations `after`:
    `continue` skips to `after`, `break` skips `after` as well.  What follows an `if` that leaves the iteration moves under its other branch."""
    def has_exit(block):
        for x in block:
            if isinstance(x, (ast.Break, ast.Continue)):
                return True
            if isinstance(x, ast.If) and (has_exit(x.body) or has_exit(x.orelse)):
                return True
            if isinstance(x, (ast.With, ast.Try)) and has_exit(getattr(x, 'body', [])):
                raise AnalysisError(f'line {x.lineno}: break / continue inside with / try in an unrolled loop - not modelled')
        return False

    def always_exits(block):
        for x in block:
            if isinstance(x, (ast.Break, ast.Continue)):
                return True
            if isinstance(x, ast.If) and x.orelse and always_exits(x.body) and always_exits(x.orelse):
                return True
        return False

    def seq(block, after_):
        res = []
        for i, x in enumerate(block):
            if isinstance(x, ast.Continue):
                return res + after_
            if isinstance(x, ast.Break):
                return res
            if isinstance(x, ast.If) and (has_exit(x.body) or has_exit(x.orelse)):
                rest = block[i + 1:]
                eb, ee = always_exits(x.body), bool(x.orelse) and always_exits(x.orelse)
                if eb and not ee:
                    res.append(ast.If(test=x.test, body=seq(x.body, after_) or [ast.Pass()], orelse=seq(list(x.orelse) + rest, after_)))
                elif ee and not eb:
                    res.append(ast.If(test=x.test, body=seq(list(x.body) + rest, after_) or [ast.Pass()], orelse=seq(x.orelse, after_)))
                elif eb and ee:
                    res.append(ast.If(test=x.test, body=seq(x.body, after_) or [ast.Pass()], orelse=seq(x.orelse, after_)))
                else:
                    raise AnalysisError(f'line {x.lineno}: a conditional break / continue nested deeper than one `if` in an unrolled loop - not modelled')
                return res
            res.append(x)
        return res + after_
    out = seq(stmts, after)
    for x in out:
        ast.fix_missing_locations(x)
    return out


class Normalizer:
    def __init__(self, module_tree, walker_name):
        self.helpers = {}
        for n in module_tree.body:
            if isinstance(n, ast.FunctionDef) and n.name != walker_name:
                if any(isinstance(x, ast.Call) and isinstance(x.func, ast.Name) and x.func.id == walker_name for x in ast.walk(n)):
                    self.helpers[n.name] = n
        self.uid = 0
        # module-level constant tuples / lists of literals (loops over them are unrolled like loops over a literal tuple)
        self.const_seqs = {}
        for n in module_tree.body:
            if isinstance(n, ast.Assign) and len(n.targets) == 1 and isinstance(n.targets[0], ast.Name) and isinstance(n.value, (ast.Tuple, ast.List)) \
                    and n.value.elts and all(isinstance(e, ast.Constant) for e in n.value.elts):
                self.const_seqs[n.targets[0].id] = n.value
        stored = {}
        for x in ast.walk(module_tree):
            if isinstance(x, ast.Name) and isinstance(x.ctx, (ast.Store, ast.Del)):
                stored[x.id] = stored.get(x.id, 0) + 1
        self.const_seqs = {k: v for k, v in self.const_seqs.items() if stored.get(k) == 1}

    def _inline(self, call):
        """statements of the helper body with parameters substituted; the helper's `return X` becomes `_ret = X`."""
        h = self.helpers[call.func.id]
        a = h.args
        if a.vararg or a.posonlyargs or a.kwonlyargs:
            raise AnalysisError(f'helper {h.name}: unmodelled signature')
        params = [p.arg for p in a.args]
        if len(call.args) > len(params):
            raise AnalysisError(f'helper {h.name}: too many positional arguments')
        mapping = {}
        for p, v in zip(params, call.args):
            mapping[p] = v
        kws = []
        for k in call.keywords:
            if k.arg in params:
                mapping[k.arg] = k.value
            elif k.arg is not None:
                kws.append(k)
            else:
                raise AnalysisError(f'helper {h.name}: ** argument at call site')
        defaults = dict(zip(params[len(params) - len(a.defaults):], a.defaults))
        for p in params:
            if p not in mapping:
                if p in defaults:
                    mapping[p] = defaults[p]
                else:
                    raise AnalysisError(f'helper {h.name}: missing argument {p}')
        if kws and not a.kwarg:
            raise AnalysisError(f'helper {h.name}: unexpected keyword arguments')
        self.uid += 1
        # locals of the helper are renamed to stay unique
        ren = {}
        for nm in _assigned_names(h):
            if nm not in params:
                ren[nm] = ast.Name(id=f'{nm}__h{self.uid}', ctx=ast.Load())
        reassigned = [p for p in params if p in _assigned_names(h)]
        if reassigned:
            raise AnalysisError(f'helper {h.name}: reassigns its parameter {reassigned[0]}')
        body = clone(h.body)
        body = [s for s in body if not (isinstance(s, ast.Expr) and isinstance(s.value, ast.Constant))]

        class Ren(ast.NodeTransformer):
            def visit_Name(self_, n):
                if n.id in ren:
                    return ast.Name(id=ren[n.id].id, ctx=n.ctx)
                return n
        out = []
        retname = f'_ret__h{self.uid}'
        for st in body:
            st = Ren().visit(st)
            st = _Subst(mapping, a.kwarg.arg if a.kwarg else None, kws).visit(st)
            out.append(st)
        def ret_assign(x):
            return ast.Assign(targets=[ast.Name(id=retname, ctx=ast.Store())], value=x.value or ast.Constant(value=None))

        def always_returns(stmts):
            for x in stmts:
                if isinstance(x, ast.Return):
                    return True
                if isinstance(x, ast.If) and x.orelse and always_returns(x.body) and always_returns(x.orelse):
                    return True
            return False

        def conv(stmts):
            # `return X` becomes `_ret = X`; what follows an early return moves into the other branch, so the control dependence survives the inlining
            res = []
            for i, x in enumerate(stmts):
                if isinstance(x, ast.Return):
                    res.append(ret_assign(x))
                    return res
                if isinstance(x, ast.If):
                    eb, ee = always_returns(x.body), bool(x.orelse) and always_returns(x.orelse)
                    body, orelse = conv(x.body), conv(x.orelse)
                    if eb and not ee:
                        res.append(ast.If(test=x.test, body=body or [ast.Pass()], orelse=orelse + conv(stmts[i + 1:])))
                        return res
                    if ee and not eb:
                        res.append(ast.If(test=x.test, body=body + conv(stmts[i + 1:]), orelse=orelse))
                        return res
                    res.append(ast.If(test=x.test, body=body or [ast.Pass()], orelse=orelse))
                    if eb and ee:
                        return res
                    continue
                for fld in ('body', 'orelse', 'finalbody'):
                    if isinstance(getattr(x, fld, None), list) and not isinstance(x, (ast.FunctionDef, ast.ClassDef)):
                        setattr(x, fld, conv(getattr(x, fld)) or ([ast.Pass()] if fld == 'body' else []))
                res.append(x)
            return res
        out = conv(out)
        for st in out:
            ast.fix_missing_locations(st)
        return out, retname

    def _expand_stmt(self, st):
        """-> list of statements replacing st"""
        # helper call as a statement / assigned / returned
        call = None
        if isinstance(st, (ast.Expr, ast.Assign, ast.Return)) and isinstance(st.value, ast.Call) \
                and isinstance(st.value.func, ast.Name) and st.value.func.id in self.helpers:
            call = st.value
        if call is not None:
            body, ret = self._inline(call)
            body = self.block(body)
            if isinstance(st, ast.Assign):
                body.append(ast.Assign(targets=st.targets, value=ast.Name(id=ret, ctx=ast.Load())))
            elif isinstance(st, ast.Return):
                body.append(ast.Return(value=ast.Name(id=ret, ctx=ast.Load())))
            for b in body:
                for n in ast.walk(b):
                    if not hasattr(n, 'lineno') or True:
                        n.lineno = st.lineno
                        n.end_lineno = getattr(st, 'end_lineno', st.lineno)
                        n.col_offset = getattr(st, 'col_offset', 0)
            return body
        if isinstance(st, (ast.Expr, ast.Assign, ast.AugAssign, ast.Return)):
            # helper calls nested inside the statement's expression (`rows.append(helper(row))`): hoisted into temporaries in front of the statement, in the
            # order they appear (argument evaluation order), unless they sit in a part that is evaluated conditionally or repeatedly
            nested = [n for n in ast.walk(st) if isinstance(n, ast.Call) and isinstance(n.func, ast.Name) and n.func.id in self.helpers and n is not getattr(st, 'value', None)]
            if nested:
                for n in nested:
                    cur = getattr(n, '_parent', None)
                    while cur is not None and cur is not st:
                        if isinstance(cur, (ast.IfExp, ast.BoolOp, ast.ListComp, ast.GeneratorExp, ast.SetComp, ast.DictComp, ast.Lambda)):
                            raise AnalysisError(f'line {st.lineno}: helper {n.func.id} is called inside a conditional / repeated expression - not modelled')
                        cur = getattr(cur, '_parent', None)
                pre = []
                repl = {}
                for n in sorted(nested, key=lambda x: (x.lineno, x.col_offset)):
                    self.uid += 1
                    tmp = f'_hoisted__h{self.uid}'
                    pre.append(ast.Assign(targets=[ast.Name(id=tmp, ctx=ast.Store())], value=n, lineno=st.lineno, col_offset=0))
                    repl[id(n)] = tmp

                class Hoist(ast.NodeTransformer):
                    def visit_Call(self_, node):
                        if id(node) in repl:
                            return ast.Name(id=repl[id(node)], ctx=ast.Load())
                        return self_.generic_visit(node)
                st2 = Hoist().visit(st)
                out = []
                for a in pre:
                    ast.fix_missing_locations(a)
                    out.extend(self._expand_stmt(a))
                ast.fix_missing_locations(st2)
                out.extend(self._expand_stmt(st2))
                return out
        for n in ast.walk(st):
            if n is not st and isinstance(n, ast.Call) and isinstance(n.func, ast.Name) and n.func.id in self.helpers \
                    and not isinstance(st, (ast.If, ast.For, ast.While, ast.With, ast.Try)):
                raise AnalysisError(f'line {st.lineno}: helper {n.func.id} is called inside an expression - not modelled')
        if isinstance(st, ast.For) and isinstance(st.iter, ast.Name) and st.iter.id in self.const_seqs:
            st.iter = self.const_seqs[st.iter.id]
        if isinstance(st, ast.For) and isinstance(st.iter, (ast.Tuple, ast.List)) and st.iter.elts and \
                all(isinstance(e, ast.Constant) for e in st.iter.elts) and isinstance(st.target, ast.Name) and not st.orelse \
                and not any(isinstance(x, (ast.Continue, ast.Break)) for inner in ast.walk(st) if isinstance(inner, (ast.For, ast.While)) and inner is not st
                            for x in ast.walk(inner)):
            if any(isinstance(x, ast.Break) for x in ast.walk(st)):
                # with `break`: the later iterations run only on the paths that do not break - built from the last iteration backwards
                after = []
                for e in reversed(st.iter.elts):
                    body = [_Subst({st.target.id: e}).visit(b) for b in clone(st.body)]
                    after = _structure_exits(body, after)
                return self.block(after)
            out = []
            for e in st.iter.elts:
                body = _structure_continue(clone(st.body))
                body = [_Subst({st.target.id: e}).visit(b) for b in body]
                out.extend(self.block(body))
            return out
        for fld in ('body', 'orelse', 'finalbody'):
            if hasattr(st, fld) and isinstance(getattr(st, fld), list) and not isinstance(st, (ast.FunctionDef, ast.ClassDef)):
                setattr(st, fld, self.block(getattr(st, fld)))
        if isinstance(st, ast.Try):
            for h in st.handlers:
                h.body = self.block(h.body)
        return [st]

    def block(self, stmts):
        out = []
        for st in stmts:
            for x in self._expand_stmt(st):
                x = _Fold().visit(x)
                out.append(x)
        return out


def renumber(stmts, parent):
    """fresh _parent links and a total execution-order key _seq for a normalised statement list"""
    seq = [0]

    def go(n, par):
        n._parent = par
        seq[0] += 1
        n._seq = seq[0]
        for c in ast.iter_child_nodes(n):
            go(c, n)
    for st in stmts:
        go(st, parent)


_cache = {}


def walker_for(src):
    from .source import memo_on
    return memo_on(src, 'walker', lambda: WalkerModel(src))
