"""C06 - SQL rendered through SQLAlchemy means the same as the parsed statement.

Execution equivalence is NOT decided.  Decided are the clauses the statement names as structural - DISTINCT,
aliases, join kind and sort direction preserved, set operations, clause completeness - as exhaustiveness /
table-agreement rules between the grammar's finite vocabularies and the renderer's dispatch code.
"""
import ast
import itertools

from ..source import AnalysisError, norm, dotted, const_str, walk_no_nested
from ..grammar import load_dialect, DIALECTS
from ..pymodel import model_for
from ..cfg import class_named, function_named
from ..lexmodel import spelling, language
from .. import peval

FILE = 'mindsdb_sql/render/sqlalchemy_render.py'

# reference: join kind -> (SQLAlchemy method, full flag); None = cannot be expressed, must be refused
JOIN_REF = {
    'JOIN': ('join', False), 'INNER JOIN': ('join', False), 'CROSS JOIN': ('join', False),
    'LEFT JOIN': ('outerjoin', False), 'LEFT OUTER JOIN': ('outerjoin', False),
    'FULL JOIN': ('outerjoin', True), 'FULL OUTER JOIN': ('outerjoin', True),
    'RIGHT JOIN': None, 'OUTER JOIN': None, 'RIGHT OUTER JOIN': None,
}
SETOP_REF = {('Union', True): 'sa.union', ('Union', False): 'sa.union_all', ('Intersect', True): 'sa.intersect',
             ('Intersect', False): 'sa.intersect_all', ('Except', True): 'sa.except_', ('Except', False): 'sa.except_all'}
# `+`: SQLAlchemy's __add__ is dispatched on operand TYPES (over a string-typed operand it is a concatenation: `||` / concat()), so the written operator is kept
# only by the generic arg0.op('+')(arg1) - reference knowledge about the library, like the join table
# `/`: SQLAlchemy >= 2.0 (required by the repository: requirements.txt) defines Python's `/` on elements as TRUE division and renders `a / (b + 0.0)` (sqlite) or
# `a / CAST(b AS NUMERIC)` (postgresql) - not the `/` of the statement (integer division of integers on those targets); the operator as written is `op('/')`.
# Generic operators take part in SQLAlchemy's bracketing only through the precedence they are given: sqlalchemy.sql.operators._PRECEDENCE has add / sub = 7,
# mul / truediv / mod = 8, comparisons = 5, AND = 3, OR = 2, and an operand is bracketed exactly when its operator's precedence is lower.
GENERIC_PRECEDENCE = {'+': 7, '/': 8}
OP_REF = {'+': 'generic:+', '-': '__sub__', '*': '__mul__', '/': 'generic:/', '%': '__mod__', '=': '__eq__', '!=': '__ne__',
          '<>': '__ne__', '>': '__gt__', '<': '__lt__', '>=': '__ge__', '<=': '__le__', 'is': 'is_', 'is not': 'is_not',
          'like': 'like', 'not like': ('notlike', 'not_like'), 'in': 'in_', 'not in': ('notin_', 'not_in'), '||': 'concat'}
BOOL_REF = {'and': 'sa.and_', 'or': 'sa.or_'}
# fields of the statement classes that carry meaning and can be set by the parsers; 'exempt' = not SQL semantics
EXEMPT_FIELDS = {('Select', 'using'): 'MindsDB model parameters, not SQL', ('Select', 'modifiers'): 'MindsDB hints, not SQL',
                 ('Insert', 'is_plain'): 'rendering hint', ('Join', 'implicit'): 'read (is_implicit)',
                 ('Update', 'from_select_alias'): 'only with from_select, which is refused',
                 ('Function', 'alias'): 'alias read via t.alias', ('TableColumn', 'name'): 'read'}
HANDLERS = {
    'Select': [('prepare_select', 'param')], 'WindowFunction': [('to_expression', 'branch')], 'Function': [('to_function', 'param')],
    'Case': [('prepare_case', 'param')], 'TypeCast': [('to_expression', 'branch')], 'OrderBy': [('to_order_by', 'loop:order_by')],
    'Join': [('prepare_join', 'param')], 'CommonTableExpression': [('prepare_select', 'loop:node.cte')],
    'Insert': [('prepare_insert', 'param')], 'Update': [('prepare_update', 'param')], 'Delete': [('prepare_delete', 'param')],
    'CreateTable': [('prepare_create_table', 'param')], 'TableColumn': [('prepare_create_table', 'loop:ast_query.columns')],
    'DropTables': [('prepare_drop_table', 'param')],
}
CLAUSE_FIELDS = {
    'Select': ['targets', 'distinct', 'from_table', 'where', 'group_by', 'having', 'order_by', 'limit', 'offset', 'cte', 'mode'],
    'WindowFunction': ['function', 'partition', 'order_by', 'modifier'],
    'Function': ['args', 'distinct', 'from_arg', 'namespace'],
    'Case': ['arg', 'rules', 'default'],
    'TypeCast': ['type_name', 'arg', 'precision'],
    'OrderBy': ['field', 'direction', 'nulls'],
    'Join': ['left', 'right', 'join_type', 'condition'],
    'CommonTableExpression': ['name', 'query', 'columns'],
    'Insert': ['table', 'columns', 'values', 'from_select'],
    'Update': ['table', 'update_columns', 'where', 'from_select', 'keys'],
    'Delete': ['table', 'where'],
    'CreateTable': ['name', 'columns', 'from_select', 'is_replace', 'if_not_exists'],
    'TableColumn': ['type', 'default', 'is_primary_key', 'nullable', 'length'],
    'DropTables': ['tables', 'if_exists', 'only_temporary'],
}


def join_vocabulary(ctx):
    out = set()
    for d in DIALECTS:
        g = load_dialect(ctx.src, d)
        for p in g.prods_of('join_clause'):
            words = []
            for s in p.rhs:
                w = spelling(g.lexer, s)
                ctx.need(w is not None, f'{d}: cannot spell token {s}')
                words.append(w.upper())
            out.add(' '.join(words))
        ctx.need(g.prods_of('join_clause'), f'{d}: nonterminal join_clause not found')
    # the implicit (comma) join uses JoinType.INNER_JOIN
    out.add('INNER JOIN')
    return sorted(out)


def interpret_join(ctx, cls, ps, join_type):
    """prepare_select interpreted on `SELECT * FROM a <join_type> b ON c` with a generative stand-in for the SQLAlchemy select: which join method is
    called with which flags, or which exception ends the rendering"""
    from ..interp import Interp, Obj, Raised, Env
    from ..interp import class_members
    methods = {'SqlalchemyRender': class_members(cls)}
    query = Obj('SaSelect', _fluent=True, _log=[])
    a, b = Obj('Identifier', parts=['a'], alias=None), Obj('Identifier', parts=['b'], alias=None)
    cond = Obj('BinaryOperation', op='=', args=[Obj('Identifier', parts=['a', 'x'], alias=None), Obj('Identifier', parts=['b', 'x'], alias=None)], alias=None)
    join = Obj('Join', left=a, right=b, join_type=join_type, condition=cond, implicit=False, alias=None)
    node = Obj('Select', targets=[Obj('Star')], distinct=False, from_table=join, where=None, group_by=None, having=None, order_by=None, limit=None, offset=None,
               cte=None, mode=None, using=None, alias=None, parentheses=False)
    stubs = {'sa.select': lambda it, *c: query, 'self.to_expression': lambda it, t: ('expr', id(t)), 'self.to_table': lambda it, t: ('table', t.parts[-1]),
             'sa.text': lambda it, t: ('text', t), 'self.get_alias': lambda it, x: x}
    it = Interp.for_file(ctx.src, FILE, {'Join': set(), 'Select': set(), 'Identifier': set(), 'Union': set(), 'Intersect': set(), 'Except': set(), 'NativeQuery': set()}, stubs, methods=methods)
    out = {}
    try:
        it.call_function(ps, [Obj('SqlalchemyRender'), node], {}, Env())
    except Raised as r:
        out['raises'] = r.exc_name
        return out
    joins = [(n, a_, k) for n, a_, k in query.attrs['_log'] if n in ('join', 'outerjoin', 'join_from', 'outerjoin_from')]
    if len(joins) != 1:
        out['method'] = f'{len(joins)} join calls'
        out['full'] = None
        return out
    n, a_, k = joins[0]
    out['method'] = 'outerjoin' if (n.startswith('outerjoin') or k.get('isouter')) else 'join'
    out['full'] = bool(k.get('full', False))
    out['on'] = a_[1] if len(a_) > 1 else k.get('onclause')
    return out


def clause_table(ctx, cls, ps):
    """prepare_select interpreted on single-table selects over a space of clause values (generative stand-in for the SQLAlchemy select logs every call):
    each clause of the tree must arrive at the select with its own value - also the falsy ones (LIMIT 0, empty string constants)."""
    import itertools
    from ..interp import Interp, Obj, Raised, Env
    from ..interp import class_members
    methods = {'SqlalchemyRender': class_members(cls)}
    nrows = 0

    def C(v):
        return Obj('Constant', value=v, alias=None)
    for limit, offset, distinct, where, group, having, order, mode in itertools.product(
            (None, 0, 5), (None, 0, 3), (False, True), (None, 'w'), (None, 'g'), (None, 'h'), (None, 'o'), (None, 'FOR UPDATE')):
        # keep the table small: vary pairs around LIMIT/OFFSET fully, the others one at a time
        others = [distinct, where, group, having, order, mode]
        if sum(1 for x in others if x) > 1:
            continue
        query = Obj('SaSelect', _fluent=True, _log=[])
        node = Obj('Select', targets=[Obj('Star')], distinct=distinct, from_table=Obj('Identifier', parts=['t'], alias=None),
                   where=Obj('Cond', tag='w') if where else None, group_by=[Obj('Col', tag='g')] if group else None, having=Obj('Cond', tag='h') if having else None,
                   order_by=[Obj('OrderBy', tag='o')] if order else None, limit=C(limit) if limit is not None else None,
                   offset=C(offset) if offset is not None else None, cte=None, mode=mode, using=None, alias=None, parentheses=False)
        stubs = {'sa.select': lambda it, *c: query, 'self.to_expression': lambda it, t: ('expr', getattr(t, 'tag', None) if isinstance(t, Obj) and 'tag' in t.attrs else id(t)),
                 'self.to_table': lambda it, t: ('table', 't'), 'self.to_order_by': lambda it, o: [('order', x.tag) for x in o], 'self.get_alias': lambda it, x: x}
        it = Interp.for_file(ctx.src, FILE, {'Join': set(), 'Select': set(), 'Identifier': set(), 'Union': set(), 'Intersect': set(), 'Except': set(), 'NativeQuery': set()}, stubs, methods=methods)
        label = f'limit={limit} offset={offset} distinct={distinct} where={bool(where)} group_by={bool(group)} having={bool(having)} order_by={bool(order)} mode={mode}'
        try:
            it.call_function(ps, [Obj('SqlalchemyRender'), node], {}, Env())
        except Raised as r:
            ctx.ob('C06.clause-values', label, False, f'prepare_select raises {r.exc_name} on a plain select [{label}]', file=FILE, line=ps.lineno)
            continue
        nrows += 1
        log = query.attrs['_log']
        calls = {}
        for n, a, k in log:
            calls.setdefault(n, []).append((a, k))
        problems = []
        if limit is not None and calls.get('limit') != [((limit,), {})]:
            problems.append(f'LIMIT {limit} arrives as {calls.get("limit")}')
        if limit is None and 'limit' in calls:
            problems.append('a LIMIT appears that the tree does not have')
        if offset and calls.get('offset') != [((offset,), {})]:
            problems.append(f'OFFSET {offset} arrives as {calls.get("offset")}')
        if offset is None and 'offset' in calls:
            problems.append('an OFFSET appears that the tree does not have')
        if bool(distinct) != ('distinct' in calls):
            problems.append(f'DISTINCT={distinct} but distinct() called {len(calls.get("distinct", []))}x')
        if bool(where) != bool(calls.get('filter') or calls.get('where')):
            problems.append('WHERE is not applied exactly when present')
        if bool(group) != ('group_by' in calls):
            problems.append('GROUP BY is not applied exactly when present')
        if bool(having) != ('having' in calls):
            problems.append('HAVING is not applied exactly when present')
        if bool(order) != ('order_by' in calls):
            problems.append('ORDER BY is not applied exactly when present')
        if bool(mode) != ('with_for_update' in calls):
            problems.append('FOR UPDATE is not applied exactly when present')
        ctx.ob('C06.clause-values', label, not problems,
               f'[{label}] {"; ".join(problems)}: the rendered select has other clauses than the tree (a falsy value such as LIMIT 0 is still a clause)', file=FILE,
               line=ps.lineno, witness='select * from t limit 0')
    ctx.setcount('clause_value_rows', nrows)


def cte_table(ctx, cls, ps):
    """prepare_select interpreted on a select with a WITH clause, for every dialect name SQLAlchemy knows the renderer's targets by: each common table expression
    must be made from its own query and attached to the select it belongs to *at that level* (`nesting=True`).  Reference (SQLAlchemy HasCTE.cte / add_cte):
    without nesting the WITH list is moved to the top of the whole statement, where the name also captures references outside the sub-select it was written in."""
    from ..interp import Interp, Obj, Raised, Env
    from ..interp import class_members
    methods = {'SqlalchemyRender': class_members(cls)}
    nrows = 0
    for dname in ('mysql', 'postgresql', 'sqlite', 'mssql', 'oracle'):
        made = []

        def mk(it, *c, made=made):
            q = Obj('SaSelect', _fluent=True, _log=[], _n=len(made))
            made.append(q)
            return q
        inner = Obj('Select', targets=[Obj('Star')], distinct=False, from_table=Obj('Identifier', parts=['u'], alias=None), where=None, group_by=None, having=None,
                    order_by=None, limit=None, offset=None, cte=None, mode=None, using=None, alias=None, parentheses=False)
        cte = Obj('CommonTableExpression', name=Obj('Identifier', parts=['t'], alias=None), query=inner, columns=None)
        node = Obj('Select', targets=[Obj('Star')], distinct=False, from_table=Obj('Identifier', parts=['t'], alias=None), where=None, group_by=None, having=None,
                   order_by=None, limit=None, offset=None, cte=[cte], mode=None, using=None, alias=None, parentheses=False)
        stubs = {'sa.select': mk, 'self.to_expression': lambda it, t: ('expr', id(t)), 'self.to_table': lambda it, t: ('table', t.parts[-1]),
                 'self.get_alias': lambda it, x: ('alias', x.parts[-1]) if isinstance(x, Obj) else x}
        it = Interp.for_file(ctx.src, FILE, {'Join': set(), 'Select': set(), 'Identifier': set(), 'Union': set(), 'Intersect': set(), 'Except': set(), 'NativeQuery': set()},
                             stubs, methods=methods)
        label = f'dialect={dname}'
        try:
            it.call_function(ps, [Obj('SqlalchemyRender', dialect=Obj('Dialect', name=dname)), node], {}, Env())
        except Raised as r:
            ctx.ob('C06.cte-scope', label, r.exc_name == 'NotImplementedError', f'[{label}] prepare_select raises {r.exc_name} on WITH t AS (SELECT * FROM u) SELECT * FROM t',
                   file=FILE, line=ps.lineno)
            nrows += 1
            continue
        nrows += 1
        ctes = [(q, a, k) for q in made for n, a, k in q.attrs['_log'] if n == 'cte']
        adds = [(q, a, k) for q in made for n, a, k in q.attrs['_log'] if n == 'add_cte']
        ok = len(ctes) == 1 and len(adds) == 1 and ctes[0][0] is not adds[0][0] and bool(ctes[0][2].get('nesting', ctes[0][1][1] if len(ctes[0][1]) > 1 else False)) \
            and (('alias', 't') in ctes[0][1] or ctes[0][2].get('name') == ('alias', 't'))
        ctx.ob('C06.cte-scope', label, ok,
               f'[{label}] WITH t AS (SELECT * FROM u) SELECT * FROM t: expected <select>.add_cte(<select of the cte>.cte(<name t>, nesting=True)); got '
               f'cte{[(a, k) for _, a, k in ctes]} add_cte x{len(adds)}: a common table expression that is not nested is written at the top of the whole statement - inside a '
               f'sub-select its name then also captures a table of the same name outside', file=FILE, line=ps.lineno,
               witness='select a from t where a in (with t as (select a from u where a > 1) select a from t)')
    ctx.setcount('cte_rows', nrows)
    ctx.floor('cte_rows', 5)


def run(ctx):
    ctx.explanation = (
        'Exhaustiveness / table agreement between the grammars\' finite vocabularies and the renderer\'s dispatch code: '
        '(join-kind) the language of join_clause is enumerated from the three grammars and the dispatch fragment of '
        'prepare_select is partially evaluated for each string against the reference (method, full) table - kinds SQLAlchemy '
        'cannot express must be refused with NotImplementedError; (setop) prepare_union maps class x unique to the 6 set '
        'constructors; (order) one shared order-by translation handles ASC/DESC and NULLS FIRST/LAST for SELECT and OVER(); '
        '(operator-table) the methods/functions tables of to_expression agree with the reference for every operator spelling '
        'the grammars produce; (clause-coverage) every semantic field of the statement classes is read on the rendering path '
        'or refused; (alias-kept) every to_expression branch for an aliasable node reads t.alias; (distinct) DISTINCT reaches '
        'query.distinct()/arg.distinct(). NOT decided: execution equivalence on data.')
    ctx.not_decided = ['row-set equality of the rendered text on a reference engine', 'SQLAlchemy\'s own compilation (trusted)']
    ctx.assumptions = ['SQLAlchemy semantics of join/outerjoin(full=), union*/intersect*/except_*, asc/desc, nullsfirst/nullslast']
    tree = ctx.src.tree(FILE)
    cls = class_named(tree, 'SqlalchemyRender')
    ctx.need(cls is not None, 'SqlalchemyRender not found')
    ps = function_named(cls, 'prepare_select')
    te = function_named(cls, 'to_expression')
    pu = function_named(cls, 'prepare_union')
    ctx.need(ps and te and pu, 'prepare_select / to_expression / prepare_union not found')

    # join kinds ---------------------------------------------------------------------------------------------------
    vocab = join_vocabulary(ctx)
    ctx.setcount('join_strings', len(vocab))
    # module-level lookup tables are made available to the partial evaluator
    for jt in vocab:
        ctx.need(jt in JOIN_REF, f'join kind {jt!r} produced by the grammar has no reference entry')
        ref = JOIN_REF[jt]
        got = interpret_join(ctx, cls, ps, jt)
        if ref is None:
            ok = got.get('raises') == 'NotImplementedError'
            ctx.ob('C06.join-kind', jt, ok,
                   f'`{jt}` cannot be expressed with SQLAlchemy\'s join()/outerjoin(); the renderer must refuse it with '
                   f'NotImplementedError (so that the fallback prints the tree\'s own SQL) but it '
                   f'{"raises " + got["raises"] if got.get("raises") else "renders it as " + str((got.get("method"), got.get("full")))}',
                   file=FILE, line=ps.lineno, witness=f'select * from a {jt.lower()} b on a.x = b.x')
        else:
            ok = (got.get('method'), got.get('full')) == ref and not got.get('raises')
            ctx.ob('C06.join-kind', jt, ok,
                   f'`{jt}` must be rendered with query.{ref[0]}(..., full={ref[1]}) but the dispatch gives '
                   f'{"an exception " + got["raises"] if got.get("raises") else (got.get("method"), got.get("full"))}: the join kind '
                   f'changes and with it the rows returned', file=FILE, line=ps.lineno,
                   witness=f'select * from a {jt.lower()} b on a.x = b.x')
    # set operations: see the interpreted table below (two operands and chains) --------------------------------------------------------------
    clause_table(ctx, cls, ps)
    cte_table(ctx, cls, ps)
    # every occurrence of a table in FROM is its own SQLAlchemy object: SQLAlchemy correlates sub-queries by object identity, so one shared table object makes an
    # inner FROM item disappear (`exists (select 1 from t, s ..)` inside a query FROM t loses its own t)
    tt = function_named(cls, 'to_table')
    ctx.need(tt is not None, 'SqlalchemyRender.to_table not found')
    from ..saelem import Elem
    from ..interp import Interp, Obj, Raised, Env
    init = function_named(cls, '__init__')
    containers = {}
    for n_ in (ast.walk(init) if init is not None else []):
        if isinstance(n_, ast.Assign) and len(n_.targets) == 1 and isinstance(n_.targets[0], ast.Attribute) and norm(n_.targets[0].value) == 'self' \
                and ((isinstance(n_.value, (ast.Dict, ast.List, ast.Set)) and not getattr(n_.value, 'keys', getattr(n_.value, 'elts', None)))
                     or (isinstance(n_.value, ast.Call) and dotted(n_.value.func) in ('dict', 'list', 'set') and not n_.value.args)):
            containers[n_.targets[0].attr] = {'Dict': dict, 'List': list, 'Set': set}.get(type(n_.value).__name__, None) or {'dict': dict, 'list': list, 'set': set}[dotted(n_.value.func)]
    for with_alias in (False, True):
        self_ = Obj('SqlalchemyRender', dialect=Obj('Dialect', name='postgresql'), **{k: v() for k, v in containers.items()})
        made = []
        stubs = {'sa.table': lambda it, *a, **k: (made.append(Elem('table', a)), made[-1])[1], 'aliased': lambda it, t_, **k: Elem('aliased', None, [t_]),
                 'self.get_alias': lambda it, a: a, 'self.get_table_name': lambda it, n_: ('s', n_.parts[-1])}
        outs = []
        for _ in range(2):
            node_ = Obj('Identifier', parts=['s', 't'], alias=Obj('Identifier', parts=['a'], alias=None) if with_alias else None)
            it = Interp.for_file(ctx.src, FILE, {'Identifier': set(), 'Select': set(), 'Union': set(), 'Intersect': set(), 'Except': set()}, stubs)
            try:
                outs.append(it.call_function(tt, [self_, node_], {}, Env()))
            except Raised as r:
                outs.append(f'<{r.exc_name}>')
        base = [o.args[0] if isinstance(o, Elem) and o.kind == 'aliased' else o for o in outs]
        ok = len(made) == 2 and all(isinstance(b, Elem) for b in base) and base[0] is not base[1]
        ctx.ob('C06.from-item-fresh', f'to_table:{"aliased" if with_alias else "plain"}', ok,
               f'two occurrences of the table s.t are translated to {"the same" if len(base) == 2 and base[0] is base[1] else "these"} SQLAlchemy object(s) {outs}: every '
               f'occurrence must be a new sa.table(...), or SQLAlchemy treats the inner occurrence as a correlation to the outer one and drops it from the inner FROM',
               file=FILE, line=tt.lineno, witness='select * from t where exists (select 1 from t, s where s.a = t.a)')
    # IS / IS NOT with NULL, TRUE, FALSE: SQLAlchemy computes NOT (x IS y) by swapping IS <-> IS NOT, which it can do only when y is the keyword element
    # (sa.null() / sa.true() / sa.false() or Python None); for a bound value the "negation" of `x IS :p` is `x IS :p` again (library behaviour, reference knowledge
    # like the join table), so NOT (a IS NULL) would select the rows where a IS NULL
    for op_, v_ in itertools.product(('is', 'is not', 'IS', 'IS NOT'), (None, True, False)):
        node_ = Obj('BinaryOperation', op=op_, args=[Obj('Identifier', parts=['a'], alias=None, parentheses=False), Obj('Constant', value=v_, alias=None, parentheses=False)],
                    alias=None, parentheses=False)
        from ..saelem import sa_stubs, elem_getattr
        stubs = sa_stubs()
        stubs.update({'self.get_alias': lambda it, x: x, 'self.to_column': lambda it, parts: Elem('column', tuple(parts))})
        it = Interp.for_file(ctx.src, FILE, {'BinaryOperation': {'Operation'}, 'Identifier': set(), 'Constant': set()}, stubs)
        it.stubs['getattr'] = elem_getattr
        try:
            res = it.call_function(te, [Obj('SqlalchemyRender', dialect=Obj('Dialect', name='postgresql')), node_], {}, Env())
            operand = res.args[1] if isinstance(res, Elem) and len(res.args) == 2 else res
            kind_ = operand.kind if isinstance(operand, Elem) else ('None' if operand is None else repr(operand))
        except Raised as r:
            kind_ = f'<{r.exc_name}>'
        want_ = {None: ('null', 'None'), True: ('true',), False: ('false',)}[v_]
        ctx.ob('C06.is-operand', f'a {op_} {v_!r}', kind_ in want_ or kind_ == '<NotImplementedError>',
               f'`a {op_} {v_}` is built with the operand {kind_}: it must be the keyword element {want_[0]}(), not a bound value - SQLAlchemy renders NOT (a {op_} ..) by '
               f'swapping IS and IS NOT, and for a bound operand the swap is the identity: `NOT (a IS NULL)` is rendered as `a IS NULL`', file=FILE, line=te.lineno,
               witness='select * from t where not (a is null)')
    # comparison operators keep their meaning only if both operands are ordinary elements: C07's gateway table (every constant, NULL included, is one
    # sa.literal) is re-run; a NULL element (sa.null()) makes SQLAlchemy write `= NULL` / `<> NULL` as IS [NOT] NULL, which selects different rows
    from .. import core
    from . import C07
    sub = core.Ctx('C07', ctx.src, ctx.tier)
    C07.check_value_gateway(sub, ctx.src.tree(FILE), cls)
    nvg = sub.rules.get('C07.value-gateway', (0, 0))[0]
    ctx.setcount('operand_gateway_rows', nvg)
    ctx.floor('operand_gateway_rows', 40)
    ctx.ob('C06.operand-elements', 'all', True, '')
    for f in sub.findings:
        ctx.ob('C06.operand-elements', f.construct, False, f'the operator keeps its SQL meaning only over ordinary literal elements: {f.msg}', file=f.file, line=f.line,
               witness='select * from t where b = null')
    # nested set operations: the rendered expression must have the structure of the tree (each link keeps its own ALL flag)
    from ..interp import Interp, Obj, Raised, Env
    SA = {('Union', True): 'union', ('Union', False): 'union_all', ('Intersect', True): 'intersect', ('Intersect', False): 'intersect_all',
          ('Except', True): 'except_', ('Except', False): 'except_all'}

    def leaf(name):
        return Obj('Select', _name=name, alias=None, parentheses=False)

    def setop(kind, unique, l, r, alias=None):
        return Obj(kind, left=l, right=r, unique=unique, alias=alias, parentheses=False)

    def reference(n):
        if n.kind == 'Select':
            return n.attrs['_name']
        return (SA[(n.kind, n.unique)], reference(n.left), reference(n.right))
    trees = []
    for (k1, u1) in sorted(SETOP_REF):
        trees.append((f'{k1}:unique={u1}', setop(k1, u1, leaf('a'), leaf('b'))))
    for k1, u1, k2, u2 in itertools.product(('Union', 'Intersect', 'Except'), (True, False), ('Union', 'Intersect', 'Except'), (True, False)):
        trees.append((f'(a {k1}{"" if u1 else " ALL"} b) {k2}{"" if u2 else " ALL"} c', setop(k2, u2, setop(k1, u1, leaf('a'), leaf('b')), leaf('c'))))
    trees.append(('a UNION (b UNION ALL c)', setop('Union', True, leaf('a'), setop('Union', False, leaf('b'), leaf('c')))))
    trees.append(('((a UNION b) UNION ALL c) UNION d', setop('Union', True, setop('Union', False, setop('Union', True, leaf('a'), leaf('b')), leaf('c')), leaf('d'))))
    for label, t in trees:
        stubs = {}
        for nm in set(SA.values()):
            stubs[f'sa.{nm}'] = (lambda nm_: (lambda it, *a: (nm_,) + tuple(a)))(nm)

        def prep_select(it, node):
            if node.kind in ('Union', 'Intersect', 'Except'):
                return it.call_function(pu, [Obj('SqlalchemyRender'), node], {}, Env())
            return node.attrs['_name']
        stubs['self.prepare_select'] = prep_select
        it = Interp.for_file(ctx.src, FILE, {'Union': set(), 'Intersect': set(), 'Except': set()}, stubs)
        try:
            got = it.call_function(pu, [Obj('SqlalchemyRender'), t], {}, Env())
        except Raised as r:
            got = f'<{r.exc_name}>'
        want = reference(t)
        if ':unique=' in label:
            ctx.ob('C06.setop', label, got == want,
                   f'{t.kind}{"" if t.unique else " ALL"} is rendered with {got} instead of {want}: duplicate handling / the set operation changes',
                   file=FILE, line=pu.lineno, witness=f'select 1 {t.kind.upper()}{"" if t.unique else " ALL"} select 2')
            continue
        ctx.ob('C06.setop-structure', label, got == want,
               f'`{label}` is rendered as {got}, the tree says {want}: every link of a chain of set operations keeps its own operator and its own ALL / '
               f'DISTINCT flag and its own grouping', file=FILE, line=pu.lineno, witness='select a from t union select a from u union all select a from v')
    # order: the order-by translation is interpreted on lists of terms; each term must get exactly its own direction and position of nulls ------------------
    class Term:
        _interp_safe = True

        def __init__(self, name, mods=()):
            self.name, self.mods = name, tuple(mods)

        def desc(self):
            return Term(self.name, self.mods + ('desc',))

        def asc(self):
            return Term(self.name, self.mods + ('asc',))

        def nullsfirst(self):
            return Term(self.name, self.mods + ('nullsfirst',))

        def nullslast(self):
            return Term(self.name, self.mods + ('nullslast',))

        nulls_first, nulls_last = nullsfirst, nullslast

        def sig(self):
            return (self.name, self.mods)
    tob = function_named(cls, 'to_order_by')
    ob_sites = [fn for fn in cls.body if isinstance(fn, ast.FunctionDef) and any(
        isinstance(x, ast.Attribute) and x.attr in ('direction', 'nulls') for x in ast.walk(fn))]
    ctx.setcount('order_by_translations', len(ob_sites))
    ctx.need(ob_sites, 'no order-by translation found in the renderer')
    DIRS = {'default': (), 'ASC': ('asc',), 'DESC': ('desc',), 'desc': ('desc',), 'asc': ('asc',)}
    NULLS = {'default': (), 'NULLS FIRST': ('nullsfirst',), 'NULLS LAST': ('nullslast',), 'nulls first': ('nullsfirst',), 'nulls last': ('nullslast',)}
    lists = [[(d, n)] for d in DIRS for n in NULLS]
    lists += [[('default', 'NULLS LAST'), ('default', 'default'), ('default', 'default')], [('DESC', 'default'), ('default', 'default'), ('ASC', 'NULLS FIRST')],
              [('DESC', 'NULLS FIRST'), ('ASC', 'NULLS LAST'), ('default', 'default'), ('DESC', 'default')], []]
    ctx.need(tob is not None, 'SqlalchemyRender.to_order_by not found')
    for fn in [tob]:
        for terms in lists:
            order_by = [Obj('OrderBy', field=Obj('Identifier', parts=[f'c{i}'], alias=None), direction=d, nulls=n) for i, (d, n) in enumerate(terms)]
            stubs = {'self.to_expression': lambda it, node: Term(node.parts[0]),
                     'sa.nullsfirst': lambda it, c: c.nullsfirst(), 'sa.nullslast': lambda it, c: c.nullslast(),
                     'sa.nulls_first': lambda it, c: c.nullsfirst(), 'sa.nulls_last': lambda it, c: c.nullslast(),
                     'sa.desc': lambda it, c: c.desc(), 'sa.asc': lambda it, c: c.asc()}
            it = Interp.for_file(ctx.src, FILE, {}, stubs)
            label = ', '.join(f'c{i}{"" if d == "default" else " " + d}{"" if n == "default" else " " + n}' for i, (d, n) in enumerate(terms)) or '(empty)'
            if fn is not tob:
                continue            # a second translation (none today) is compared through the shared rule below
            try:
                got = it.call_function(fn, [Obj('SqlalchemyRender'), order_by], {}, Env())
                got = [g.sig() if isinstance(g, Term) else repr(g) for g in got]
            except Raised as r:
                got = f'<{r.exc_name}>'
            want = [(f'c{i}', DIRS[d] + NULLS[n]) for i, (d, n) in enumerate(terms)]
            what = 'per-term' if len(terms) > 1 else (terms[0][0] + '/' + terms[0][1] if terms else 'empty')
            ctx.ob('C06.order', f'{fn.name}:{what}:{label}', got == want,
                   f'{fn.name} translates ORDER BY {label} to {got}, the tree says {want}: every ordering term keeps its own direction and its own position of '
                   f'nulls, and nothing is carried from one term to the next', file=FILE, line=fn.lineno,
                   witness=f'select * from t order by {label.lower()}')
    ctx.need(tob is not None, 'SqlalchemyRender.to_order_by not found')
    # helpers of to_order_by (methods / module functions it calls, transitively) are part of the one translation the table above interprets
    fns_all = {m.name: m for m in cls.body if isinstance(m, ast.FunctionDef)}
    fns_all.update({n.name: n for n in tree.body if isinstance(n, ast.FunctionDef)})
    helpers_, work_ = {tob.name}, [tob]
    while work_:
        f_ = work_.pop()
        for x in ast.walk(f_):
            if isinstance(x, ast.Call):
                nm = x.func.attr if isinstance(x.func, ast.Attribute) and norm(x.func.value) in ('self', cls.name) else (x.func.id if isinstance(x.func, ast.Name) else None)
                if nm in fns_all and nm not in helpers_ and nm != 'to_expression':
                    helpers_.add(nm)
                    work_.append(fns_all[nm])
    ctx.ob('C06.order', 'single-order-translation', bool(ob_sites) and all(f.name in helpers_ for f in ob_sites),
           f'ordering terms are translated in {[f.name for f in ob_sites]}: a second translation next to to_order_by is not covered by the table above',
           file=FILE, line=tob.lineno)
    # the window's ORDER BY goes through the same translation: to_expression interpreted on a WindowFunction with a recording to_order_by
    from ..interp import Interp as _I, Obj as _O, Raised as _R, Env as _E
    from ..saelem import Elem as _Elem, sa_stubs as _sa_stubs, elem_getattr as _eg
    asked, marker = [], ['<translated order>']
    terms_ = [_O('OrderBy', field=_O('Identifier', parts=['k'], alias=None), direction='DESC', nulls='default')]
    node_ = _O('WindowFunction', function=_O('Function', op='sum', args=[], alias=None, parentheses=False), partition=None, order_by=terms_, modifier=None, alias=None,
               parentheses=False)
    stubs_ = _sa_stubs()
    stubs_.update({'self.get_alias': lambda it, x: x, 'self.to_order_by': lambda it, o: (asked.append(o), marker)[1],
                   'self.to_expression': lambda it, n_: _Elem('function', 'sum'),
                   'sa.over': lambda it, f, *a, **k: _Elem('over', dict(k), [f] + list(a))})
    it_ = _I.for_file(ctx.src, FILE, model_for(ctx.src).isa_table(), stubs_)
    it_.stubs['getattr'] = _eg
    try:
        res_ = it_.call_function(te, [_O('SqlalchemyRender', dialect=_O('Dialect', name='postgresql')), node_], {}, _E())
        uses_shared = len(asked) == 1 and asked[0] is terms_ and isinstance(res_, _Elem) and res_.kind == 'over' \
            and any(v is marker for v in list((res_.value or {}).values()) + list(res_.args))
    except _R as r_:
        uses_shared = r_.exc_name == 'NotImplementedError'
    ctx.ob('C06.order', 'WindowFunction:uses-order-translation', uses_shared,
           'the WindowFunction branch does not translate its ORDER BY terms with the order-by translation (to_order_by asked '
           f'{len(asked)} time(s); its result must be what sa.over receives)', file=FILE, line=te.lineno)
    # operator table: to_expression interpreted on `a <op> b` for every operator spelling the grammars produce, with recording element stand-ins -------------
    spellings = set()
    for d in DIALECTS:
        g = load_dialect(ctx.src, d)
        for p in g.productions[1:]:
            if p.name == 'expr' and len(p.rhs) >= 3 and p.rhs[0] == 'expr' and all(s in g.tokens for s in p.rhs[1:-1]) and p.rhs[-1] in ('expr', 'constant', 'LAST'):
                words = []
                for s in p.rhs[1:-1]:
                    ws, _ = language(g.lexer.rule(s).pattern, g.lexer.reflags)
                    words.append([w for w in ws if w])
                from itertools import product
                for combo in product(*words):
                    spellings.add(' '.join(' '.join(combo).lower().split()))
    ctx.setcount('operator_spellings', len(spellings))
    from ..interp import Interp, Obj, Raised, Env
    from ..saelem import Elem, sa_stubs, elem_getattr

    def translate(op):
        a, b = Obj('Identifier', parts=['a'], alias=None, parentheses=False), Obj('Identifier', parts=['b'], alias=None, parentheses=False)
        right = Obj('Tuple', items=[b], alias=None, parentheses=False) if op.lower() in ('in', 'not in') else b
        node = Obj('BinaryOperation', op=op, args=[a, right], alias=None, parentheses=False)
        stubs = sa_stubs()
        stubs.update({'self.get_alias': lambda it, x: x, 'self.to_column': lambda it, parts: Elem('column', tuple(parts))})
        it = Interp.for_file(ctx.src, FILE, {'BinaryOperation': {'Operation'}, 'Identifier': set(), 'Tuple': set()}, stubs)
        it.stubs['getattr'] = elem_getattr
        try:
            res = it.call_function(te, [Obj('SqlalchemyRender', dialect=Obj('Dialect', name='postgresql')), node], {}, Env())
        except Raised as r:
            return f'<{r.exc_name}>'
        if not (isinstance(res, Elem) and res.kind.startswith('op:') and len(res.args) == 2 and isinstance(res.args[0], Elem) and res.args[0].kind == 'column'
                and res.args[0].value == ('a',)):
            return f'<not an operation over a and b: {res!r}>'
        if res.kind.startswith('op:generic:') and op.lower() in GENERIC_PRECEDENCE:
            return res.kind[3:] + (f' [precedence {getattr(res, "precedence", 0)}]' if getattr(res, 'precedence', 0) != GENERIC_PRECEDENCE[op.lower()] else '')
        return res.kind[3:]
    for op0 in sorted(spellings):
        for op in sorted({op0, op0.upper()}):
            got = translate(op)
            if op0 in OP_REF:
                want = OP_REF[op0]
                ok = got == want or (isinstance(want, tuple) and got in want)
                ctx.ob('C06.operator-table', op, ok,
                       f'operator `{op}` is translated with `{got}` instead of `{want}`' + (f' with precedence {GENERIC_PRECEDENCE[op0]}' if op0 in GENERIC_PRECEDENCE else '') +
                       ': the rendered expression means something else' + (' (Python `/` on SQLAlchemy 2 elements is true division: `a / (b + 0.0)`; a generic operator without '
                                                                          'its precedence loses the brackets of its operands: `(a = 1) + 1` becomes `a = 1 + 1`)' if op0 in GENERIC_PRECEDENCE else ''),
                       file=FILE, line=te.lineno, witness=f'select a {op} b')
            elif op0 in BOOL_REF:
                ctx.ob('C06.operator-table', op, got == BOOL_REF[op0],
                       f'operator `{op}` is translated with {got} instead of {BOOL_REF[op0]}', file=FILE, line=te.lineno)
            else:
                ctx.ob('C06.operator-table', op, got.lower() == f'generic:{op0}' or got == '<NotImplementedError>',
                       f'operator `{op}` has no reference translation but is translated with {got} (expected: the generic arg0.op(<operator>)(arg1), or a refusal)',
                       file=FILE, line=te.lineno)
                if op == op0:
                    ctx.note(f'operator `{op}` falls to the generic arg0.op(op)(arg1) translation (listed)')
    # every branch of an isinstance dispatch is reachable by the class it names: a branch for a class whose ancestor was tested earlier (without further
    # condition) never runs, and the nodes of that class are rendered by the ancestor's rule (NOT EXISTS as EXISTS) ----------------------------------------------
    isa_real = model_for(ctx.src).isa_table()
    nbr = 0
    for fn_ in [m for m in cls.body if isinstance(m, ast.FunctionDef)]:
        for first in [n for n in ast.walk(fn_) if isinstance(n, ast.If) and not (isinstance(getattr(n, '_parent', None), ast.If) and n._parent.orelse == [n])]:
            covered = {}          # subject text -> class names already taken by an unconditional earlier test
            node_ = first
            while True:
                tst = node_.test
                if isinstance(tst, ast.Call) and dotted(tst.func) == 'isinstance' and len(tst.args) == 2:
                    subj = norm(tst.args[0])
                    names_ = [dotted(x).split('.')[-1] for x in (tst.args[1].elts if isinstance(tst.args[1], ast.Tuple) else [tst.args[1]]) if dotted(x)]
                    for cn_ in names_:
                        if cn_ not in isa_real:
                            continue
                        nbr += 1
                        shadow = sorted(({cn_} | isa_real[cn_]) & covered.get(subj, set()))
                        ctx.ob('C06.dispatch-reachable', f'{fn_.name}:{subj}:{cn_}', not shadow,
                               f'{fn_.name}: the branch `isinstance({subj}, {cn_})` comes after a branch that already takes every {shadow[0] if shadow else ""} - and {cn_} is '
                               f'one: the branch never runs, {cn_} nodes are rendered by the rule of {shadow[0] if shadow else ""}', file=FILE, line=node_.lineno,
                               witness='select * from t where not exists (select 1 from s)')
                    covered.setdefault(subj, set()).update(n_ for n_ in names_ if n_ in isa_real)
                if len(node_.orelse) == 1 and isinstance(node_.orelse[0], ast.If):
                    node_ = node_.orelse[0]
                else:
                    break
    ctx.setcount('dispatch_branches', nbr)
    ctx.floor('dispatch_branches', 25)
    # EXISTS / NOT EXISTS / NOT x / - x by interpretation, with the real class hierarchy deciding isinstance
    stmt_ = Elem('statement')
    a_ = Obj('Identifier', parts=['a'], alias=None, parentheses=False)
    rows_ = [('exists', Obj('Exists', query=Obj('Select'), op='exists', args=[], alias=None, parentheses=False), lambda r: r.kind == 'op:exists' and r.args[0] is stmt_),
             ('not exists', Obj('NotExists', query=Obj('Select'), op='not exists', args=[], alias=None, parentheses=False),
              lambda r: r.kind in ('op:__invert__', 'op:sa.not_') and isinstance(r.args[0], Elem) and r.args[0].kind == 'op:exists' and r.args[0].args[0] is stmt_),
             ('not a', Obj('UnaryOperation', op='not', args=[a_], alias=None, parentheses=False),
              lambda r: r.kind in ('op:__invert__', 'op:sa.not_') and isinstance(r.args[0], Elem) and r.args[0].kind == 'column'),
             ('NOT a', Obj('UnaryOperation', op='NOT', args=[a_], alias=None, parentheses=False),
              lambda r: r.kind in ('op:__invert__', 'op:sa.not_') and isinstance(r.args[0], Elem) and r.args[0].kind == 'column'),
             ('- a', Obj('UnaryOperation', op='-', args=[a_], alias=None, parentheses=False),
              lambda r: r.kind == 'op:__neg__' and isinstance(r.args[0], Elem) and r.args[0].kind == 'column')]
    for label_, node_, good in rows_:
        stubs = sa_stubs()
        stubs.update({'self.get_alias': lambda it, x: x, 'self.to_column': lambda it, parts: Elem('column', tuple(parts)), 'self.prepare_select': lambda it, q, *a, **k: stmt_})
        it = Interp.for_file(ctx.src, FILE, isa_real, stubs)
        it.stubs['getattr'] = elem_getattr
        try:
            res = it.call_function(te, [Obj('SqlalchemyRender', dialect=Obj('Dialect', name='postgresql')), node_], {}, Env())
            ok = isinstance(res, Elem) and bool(good(res))
            shown = repr(res) + (' of ' + repr(res.args) if isinstance(res, Elem) else '')
        except Raised as r:
            ok, shown = r.exc_name == 'NotImplementedError', f'<{r.exc_name}>'
        ctx.ob('C06.predicate-table', label_, ok, f'`{label_}` is translated to {shown}: the predicate the tree denotes is not the one rendered', file=FILE, line=te.lineno,
               witness='select * from t where not exists (select 1 from s)')
    # column references: a name of several parts is a column of a table whatever its last part spells (`e.current_date` is a column, only the bare word
    # CURRENT_DATE is the function); every part reaches to_column
    nid = 0
    for parts_ in (['a'], ['t', 'a'], ['s', 't', 'a'], ['t', 'current_date'], ['e', 'CURRENT_TIME'], ['s', 't', 'current_user'], ['t', 'Current_Timestamp'], ['t', 'user'],
                   ['t', 'date'], ['x', 'count'], ['current_date'], ['CURRENT_USER']):
        node_ = Obj('Identifier', parts=list(parts_), alias=None, parentheses=False)
        stubs = sa_stubs()
        stubs.update({'self.get_alias': lambda it, x: x, 'self.to_column': lambda it, parts: Elem('column', tuple(parts))})
        for fname in ('current_date', 'current_time', 'current_timestamp', 'current_user', 'now', 'user'):
            stubs[f'sa_fnc.{fname}'] = (lambda fn_: (lambda it, *a, **k: Elem('function', fn_)))(fname)
            stubs[f'sa.func.{fname}'] = stubs[f'sa_fnc.{fname}']
        it = Interp.for_file(ctx.src, FILE, isa_real, stubs)
        it.stubs['getattr'] = elem_getattr
        try:
            res = it.call_function(te, [Obj('SqlalchemyRender', dialect=Obj('Dialect', name='postgresql')), node_], {}, Env())
            shown = repr(res) if not isinstance(res, Elem) else f'{res.kind}:{res.value}'
            if len(parts_) > 1:
                ok = isinstance(res, Elem) and res.kind == 'column' and res.value == tuple(parts_)
            else:
                ok = isinstance(res, Elem) and ((res.kind == 'column' and res.value == tuple(parts_)) or (res.kind == 'function' and res.value == parts_[0].lower()))
        except Raised as r:
            ok, shown = r.exc_name == 'NotImplementedError', f'<{r.exc_name}>'
        nid += 1
        ctx.ob('C06.column-reference', '.'.join(parts_), ok,
               f'the column reference `{".".join(parts_)}` is translated to {shown}: a qualified name is the column of that table with all its parts; only a bare '
               f'CURRENT_DATE / CURRENT_TIME / CURRENT_TIMESTAMP / CURRENT_USER is the function', file=FILE, line=te.lineno,
               witness='select e.current_date from events e')
    ctx.setcount('column_reference_rows', nid)
    # functions written with FROM inside the parentheses: only EXTRACT's first argument is a field NAME; everywhere else it is an expression and must reach the
    # function as the translated expression (substring(a FROM 2) over the column a, not over the string 'a')
    tf = function_named(cls, 'to_function')
    ctx.need(tf is not None, 'SqlalchemyRender.to_function not found')
    from ..interp import ClassRef as _ClassRef
    nfa = 0
    for fname, first in itertools.product(('substring', 'SUBSTRING', 'overlay', 'extract', 'EXTRACT', 'trim'), ('column', 'expression')):
        a0 = Obj('Identifier', parts=['a'], alias=None, parentheses=False) if first == 'column' else \
            Obj('BinaryOperation', op='||', args=[Obj('Identifier', parts=['a'], alias=None, parentheses=False), Obj('Identifier', parts=['b'], alias=None, parentheses=False)],
                alias=None, parentheses=False, to_string=lambda *a, **k: 'a || b')
        if first == 'column':
            a0.attrs['to_string'] = lambda *a, **k: 'a'
        node_ = Obj('Function', op=fname, args=[a0], from_arg=Obj('Constant', value=2, alias=None, parentheses=False), distinct=False, namespace=None, alias=None,
                    parentheses=False)
        stubs = sa_stubs()
        stubs.update({'self.get_alias': lambda it, x: x, 'self.to_column': lambda it, parts: Elem('column', tuple(parts))})

        def getattr_(itp, o, name, *d_):
            if isinstance(o, _ClassRef) and o.name in ('sa.func', 'func', 'sa_fnc'):
                return lambda *a, **k: Elem('function', name, a)
            return elem_getattr(itp, o, name, *d_)
        stubs['self.to_expression'] = lambda it, n_: (Elem('column', tuple(n_.parts)) if n_.kind == 'Identifier' else
                                                      (Elem('literal', n_.value) if n_.kind == 'Constant' else Elem('expression', n_.kind)))
        it = Interp.for_file(ctx.src, FILE, isa_real, stubs)
        it.stubs['getattr'] = getattr_
        nfa += 1
        try:
            res = it.call_function(tf, [Obj('SqlalchemyRender', dialect=Obj('Dialect', name='postgresql')), node_], {}, Env())
            first_arg = res.args[0] if isinstance(res, Elem) and res.kind == 'function' and res.args else None
            if fname.lower() == 'extract':
                ok = isinstance(first_arg, (str, Elem))
            else:
                ok = isinstance(first_arg, Elem) and first_arg.kind in ('column', 'expression')
            shown = repr(first_arg)
        except Raised as r:
            ok, shown = r.exc_name == 'NotImplementedError', f'<{r.exc_name}>'
        ctx.ob('C06.function-from-argument', f'{fname}({first} FROM 2)', ok,
               f'`{fname}(<{first}> FROM 2)`: the first argument reaches the SQL function as {shown}; it must be the translated expression (a column stays a column): as a '
               f'Python string it is rendered as a string literal - substring(\'a\' FROM 2)', file=FILE, line=tf.lineno, witness='select substring(a from 2) from t')
    ctx.setcount('function_from_rows', nfa)
    # window frames: the parser keeps the words of `<unit> BETWEEN <bound> AND <bound>` as the query spelled them; a frame is either refused or handed to sa.over() as
    # the frame it spells - unit and both bounds, whatever the letter case
    nwf = nwf_acc = 0
    START = {'unbounded preceding': None, 'current row': 0}
    END = {'current row': 0, 'unbounded following': None}
    UNIT_KW = {'rows': 'rows', 'range': 'range_', 'groups': 'groups'}
    for unit, start, end, case in itertools.product(('rows', 'range', 'groups'), START, END, (str.lower, str.upper, str.title)):
        text = f'{case(unit)} BETWEEN {case(start)} AND {case(end)}'
        fn_ = Obj('Function', op='sum', args=[], alias=None, parentheses=False)
        node_ = Obj('WindowFunction', function=fn_, partition=None, order_by=[Obj('OrderBy', field=Obj('Identifier', parts=['o'], alias=None, parentheses=False), direction='default', nulls='default')], modifier=text, alias=None, parentheses=False)
        stubs = sa_stubs()
        stubs.update({'self.get_alias': lambda it, x: x, 'self.to_order_by': lambda it, o: ['<order>'], 'self.to_expression': lambda it, n_: Elem('function', 'sum'),
                      'sa.over': lambda it, f, *a, **k: Elem('over', {kk: vv for kk, vv in k.items() if vv is not None}, [f])})
        it = Interp.for_file(ctx.src, FILE, isa_real, stubs)
        it.stubs['getattr'] = elem_getattr
        nwf += 1
        try:
            res = it.call_function(te, [Obj('SqlalchemyRender', dialect=Obj('Dialect', name='postgresql')), node_], {}, Env())
            want = {UNIT_KW[unit]: (START[start], END[end])}
            got = {k_: (tuple(v_) if isinstance(v_, (list, tuple)) else v_) for k_, v_ in (res.value or {}).items() if k_ in ('rows', 'range_', 'groups')} \
                if isinstance(res, Elem) and res.kind == 'over' else None
            ok, shown = got == want, f'sa.over(..., {got})' if got is not None else repr(res)
            nwf_acc += 1
        except Raised as r:
            ok, shown = r.exc_name == 'NotImplementedError', f'<{r.exc_name}>'
        ctx.ob('C06.window-frame', text, ok, f'the window frame `{text}` is translated to {shown}: a frame is refused or rendered as the frame it spells '
               f'({UNIT_KW[unit]}=({START[start]}, {END[end]})), whatever the letter case of its words - ROWS counts rows, RANGE counts peer groups', file=FILE, line=te.lineno,
               witness=f'select sum(v) over (order by k {text}) from t')
    ctx.setcount('window_frame_rows', nwf)
    ctx.floor('window_frame_rows', 36)
    ctx.note(f'window frames: {nwf_acc} of {nwf} spellings are rendered, the others refused')
    # clause coverage -----------------------------------------------------------------------------------------------------
    model = model_for(ctx.src)
    fns = {m.name: m for m in cls.body if isinstance(m, ast.FunctionDef)}

    module_fns = {n.name: n for n in ctx.src.tree(FILE).body if isinstance(n, ast.FunctionDef)}
    seen_calls = set()

    def reads_in(region, names):
        """fields read from one of the receiver names inside the region; follows `x = recv` aliases and calls of methods / static methods / module-level helpers
        of the renderer that receive the receiver"""
        names = set(names)
        out = set()
        for st in region:
            for n in ast.walk(st):
                if isinstance(n, ast.Assign) and isinstance(n.value, ast.Name) and n.value.id in names:
                    names |= {t.id for t in n.targets if isinstance(t, ast.Name)}
        for st in region:
            for n in ast.walk(st):
                if isinstance(n, ast.Attribute) and isinstance(n.ctx, ast.Load) and isinstance(n.value, ast.Name) and n.value.id in names:
                    if _effective(n):
                        out.add(n.attr)
                if isinstance(n, ast.Call) and dotted(n.func) in ('getattr', 'hasattr') and len(n.args) >= 2 and const_str(n.args[1]) \
                        and isinstance(n.args[0], ast.Name) and n.args[0].id in names:
                    out.add(n.args[1].value)
                callee = None
                if isinstance(n, ast.Call) and isinstance(n.func, ast.Attribute) and norm(n.func.value) in ('self', cls.name) and n.func.attr in fns:
                    callee = fns[n.func.attr]
                    shift = 0 if any(norm(d_) == 'staticmethod' for d_ in callee.decorator_list) else 1
                elif isinstance(n, ast.Call) and isinstance(n.func, ast.Name) and n.func.id in module_fns:
                    callee = module_fns[n.func.id]
                    shift = 0
                elif isinstance(n, ast.Call) and isinstance(n.func, ast.Name) and n.func.id in local_fns:
                    callee = local_fns[n.func.id]          # a closure defined inside a renderer method
                    shift = 0
                if callee is not None:
                    for i, a in enumerate(n.args):
                        if isinstance(a, ast.Name) and a.id in names and i + shift < len(callee.args.args) and callee is not region_owner.get(id(region)):
                            key = (callee.name, i)
                            if key not in seen_calls:
                                seen_calls.add(key)
                                out |= reads_in(callee.body, [callee.args.args[i + shift].arg])
        return out
    region_owner = {}
    local_fns = {}
    for m_ in fns.values():
        for x_ in ast.walk(m_):
            if isinstance(x_, ast.FunctionDef) and x_ is not m_:
                local_fns.setdefault(x_.name, x_)
    render_reads = {}
    for cn, hs in HANDLERS.items():
        acc = set()
        for fname, how in hs:
            fn = fns.get(fname)
            ctx.need(fn is not None, f'renderer function {fname} (handler of {cn}) not found')
            seen_calls = {(fname, 0)}
            if how == 'param':
                acc |= reads_in(fn.body, [fn.args.args[1].arg])
            elif how == 'branch':
                br = [n for n in ast.walk(fn) if isinstance(n, ast.If) and f'ast.{cn})' in norm(n.test)]
                ctx.need(br, f'{fname}: no isinstance branch for {cn}')
                recv = norm(br[0].test.args[0]) if isinstance(br[0].test, ast.Call) else 't'
                acc |= reads_in(br[0].body, [recv])
            else:
                it = how.split(':', 1)[1]
                loops = [n for n in ast.walk(fn) if isinstance(n, (ast.For, ast.comprehension)) and norm(n.iter) == it and isinstance(n.target, ast.Name)]
                if not loops:
                    # the loop may live in a method the handler hands the node to (`self._add_ctes(query, node)`): any loop of the class over `<param>.<field>`
                    fld = it.split('.', 1)[1] if '.' in it else None
                    for m2 in fns.values():
                        params2 = {a.arg for a in m2.args.args}
                        loops += [n for n in ast.walk(m2) if isinstance(n, (ast.For, ast.comprehension)) and isinstance(n.target, ast.Name) and fld is not None
                                  and isinstance(n.iter, ast.Attribute) and n.iter.attr == fld and isinstance(n.iter.value, ast.Name) and n.iter.value.id in params2]
                if not loops:
                    # ... or the list itself is handed over: `self._add_ctes(query, node.cte)` and the loop runs over that parameter
                    for c_ in ast.walk(fn):
                        if isinstance(c_, ast.Call) and isinstance(c_.func, ast.Attribute) and norm(c_.func.value) == 'self' and c_.func.attr in fns:
                            m2 = fns[c_.func.attr]
                            for i_, a_ in enumerate(c_.args):
                                if norm(a_) == it and i_ + 1 < len(m2.args.args):
                                    pn = m2.args.args[i_ + 1].arg
                                    loops += [n for n in ast.walk(m2) if isinstance(n, (ast.For, ast.comprehension)) and isinstance(n.target, ast.Name)
                                              and isinstance(n.iter, ast.Name) and n.iter.id == pn]
                ctx.need(loops, f'{fname}: no loop over {it} (elements are {cn})')
                for lp in loops:
                    region = lp.body if isinstance(lp, ast.For) else [lp._parent]
                    acc |= reads_in(region, [lp.target.id])
        render_reads[cn] = acc
    npairs = 0
    for cn, fields in sorted(CLAUSE_FIELDS.items()):
        ci = model.resolve(cn) if cn in model.classes else None
        ctx.need(ci is not None, f'class {cn} not found')
        own = set(model.self_fields(ci))
        for f in fields:
            ctx.need(f in own, f'{cn} has no field {f} any more (reference table of C06 is stale)')
            npairs += 1
            ctx.ob('C06.clause-coverage', f'{cn}.{f}', f in render_reads[cn],
                   f'{cn}.{f} can be set by the parsers but the code that renders a {cn} never reads it: the rendered SQL silently drops it and '
                   f'means something else (it must be translated, or refused with NotImplementedError)', file=FILE,
                   witness=WIT.get((cn, f)))
        for f in sorted(own - set(fields)):
            if f in ('alias', 'parentheses') or (cn, f) in EXEMPT_FIELDS or f not in {p for p, _ in model.init_params(ci)}:
                continue
            ctx.note(f'{cn}.{f} is not in the reference clause table (listed)')
    ctx.setcount('clause_fields', npairs)
    # generative results ---------------------------------------------------------------------------------------------------
    ngen = 0
    for fn in fns.values():
        gen_vars = set()
        for n in ast.walk(fn):
            if isinstance(n, ast.Assign) and len(n.targets) == 1 and isinstance(n.targets[0], ast.Name) and isinstance(n.value, ast.Call) \
                    and isinstance(n.value.func, ast.Attribute) and norm(n.value.func.value) == n.targets[0].id:
                gen_vars.add(n.targets[0].id)
                ngen += 1
        for n in ast.walk(fn):
            if isinstance(n, ast.Expr) and isinstance(n.value, ast.Call) and isinstance(n.value.func, ast.Attribute) \
                    and isinstance(n.value.func.value, ast.Name) and n.value.func.value.id in gen_vars:
                ctx.ob('C06.generative-result', f'{fn.name}:{norm(n.value.func)}', False,
                       f'{fn.name}: the result of `{norm(n.value)[:80]}` is discarded; SQLAlchemy constructs are generative, so the clause '
                       f'is not part of the rendered query', file=FILE, line=n.lineno)
    ctx.setcount('generative_updates', ngen)
    ctx.ob('C06.generative-result', 'all', True, '')
    # numeric literals -------------------------------------------------------------------------------------------------------
    import re as _re
    lossy_spec = _re.compile(r'(?:[:%][-+ #0]*\d*\.\d+[feEgG%]?|%[-+ #0]*\d*[dfeEgGi]|:[-+ #0]*\d*[dfeEgG%]\b)')
    mod_funcs = {n.name: n for n in tree.body if isinstance(n, ast.FunctionDef)}
    overrides = [n for n in ast.walk(tree) if isinstance(n, ast.FunctionDef) and n.name == 'render_literal_value']
    ctx.setcount('literal_overrides', len(overrides))

    def lossy_constructs(fn_or_nodes, seen):
        out = []
        nodes = fn_or_nodes if isinstance(fn_or_nodes, list) else fn_or_nodes.body
        for st in nodes:
            for n in ast.walk(st):
                if isinstance(n, ast.Constant) and isinstance(n.value, str) and lossy_spec.search(n.value):
                    par = getattr(n, '_parent', None)
                    if (isinstance(par, ast.Attribute) and par.attr == 'format') or (isinstance(par, ast.BinOp) and isinstance(par.op, ast.Mod)) \
                            or isinstance(par, (ast.JoinedStr, ast.FormattedValue)) or (isinstance(par, ast.Call) and dotted(par.func) == 'format'):
                        out.append((n.lineno, f'fixed-precision format {n.value!r}'))
                if isinstance(n, ast.Call) and dotted(n.func) in ('round', 'int', 'math.floor', 'math.trunc'):
                    out.append((n.lineno, f'{dotted(n.func)}()'))
                if isinstance(n, ast.Call) and isinstance(n.func, ast.Name) and n.func.id in mod_funcs and n.func.id not in seen:
                    seen.add(n.func.id)
                    out += lossy_constructs(mod_funcs[n.func.id], seen)
        return out
    for ov in overrides:
        owner = ov._parent._parent.name if isinstance(getattr(ov._parent, '_parent', None), ast.FunctionDef) else '?'
        for st in ov.body:
            # the string-family branch is C07's; every other statement formats non-string values (numbers, None, bool)
            if isinstance(st, ast.If) and isinstance(st.test, ast.Call) and dotted(st.test.func) == 'isinstance' and 'str' in norm(st.test.args[1]) \
                    and not any(t in norm(st.test.args[1]) for t in ('float', 'int', 'Decimal')):
                continue
            bad = lossy_constructs([st], set())
            ctx.ob('C06.number-literal', f'{owner}.render_literal_value:{norm(st)[:40]}', not bad,
                   f'{owner}.render_literal_value formats a non-string literal with a lossy construct ({"; ".join(b for _, b in bad)}): the number in '
                   f'the rendered SQL differs from the one in the statement, so comparisons select other rows', file=FILE,
                   line=bad[0][0] if bad else st.lineno, witness='delete from m where x <= 0.00000000000000005')
    # distinct
    ok = any(isinstance(n, ast.If) and any(isinstance(x, ast.Attribute) and x.attr == 'distinct' for x in ast.walk(n.test))
             and any(isinstance(x, ast.Call) and isinstance(x.func, ast.Attribute) and x.func.attr == 'distinct' for b in n.body for x in ast.walk(b))
             for n in ast.walk(ps))
    ctx.ob('C06.distinct', 'Select.distinct', ok, 'prepare_select does not apply query.distinct() under node.distinct', file=FILE, line=ps.lineno)
    # alias kept ------------------------------------------------------------------------------------------------------------
    ALIASABLE = ['Constant', 'Identifier', 'Select', 'Function', 'BinaryOperation', 'UnaryOperation', 'BetweenOperation', 'Interval',
                 'WindowFunction', 'TypeCast', 'Exists', 'NotExists', 'Case']
    chain = [n for n in te.body if isinstance(n, ast.If) and 'isinstance(t, ast.Star)' in norm(n.test)]
    ctx.need(chain, 'to_expression: dispatch chain not found')
    node = chain[0]
    seen = {}
    while True:
        t = norm(node.test)
        for cn in ALIASABLE:
            if f'ast.{cn})' in t or f'ast.{cn},' in t:
                seen_calls.clear()
                reads = 'alias' in reads_in(node.body, ['t'])
                seen[cn] = (reads, node.lineno)
        if len(node.orelse) == 1 and isinstance(node.orelse[0], ast.If):
            node = node.orelse[0]
        else:
            break
    for cn in ALIASABLE:
        ctx.need(cn in seen, f'to_expression has no branch for {cn}')
        ctx.ob('C06.alias-kept', cn, seen[cn][0],
               f'the {cn} branch of to_expression never reads t.alias: `... AS name` is dropped from the rendered select list, so output '
               f'column names change', file=FILE, line=seen[cn][1], witness=f'select <{cn.lower()}> as x from t')
    ctx.sample({'join_vocabulary': vocab})
    ctx.sample({'operator_spellings': sorted(spellings)})
    ctx.floor('join_strings', 9)
    ctx.floor('operator_spellings', 19)
    ctx.floor('clause_fields', 40)
    ctx.floor('order_by_translations', 1)
    ctx.floor('generative_updates', 10)
    ctx.floor('literal_overrides', 1)


def _effective(n):
    """a read that only feeds the test of an `if` whose branches do nothing (pass / docstring) has no effect on the output"""
    cur = n
    while getattr(cur, '_parent', None) is not None:
        par = cur._parent
        if isinstance(par, ast.If) and cur is par.test:
            live = [s for s in par.body + par.orelse if not isinstance(s, ast.Pass) and not (isinstance(s, ast.Expr) and isinstance(s.value, ast.Constant))]
            return bool(live)
        if isinstance(par, ast.stmt):
            return True
        cur = par
    return True


def _first_use_is_store(loop, name):
    """inside the loop body the first occurrence (source order) of `name` is an assignment to it"""
    occ = [(x.lineno, x.col_offset, isinstance(x.ctx, ast.Store)) for x in ast.walk(loop) if isinstance(x, ast.Name) and x.id == name]
    occ.sort()
    return bool(occ) and occ[0][2]


class _Node:
    def __init__(self, cls, unique):
        self.cls, self.unique = cls, unique


def _JoinTypeEnv(ctx):
    """JoinType.<NAME> constants from mindsdb_sql/parser/utils.py"""
    env = {}
    t = ctx.src.tree('mindsdb_sql/parser/utils.py')
    for n in t.body:
        if isinstance(n, ast.ClassDef) and n.name == 'JoinType':
            for s in n.body:
                if isinstance(s, ast.Assign) and const_str(s.value) is not None:
                    env[f'JoinType.{s.targets[0].id}'] = s.value.value
    return env


WIT = {
    ('WindowFunction', 'modifier'): 'select max(a) over (order by d rows between unbounded preceding and current row) from t',
    ('Function', 'namespace'): 'select proj.fn(a) from t', ('TableColumn', 'length'): 'create table t (a varchar(10))',
    ('CreateTable', 'if_not_exists'): 'create table if not exists t (a int)', ('Update', 'keys'): 'update t on a from (select 1)',
}
