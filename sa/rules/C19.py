"""C19 - syntax errors point at the offending token and suggestions really help (mindsdb dialect).

The caret arithmetic over arbitrary layouts is run-time offset arithmetic and is NOT decided.  Decided are
the table-level facts the message is built from.
"""
import ast

from ..source import AnalysisError, norm, dotted, walk_no_nested
from ..grammar import load_dialect
from ..lalr import tables_for
from ..lexmodel import master_for, language
from ..suggest import suggest_for
from ..cfg import Flow

INIT = 'mindsdb_sql/__init__.py'


def rewritten_value_tokens(lex, src=None):
    """Token types whose lexer action assigns t.value (the stored value is no longer the source text)."""
    out = {}
    for r in lex.rules:
        if r.func is None:
            continue
        tparam = r.func.args.args[1].arg if len(r.func.args.args) > 1 else 't'
        for n in ast.walk(r.func):
            if isinstance(n, (ast.Assign, ast.AugAssign)):
                tg = n.targets if isinstance(n, ast.Assign) else [n.target]
                for t in tg:
                    if isinstance(t, ast.Attribute) and t.attr == 'value' and isinstance(t.value, ast.Name) and t.value.id == tparam:
                        out.setdefault(r.name, []).append(n)
        if src is not None and r.name not in out:
            # the action may hand the token to a helper that rewrites it: the action is interpreted on spellings of the token
            from ..interp import Interp, Obj, Raised, Env
            try:
                words = [w for w in language(r.pattern, lex.reflags)[0] if w][:6]
            except AnalysisError:
                words = []
            for w in words:
                tok = Obj('Token', value=w, type=r.name, lineno=1, index=0, end=len(w))
                try:
                    res = Interp.for_file(src, lex.file, {}, {}).call_function(r.func, [Obj('Lexer', lineno=1, index=0), tok], {}, Env())
                except (Raised, AnalysisError):
                    continue
                res = tok if res is None else res
                if isinstance(res, Obj) and res.attrs.get('value') != w:
                    out.setdefault(r.name, []).append(r.func)
                    break
    return out


def run(ctx):
    ctx.explanation = (
        'Table-level facts behind the mindsdb error message, decided statically: (1) the expected-token list sly passes '
        '(keys of the action row) contains nonassoc error entries that are not acceptable - for every LALR state the display '
        'set is computed with the filter read from make_suggestion and no unverified suggestion (single candidate, or '
        'end-of-input listing) may be such an entry; (2) every display string lexes back, under the ordered master regex, '
        'to exactly its token; (3) the placeholder classes cover exactly the data-carrying function tokens and their '
        'synthesised value is in the language of the token whenever a grammar action converts it; (4) every suggestion '
        'returned for a non-final error is dominated by a successful re-parse of THIS input (dataflow over make_suggestion); '
        '(5) tokens whose lexer action rewrites the value make the echoed line and caret width differ from the source; '
        '(6) the lexer error callback raises LexError on every path. NOT decided: caret/line offset arithmetic over '
        'arbitrary layouts (run-time positions); exact LR(1) acceptability behind LALR-merged reduce look-aheads.')
    ctx.not_decided = ['caret position and line reconstruction arithmetic (error_location) for arbitrary layouts',
                       'LR(1)-exact acceptability of reduce look-aheads in unverified suggestions']
    ctx.assumptions = ['sly passes list(actions[state].keys()) as expected_tokens (read in sly/yacc.py Parser.parse)']
    g = load_dialect(ctx.src, 'mindsdb')
    t = tables_for(ctx.src, 'mindsdb')
    lex = g.lexer
    sm = suggest_for(ctx.src)
    master = master_for(lex)

    # the hand-off the rule relies on: expected_tokens=list(actions[self.state].keys())
    ytree = ctx.src.tree('sly/yacc.py')
    handoff = [n for n in ast.walk(ytree) if isinstance(n, ast.keyword) and n.arg == 'expected_tokens']
    def _handoff_ok(k):
        v = k.value
        if isinstance(v, ast.Name):
            # a local holding the list: every assignment of it in the enclosing function must be that expression
            fn_ = k
            while fn_ is not None and not isinstance(fn_, ast.FunctionDef):
                fn_ = getattr(fn_, '_parent', None)
            defs = [n.value for n in ast.walk(fn_) if isinstance(n, ast.Assign) and any(isinstance(t, ast.Name) and t.id == v.id for t in n.targets)] if fn_ else []
            return bool(defs) and all(norm(d) in ('list(actions[self.state].keys())', 'list(actions[self.state])') for d in defs)
        return norm(v) in ('list(actions[self.state].keys())', 'list(actions[self.state])')
    ctx.need(any(_handoff_ok(k) for k in handoff),
             'sly/yacc.py: Parser.parse no longer passes expected_tokens=list(actions[self.state].keys())')

    # (2) display strings lex back -----------------------------------------------------------------------
    ndisp = 0
    for r in lex.rules:
        if r.name.startswith('ignore_') or r.name not in g.tokens:
            continue
        pat = r.pattern if r.func is None else None
        from ..suggest import _Callable
        kind, disp = sm.classify(r.name, pat if pat is not None else _Callable())
        if kind == 'skip':
            if r.func is not None:
                ctx.note(f'token {r.name} (function rule) is never suggested')
            continue
        if r.func is not None or disp.startswith('['):
            continue
        ndisp += 1
        toks = master.types(disp)
        ctx.ob('C19.display-lexes-back', r.name, toks == [r.name],
               f'token {r.name} (pattern {r.pattern!r}) is suggested to the user as "{disp}", but that text lexes to '
               f'{toks} under the ordered lexer rules - inserting the suggestion does not let parsing proceed',
               file=lex.file, line=r.line, witness=f'suggestion "{disp}"')
    ctx.setcount('display_strings', ndisp)

    # token reachability (shared with C02): every token the grammar uses can be produced by the lexer at all
    for r in lex.rules:
        if r.func is not None or r.name.startswith('ignore_') or r.name not in g.tokens:
            continue
        words, finite = language(r.pattern, lex.reflags)
        words = [w for w in words if w]
        if not words:
            continue
        reach = any(master.types(w) == [r.name] for w in words)
        used = any(r.name in p.rhs for p in g.productions[1:] if not p.from_star)
        if used:
            ctx.ob('C19.token-reachable', r.name, reach,
                   f'no spelling of token {r.name} ({r.pattern!r}) lexes to {r.name}: an earlier rule always matches first '
                   f'(e.g. "{words[0]}" -> {master.types(words[0])}); the operator the grammar documents is a syntax error, and the '
                   f'error reporter then suggests it', file=lex.file, line=r.line, witness=f"select a {words[0]} 'b'")
            ctx.count('reachability_checks')

    # (1) expected tokens are acceptable ---------------------------------------------------------------------
    none_states = 0
    for st, act in enumerate(t.action):
        keys = list(act.keys())
        errs = [a for a, v in act.items() if v is None]
        if not errs:
            continue
        none_states += 1
        mode, disp = sm.display_set(lex, keys)
        inv = {v: k for k, v in disp.items()}
        bad_disp = [inv[a] for a in errs if a in inv]
        eof_possible = act.get('$end') is None
        single = len(disp) == 1
        listing = eof_possible and sm.lo < len(disp) < sm.hi
        unverified = [d for d in bad_disp if single or listing]
        ctx.ob('C19.expected-are-acceptable', f'state({" | ".join(t.items_str(st))[:140]})', not unverified,
               f'in this parser state the token(s) {errs} are nonassoc *error* entries, yet make_suggestion would show '
               f'{unverified} without checking ({"single candidate" if single else "end-of-input listing"})',
               file=g.file)
    ctx.setcount('states_scanned', len(t.action))
    ctx.setcount('states_with_error_entries', none_states)

    # (3) placeholder classes -------------------------------------------------------------------------------
    from ..suggest import _Callable
    func_tokens = [r.name for r in lex.rules if r.func is not None and r.name in g.tokens]
    covered = {}
    for name in func_tokens:
        kind, disp = sm.classify(name, _Callable())
        covered[name] = disp if kind != 'skip' else None
    ctx.setcount('placeholder_classes', sum(1 for v in covered.values() if v))
    for name, disp in sorted(covered.items()):
        if disp is None:
            ctx.note(f'function-rule token {name} carries user data but has no placeholder: it is silently never suggested')
    # the synthesised token value is the display string; if a grammar action converts the text of that token type with a
    # partial function (int/float), the value must be in the token's language
    fn = sm.fn
    # ... in make_suggestion itself or in a helper of the same file that it calls
    called = {(n.func.attr if isinstance(n.func, ast.Attribute) else getattr(n.func, 'id', None)) for n in ast.walk(fn) if isinstance(n, ast.Call)}
    mod_ = fn
    while getattr(mod_, '_parent', None) is not None:
        mod_ = mod_._parent
    helpers_ = [h for h in ast.walk(mod_) if isinstance(h, ast.FunctionDef) and h.name in called and h is not fn]
    synth = [n for f_ in [fn] + helpers_ for n in ast.walk(f_) if isinstance(n, ast.Assign) and norm(n.targets[0]).endswith('.value')
             and isinstance(n.targets[0], ast.Attribute)]
    ctx.need(len(synth) >= 1, 'make_suggestion: synthesised `token.value = ...` not found')
    conv = {}       # token -> converter
    for p in g.productions[1:]:
        if len(p.rhs) == 1 and p.rhs[0] in covered and p.func is not None:
            for n in ast.walk(p.func):
                if isinstance(n, ast.Call) and dotted(n.func) in ('int', 'float') and len(n.args) == 1 and norm(n.args[0]) in (
                        'p[0]', f'p.{p.rhs[0]}'):
                    conv[p.rhs[0]] = (dotted(n.func), p)
    for tok, (cv, p) in sorted(conv.items()):
        disp = covered.get(tok)
        if disp is None:
            continue
        # what value does the synthesised token get?  `token.value = value` (the display string) unless special-cased
        vals = set()
        for a in synth:
            try:
                from .. import peval
                vals.add(peval.ev(a.value, {'value': disp, sm.tokvar: tok, 'token_name': tok}))
            except (AnalysisError, KeyError, TypeError):
                vals.add(None)
        for v in vals:
            if v is None:
                ctx.note(f'synthesised value for {tok} is computed by an expression the analysis does not evaluate')
                continue
            import re
            r = lex.rule(tok)
            inlang = re.fullmatch(r.pattern, v, lex.reflags) is not None
            ctx.ob('C19.placeholder-value', tok, inlang,
                   f'make_suggestion re-parses with a made-up {tok} token whose value is {v!r}; the grammar action '
                   f'`{p.name}` applies {cv}() to it, which raises ValueError - the error reporter crashes instead of '
                   f'producing a message', file=INIT, line=synth[0].lineno, witness="select a->>'b'")
    ctx.setcount('converted_placeholder_tokens', len(conv))

    # (4) every suggestion is verified against this input --------------------------------------------------------
    check_verified(ctx, sm)

    # (5) caret width / echoed text --------------------------------------------------------------------------
    M = rewritten_value_tokens(lex, ctx.src)
    ctx.setcount('value_rewriting_tokens', len(M))
    el = None
    for m in sm.cls.body:
        if isinstance(m, ast.FunctionDef) and m.name == 'error_location':
            el = m
    ctx.need(el is not None, 'ErrorHandling.error_location not found')
    uses_value = any(isinstance(n, ast.Attribute) and n.attr == 'value' and 'token' in norm(n.value) for n in ast.walk(el))
    uses_source = any(isinstance(n, ast.Attribute) and n.attr == 'text' for n in ast.walk(el))
    for tok, sites in sorted(M.items()):
        ctx.ob('C19.caret-width', tok, not uses_value,
               f'the lexer action of {tok} rewrites token.value (`{norm(sites[0])}`), and error_location rebuilds the source line '
               f'and the caret width from token.value: for a {tok} token the echoed text and the number of carets differ from '
               f'what the user wrote', file=lex.file, line=sites[0].lineno,
               witness="select 'it''s' 'x'   -- the message shows 'it's' and too few carets")

    # (4b) "verified by a re-parse" means something only if a re-parse that hits an error is a refusal: the error callback of the parser drains the token
    #      stream and reports on every path (C05's rules on the callback, re-run here); otherwise sly's recovery resynchronises and accepts a tail
    from .. import core
    from . import C05
    sub = core.Ctx('C05', ctx.src, ctx.tier)
    C05.check_error_callback(sub, 'mindsdb', g)
    ctx.setcount('error_callback_obligations', sum(v[0] for k_, v in sub.rules.items()))
    ctx.ob('C19.suggestions-verified', 'reparse-is-exact', True, '')
    for f in sub.findings:
        ctx.ob('C19.suggestions-verified', f'reparse-is-exact:{f.construct}', False,
               f'a suggestion counts as verified when the re-parse with it succeeds, but the re-parse is not exact: {f.msg}', file=f.file, line=f.line,
               witness='delete from t select a = 1')
    # (5a) the shown line and the caret line, by interpretation of error_location on token lists with source positions -------------------------------
    check_caret_alignment(ctx, sm, el)
    # the positions error_location reads are those of the parser's token objects: nothing that handles them on the way (tokens_to_string while a grammar action
    # rebuilds an embedded query) may change them (C16's table, re-run)
    from . import C16
    from ..core import Ctx as _Ctx
    sub16 = _Ctx('C16', ctx.src, ctx.tier)
    C16.run(sub16)
    ctx.setcount('token_untouched_rows', sub16.rules.get('C16.tokens-untouched', (0, 0))[0])
    ctx.floor('token_untouched_rows', 8)
    ctx.ob('C19.tokens-untouched', 'all', True, '')
    for f_ in sub16.findings:
        if f_.rule == 'C16.tokens-untouched':
            ctx.ob('C19.tokens-untouched', f_.construct, False, f_.msg, file=f_.file, line=f_.line, witness=f_.witness)

    # (5b) token.lineno is not a physical line number ------------------------------------------------------------
    check_lineno_use(ctx, lex, sm)

    # (6) lexer error callback -----------------------------------------------------------------------------------
    ef = None
    for st in lex.node.body:
        if isinstance(st, ast.FunctionDef) and st.name == 'error':
            ef = st
    if ef is None:
        ctx.note('MindsDBLexer does not override error(); sly\'s default raises LexError')
    else:
        res = Flow(lambda s, st: st, lambda a, b: a).run(ef, 0)
        ok = res.end is None and not res.returns and all(
            r.exc is not None and (dotted(r.exc.func) if isinstance(r.exc, ast.Call) else dotted(r.exc)) == 'LexError'
            for r, _ in res.raises) and res.raises
        ctx.ob('C19.lexer-error-context', f'{lex.cls}.error', bool(ok),
               f'{lex.cls}.error does not raise LexError on every path (a return resumes lexing after the illegal character)',
               file=lex.file, line=ef.lineno)
    if ef is not None:
        # the message of the lexer error, interpreted on probe texts (LF and CRLF layouts): the last shown line contains the illegal character and the caret is
        # under it
        from ..interp import Interp, Obj, Raised, Env
        probe_texts = ['select #', 'select a\nfrom t #', 'select a\n  from t\nwhere # x', '#', 'select a\r\nfrom t\r\nwhere ^ x', 'a\r\n#', 'select 1\n\n\n  #',
                       # line ends inside a comment / a quoted string / a quoted name are consumed by rules that do not advance the lexer's line counter
                       'select /* a\nb */ 1 #', "select 'x\ny' as s,\n #", 'select a\n/* c1\n c2 */\nfrom t #', 'select `a\nb`\nfrom t\nwhere #',
                       # the illegal character in the FIRST line of a text of several lines
                       'select # a\nfrom t', '#\nselect 1\nfrom t']
        import re as _re2

        def counted_lines(text, upto):
            # the lexer's own line counter when it reaches offset `upto`: only the newline rule (between tokens) advances it
            n_ = 1
            for m_ in _re2.finditer(r"/\*.*?\*/|--[^\n]*|'[^']*'|\"[^\"]*\"|`[^`]*`|\n+|.", text[:upto], _re2.S):
                if m_.group(0).startswith('\n'):
                    n_ += len(m_.group(0))
            return n_
        for text in probe_texts:
            idx = min(i for i in ((text.find('#') if text.count('\n', text.find('#')) and text.count('#') == 1 else text.rfind('#')), text.rfind('^')) if i >= 0)
            it = Interp({}, {'LexError': lambda itp, *a: Obj('LexError', args=tuple(a))})
            it.module = ctx.src.tree(lex.file)
            self_ = Obj(lex.cls, text=text, index=idx, lineno=counted_lines(text, idx))
            tok = Obj('Token', value=text[idx:], index=idx, lineno=counted_lines(text, idx), type='ERROR')
            msg = None
            try:
                it.call_function(ef, [self_, tok], {}, Env())
            except Raised as r:
                if r.exc_name == 'LexError' and r.obj is not None and r.obj.args:
                    msg = r.obj.args[0]
            label = repr(text)
            ok = isinstance(msg, str)
            detail = 'no LexError message'
            if ok:
                ls = msg.split('\n')
                shown = [l[1:] for l in ls if l.startswith('>')]
                caret = [l for l in ls if set(l) <= {'-', '^'} and l.endswith('^')]
                ok = bool(shown) and len(caret) == 1
                detail = msg
                if ok:
                    col = len(caret[0]) - 1
                    last = shown[-1]
                    # the same character of the source must be under the caret (columns are counted in the shown line, which starts after the '>')
                    line_start = max(text.rfind('\n', 0, idx) + 1, 0)
                    want_col = idx - line_start
                    shown_last = '>' + last           # the caret line is aligned with the line as displayed, i.e. with its '>' prefix
                    ok = col == want_col + 1 and col < len(shown_last) and shown_last[col] == text[idx]
            ctx.ob('C19.lexer-error-context', f'{lex.cls}.error:{label}', ok,
                   f'{lex.cls}.error on {label} (illegal character at offset {idx}) builds the message {detail!r}: the shown line must contain the character and the '
                   f'caret must be under it, for LF and CRLF line ends alike', file=lex.file, line=ef.lineno, witness='select a\\r\\nfrom t #')
    ctx.sample({'display_examples': {r.name: sm.classify(r.name, r.pattern)[1] for r in lex.rules[:60:7] if r.func is None}})
    ctx.sample({'thresholds': [sm.lo, sm.hi], 'placeholders': covered})
    ctx.floor('display_strings', 150)
    ctx.floor('states_scanned', 1200)
    ctx.floor('placeholder_classes', 4)
    ctx.floor('reachability_checks', 150)


def check_caret_alignment(ctx, sm, el):
    """error_location interpreted (sa/interp.py) on probe texts whose tokens are given with their source positions: in the last two lines of the message the carets
    stand exactly under the offending token of the shown line (or directly behind the last token when the input ended too early) - for short lines, for an error in
    the second and third line, and for lines of more than 300 characters with the error far to the right."""
    import re as _re
    from ..interp import Interp, Obj, Raised, Env
    long_cols = ', '.join(f'column_{i}' for i in range(30))

    def tokens_of(text):
        # tokens with the positions sly gives them: index / end are offsets in the text; lineno advances only at newlines BETWEEN tokens - a newline inside a
        # comment or inside a quoted string is consumed by a rule that does not touch lineno (see newline_rules_without_lineno_update)
        out = []
        unseen = 0
        for m in _re.finditer(r"/\*.*?\*/|--[^\n]*|'[^']*'|[^\s,]+|,", text, _re.S):
            tok = m.group(0)
            if tok.startswith('--'):
                continue
            lineno = text.count('\n', 0, m.start()) + 1 - unseen
            if tok.startswith('/*') or tok.startswith("'"):
                unseen += tok.count('\n')
            if tok.startswith('/*'):
                continue
            out.append(Obj('Token', type='T', value=tok, index=m.start(), end=m.end(), lineno=lineno))
        return out
    probes = [('short line', 'select a from from t', 'from', 2), ('second line', 'select a\nfrom from t', 'from', 2), ('third line', 'select a\n   , b\n  from from t', 'from', 2),
              ('first token', 'selec a from t', 'selec', 1), ('long line', f'select {long_cols} from from t', 'from', 2),
              ('long line, second line', f'select a,\n {long_cols} from from t where x', 'from', 2),
              ('after a comment over two lines', 'select a\nfrom t /* only\n active */\nwhere a = = 1', '=', 2),
              ('after a string over two lines', "select 'x\ny' b\nfrom from t", 'from', 2),
              ('same line as the end of a comment', 'select a /* c1\n c2 */ from from t', 'from', 2),
              ('first line of three', 'select a from from t\nwhere x = 1\nand y = 2', 'from', 2), ('second line of four', 'select a\nfrom from t\nwhere x = 1\nand y = 2', 'from', 2),
              ('first line of five', 'selec a\nfrom t\nwhere x = 1\nand y = 2\nand z = 3', 'selec', 1), ('third line of five', 'select a\nfrom t\nwhere x = = 1\nand y = 2\nand z = 3', '=', 2),
              ('end of input', 'select a from', None, 0), ('end of input, long line', f'select {long_cols} from', None, 0),
              ('end of input, second line', 'select a\n  from', None, 0),
              # the text goes on after the last token (a comment): the caret belongs behind the last TOKEN of the echoed line
              ('end of input, trailing comment', 'select a from t where -- TODO', None, 0), ('end of input, comment line after', 'select a from\n  -- rest\n', None, 0),
              ('end of input, block comment after', 'select a from t where /* later */', None, 0)]
    n = 0
    for label, text, bad, occurrence in probes:
        toks = tokens_of(text)
        bad_tok = None
        if bad is not None:
            bad_tok = [t for t in toks if t.value == bad][occurrence - 1]
        self_ = Obj('ErrorHandling', lexer=Obj('Lexer', text=text), parser=Obj('Parser'), tokens=toks, bad_token=bad_tok, expected_tokens=[])
        it = Interp.for_file(ctx.src, INIT, {}, {})
        n += 1
        try:
            msgs = it.call_function(el, [self_], {}, Env())
        except Raised as r:
            ctx.ob('C19.caret-aligned', label, False, f'error_location raises {r.exc_name} on `{text[:40]}...`', file=INIT, line=el.lineno)
            continue
        ok = isinstance(msgs, list) and len(msgs) >= 3 and all(isinstance(x, str) for x in msgs)
        detail = ''
        if ok:
            shown, carets = msgs[-2], msgs[-1]
            p_ = carets.find('^')
            k_ = carets.count('^')
            ok = p_ >= 0 and set(carets) <= {'-', '^'} and carets == '-' * p_ + '^' * k_
            if ok and bad_tok is not None:
                ok = shown[p_:p_ + k_] == bad_tok.value
                detail = f'the carets stand under `{shown[p_:p_ + k_]}` of the shown line, the offending token is `{bad_tok.value}`'
            elif ok:
                last = toks[-1].value
                ok = shown[:p_].endswith(last) and shown[p_:].strip() == '' and p_ == len(shown.rstrip())      # directly behind the last token of the echoed line
                detail = f'the caret stands behind `{shown[max(p_ - 12, 0):p_]}`, the input ends with `{last}`'
        ctx.ob('C19.caret-aligned', label, ok,
               f'[{label}] the last two lines of the message do not point at the error: {detail or msgs}', file=INIT, line=el.lineno,
               witness='a statement of more than 160 characters in one line with a doubled keyword near its end')
    ctx.setcount('caret_probes', n)


def check_verified(ctx, sm):
    """In make_suggestion every returned suggestion list is: empty, the single candidate, the end-of-input listing, or
    a list whose appends are each dominated by a successful self.query_is_valid(...) of this call."""
    fn = sm.fn
    import itertools
    from ..interp import Interp, Obj, Raised, Env
    # make_suggestion interpreted end to end on a small lexer stand-in: k keyword candidates, the error in the middle of the input or at its end, and a re-parse
    # (self.query_is_valid) that accepts a chosen subset of the candidates.  Every returned suggestion must be the single candidate, part of the end-of-input
    # listing, or a candidate whose re-parse - of THIS call's tokens with the candidate put in - succeeded.
    nrows = 0
    anchor = False
    ALPHA = 'ABCDEFGHIJKLMNOPQRSTUVWXYZ'

    def one_call(it, k, where, accept, round_=0):
        """-> (label, result list or exception name, calls, names, at_end)"""
        names = [f'KW{ALPHA[i]}' if i % 3 else f'KW_{ALPHA[i]}' for i in range(k)]
        lexer = Obj('Lexer', **{n_: n_.lower() for n_ in names})
        toks = [Obj('Token', type=f'T{i}', value=f'v{i}', index=i * 3, end=i * 3 + 2, lineno=1, _round=round_) for i in range(4)]
        bad = {'end': None, 'first': toks[0], 'middle': toks[2], 'last': toks[3]}[where]
        accepted = {'none': set(), 'first': set(names[:1]), 'all': set(names), 'odd': set(names[1::2])}[accept]
        calls = []

        def valid(it_, tokens2):
            own = [t for t in tokens2 if any(t is o for o in toks)]
            cand = [t for t in tokens2 if not any(t is o for o in toks)]
            okc = len(cand) == 1 and isinstance(cand[0], Obj) and len(own) >= len(toks) - 1
            calls.append((cand[0].attrs.get('type') if okc else None, okc))
            return bool(okc and cand[0].attrs.get('type') in accepted)
        it.stubs['self.query_is_valid'] = valid
        # the parser object as sly leaves it when parse() has returned after a syntax error: its current state is the start state again (error recovery discards
        # the stack), and the start state shifts tokens that can begin a statement - here: the first candidate, which the error state only lists as a look-ahead
        lrt = Obj('LRTable', lr_action={0: dict({n_: 7 for n_ in names[:1]}, SELECT=3), 7: {}}, lr_goto={0: {}}, defaulted_states={})
        parser = Obj('Parser', state=0, statestack=[0], symstack=[Obj('YaccSymbol', type='$end')], _lrtable=lrt, error_info=None)
        self_ = Obj('ErrorHandling', lexer=lexer, parser=parser, tokens=list(toks), bad_token=bad, expected_tokens=list(names))
        try:
            res = it.call_function(fn, [self_], {}, Env())
            res = list(res) if isinstance(res, (list, tuple)) else [res]
        except Raised as r:
            res = f'<{r.exc_name}>'
        return res, calls, names, accepted

    def judge(label, k, where, res, calls, names, accepted):
        nonlocal anchor
        if isinstance(res, str):
            ctx.ob('C19.suggestions-verified', label, False, f'make_suggestion raises {res} [{label}]', file=INIT, line=fn.lineno)
            return
        verified = {n_.lower() for n_, okc in calls if okc and n_ in accepted}
        foreign_calls = [c for c in calls if not c[1]]
        unverified = [s_ for s_ in res if not (k == 1 or where == 'end' or s_ in verified)]
        unknown = [s_ for s_ in res if s_ not in {n_.lower() for n_ in names}]
        ctx.ob('C19.suggestions-verified', label, not unverified and not unknown and not foreign_calls,
               f'[{label}] make_suggestion returns {res}: {unverified or unknown} '
               + ('was not confirmed by a successful re-parse of this input with the candidate put in' if unverified else
                  ('is not one of the expected tokens' if unknown else 'the re-parse is not run on this call\'s token list with one candidate inserted'))
               + ' (only the single candidate and the end-of-input listing may be shown unverified)', file=INIT, line=fn.lineno)
        if 1 < k < 20 and where == 'middle' and accepted == set(names) and len(res) == k:
            anchor = True
    for k, where, accept in itertools.product((0, 1, 2, 5, 19, 25), ('end', 'first', 'middle', 'last'), ('none', 'first', 'all', 'odd')):
        it = Interp.for_file(ctx.src, INIT, {}, {'Token': lambda it_: Obj('Token')})
        label = f'{k} candidates, error at {where}, re-parse accepts {accept}'
        res, calls, names, accepted = one_call(it, k, where, accept)
        nrows += 1
        judge(label, k, where, res, calls, names, accepted)
    # histories: the same situation (same expected tokens, same kind of offending token) met twice in one process, the re-parse accepting everything the first
    # time and nothing the second time (another query): what the first call verified says nothing about the second input
    for k, where in itertools.product((2, 5), ('middle', 'first')):
        it = Interp.for_file(ctx.src, INIT, {}, {'Token': lambda it_: Obj('Token')})
        one_call(it, k, where, 'all', 0)
        res, calls, names, accepted = one_call(it, k, where, 'none', 1)
        nrows += 1
        judge(f'{k} candidates, error at {where}: second call after a call whose re-parse accepted all', k, where, res, calls, names, accepted)
    # the re-parse runs the grammar's actions, and an action may refuse the made-up statement with ParsingException (`Duplicate FROM clause`): that is a candidate
    # that does not help - not the answer to the user's error.  make_suggestion with the REAL query_is_valid and a parser whose parse() refuses some candidates
    for k, where in itertools.product((2, 5), ('middle', 'first')):
        names = [f'KW{ALPHA[i]}' for i in range(k)]
        lexer = Obj('Lexer', **{n_: n_.lower() for n_ in names})
        toks = [Obj('Token', type=f'T{i}', value=f'v{i}', index=i * 3, end=i * 3 + 2, lineno=1) for i in range(4)]
        bad = {'first': toks[0], 'middle': toks[2]}[where]

        def parse(tokens, names=names, toks=toks):
            cand = [t for t in list(tokens) if not any(t is o for o in toks)]
            ty = cand[0].attrs.get('type') if cand else None
            if ty == names[0]:
                raise Raised('ParsingException', None)
            return Obj('Select') if ty == names[1] else None
        parser = Obj('Parser', state=0, statestack=[0], symstack=[], _lrtable=Obj('LRTable', lr_action={0: {}}, lr_goto={0: {}}, defaulted_states={}), error_info=None, parse=parse)
        self_ = Obj('ErrorHandling', lexer=lexer, parser=parser, tokens=list(toks), bad_token=bad, expected_tokens=list(names))
        it = Interp.for_file(ctx.src, INIT, {}, {'Token': lambda it_: Obj('Token')})
        try:
            res = it.call_function(fn, [self_], {}, Env())
            res = list(res) if isinstance(res, (list, tuple)) else [res]
        except Raised as r:
            res = f'<{r.exc_name}>'
        nrows += 1
        ctx.ob('C19.suggestions-verified', f'{k} candidates, error at {where}: the re-parse of one candidate is refused by a grammar action', res == [names[1].lower()],
               f'make_suggestion gives {res} when the re-parse of the first candidate raises ParsingException and that of the second succeeds; expected [{names[1].lower()!r}]: '
               f'the exception of a made-up statement must not replace the syntax error of the user\'s statement (which candidate is tried first even depends on the '
               f'hash seed)', file=INIT, line=fn.lineno, witness='select a from t order by a nulls')
    ctx.ob('C19.suggestions-verified', 'anchor:verified-candidates-are-returned', anchor,
           'make_suggestion never returns the candidates its re-parse accepted (the table above would be vacuous)', file=INIT, line=fn.lineno)
    ctx.setcount('reparse_sites', nrows)


def _can_match_newline(pattern, flags):
    import re
    try:
        rx = re.compile(pattern, flags)
    except re.error:
        return False
    probes = ['\n', 'a\nb', '/*\n*/', "'a\nb'", '"a\nb"', '`a\nb`', "@'a\nb'", '@"a\nb"', '@`a\nb`', "@@'a\nb'", '--\n', ' \n ']
    return any(rx.fullmatch(p) for p in probes)


def check_lineno_use(ctx, lex, sm):
    """sly's lineno only advances where a lexer action says so.  If some rule can consume a newline without updating
    self.lineno (multi-line comments, multi-line strings), token.lineno is NOT the physical line: indexing the physical
    lines of the text with it points at the wrong line."""
    stale = []
    for r in lex.rules:
        if not _can_match_newline(r.pattern, lex.reflags):
            continue
        updates = r.func is not None and any(
            isinstance(n, (ast.Assign, ast.AugAssign)) and 'self.lineno' in norm(n.targets[0] if isinstance(n, ast.Assign) else n.target)
            for n in ast.walk(r.func))
        if not updates:
            stale.append(r.name)
    ctx.setcount('newline_rules_without_lineno_update', len(stale))
    if not stale:
        return
    ctx.note(f'lexer rules {stale} consume newlines without advancing lineno: token.lineno is not the physical line; error_location is interpreted on token lists '
             f'with such line numbers (C19.caret-aligned: after a comment / a string over two lines)')
