"""C18 - tree copies are independent; equality of trees, steps and plans is lawful.

Lints over the copy / equality protocol methods.  The "all single-attribute mutations" quantifier is
discharged by *absence of sharing*, which is structural: the generic path is copy.deepcopy (shares
nothing mutable); every class that customises copying must transfer every attribute its instances can
carry, mutable ones by deepcopy.
"""
import ast

from ..source import AnalysisError, norm, dotted, walk_no_nested
from ..cfg import Flow
from ..pymodel import model_for

PROTOCOL = ('__copy__', '__deepcopy__', '__reduce__', '__reduce_ex__', '__getstate__', '__setstate__', '__slots__',
            '__getnewargs__', '__getnewargs_ex__')


def outside_attrs(ctx, model):
    """(class name, attr) stored on a local variable that provably holds a fresh instance of a repository class
    (constructor provenance inside one function)."""
    out = {}
    for f in model.files:
        tree = ctx.src.tree(f)
        for fn in ast.walk(tree):
            if not isinstance(fn, (ast.FunctionDef, ast.AsyncFunctionDef)):
                continue
            prov = {}
            for n in walk_no_nested(fn):
                if isinstance(n, ast.Assign) and len(n.targets) == 1 and isinstance(n.targets[0], ast.Name):
                    v = n.value
                    cn = None
                    if isinstance(v, ast.Call):
                        d = dotted(v.func)
                        if d and d.split('.')[-1] in model.classes:
                            cn = d.split('.')[-1]
                    nm = n.targets[0].id
                    if cn:
                        prov.setdefault(nm, set()).add(cn)
                    else:
                        prov.setdefault(nm, set()).add(None)
            for n in walk_no_nested(fn):
                tgts = n.targets if isinstance(n, ast.Assign) else ([n.target] if isinstance(n, (ast.AugAssign, ast.AnnAssign)) else [])
                for t in tgts:
                    if isinstance(t, ast.Attribute) and isinstance(t.value, ast.Name) and t.value.id != 'self':
                        for cn in prov.get(t.value.id, ()):
                            if cn:
                                out.setdefault(cn, {}).setdefault(t.attr, (f, n.lineno))
    return out


def copier_table(ctx, model, ci, fn, m, fields, params):
    """A custom __copy__ / __deepcopy__ interpreted on a stand-in instance that carries every attribute instances can carry, each holding a
    recognisable mutable value: the result must carry them all (equal values) and, for __deepcopy__, share no mutable object with the original."""
    from ..interp import Interp, Obj, Raised, Env, _clone

    def sample(f):
        if f == 'parts':
            # what the grammar actions put there: names (any text, also `*` written as a quoted name) and a Star node
            return ['a', '*', 'b.c', Obj('Star', parentheses=False, alias=None)]
        if f in ('parentheses',):
            return True
        return Obj('Value', tag=f, inner=[Obj('Leaf', tag=f)])
    me = Obj(ci.name, **{f: sample(f) for f in sorted(fields)})
    init_order = [p for p, _ in model.init_params(ci)]

    def ctor(it, *a, **k):
        d = {}
        for p, dflt in params.items():
            d[p] = dflt.value if isinstance(dflt, ast.Constant) else None
        for p, v in zip(init_order, a):
            d[p] = v
        d.update(k)
        d.pop('args', None), d.pop('kwargs', None)
        return Obj(ci.name, **d)

    def shallow(it, x, *a):
        if isinstance(x, list):
            return list(x)
        if isinstance(x, Obj):
            if x.kind == ci.name and '__copy__' in ci.methods and fn is not ci.methods['__copy__']:
                return it.call_function(ci.methods['__copy__'], [x], {}, Env())
            return Obj(x.kind, **dict(x.attrs))
        return x
    stubs = {'copy': shallow, 'copy.copy': shallow, 'deepcopy': lambda it, x, *a: _clone(x, {}), 'copy.deepcopy': lambda it, x, *a: _clone(x, {}),
             'Star': lambda it, *a, **k: Obj('Star', parentheses=False, alias=None)}
    # the copier re-creates the node through the class's real constructor (interpreted, with the constructors of its bases): what the constructor does to its
    # arguments is part of what the copy looks like
    files = tuple(dict.fromkeys(c.file for c in model.mro(ci) if c.file))
    isa = {ci.name: {c.name for c in model.mro(ci)}, 'Star': {'ASTNode'}}
    args = [me] + ([{}] if m == '__deepcopy__' else [])
    try:
        try:
            it = Interp.for_file(ctx.src, ci.file, isa, stubs, also=tuple(f for f in files if f != ci.file))
            res = it.call_function(fn, args, {}, Env())
        except AnalysisError as e:
            ctx.note(f'{ci.name}.{m}: the real constructor is not interpretable ({str(e)[:80]}); a stand-in constructor (keyword arguments become attributes) is used')
            stubs[ci.name] = ctor
            methods = {ci.name: {k: v for c in model.mro(ci) for k, v in reversed(list(c.methods.items()))}}
            it = Interp(isa, stubs, methods=methods)
            res = it.call_function(fn, args, {}, Env())
    except Raised as r:
        ctx.ob('C18.custom-copy-complete', f'{ci.name}.{m}', False, f'{ci.name}.{m} raises {r.exc_name} on an instance that carries {sorted(fields)}',
               file=ci.file, line=fn.lineno)
        return True
    ok_obj = isinstance(res, Obj) and res.kind == ci.name and res is not me
    ctx.ob('C18.custom-copy-complete', f'{ci.name}.{m}', ok_obj, f'{ci.name}.{m} does not return a new {ci.name}', file=ci.file, line=fn.lineno)
    if not ok_obj:
        return True
    for fld in sorted(fields):
        have = fld in res.attrs and res.attrs[fld] == me.attrs[fld]
        ctx.ob('C18.custom-copy-complete', f'{ci.name}.{m}:{fld}', have,
               f'{ci.name}.{m} does not transfer the attribute `{fld}` that instances can carry: the copy has '
               f'{res.attrs.get(fld, "<nothing>")!r} instead of {me.attrs[fld]!r}', file=ci.file, line=fn.lineno)
    if m == '__deepcopy__':
        def mutable_ids(v, acc):
            if isinstance(v, Obj):
                acc[id(v)] = v
                for x in v.attrs.values():
                    mutable_ids(x, acc)
            elif isinstance(v, (list, dict)):
                acc[id(v)] = v
                for x in (v.values() if isinstance(v, dict) else v):
                    mutable_ids(x, acc)
            return acc
        for fld in sorted(fields):
            mine = mutable_ids(me.attrs[fld], {})
            theirs = mutable_ids(res.attrs.get(fld), {})
            shared = set(mine) & set(theirs)
            ctx.ob('C18.custom-copy-deep', f'{ci.name}.{m}:{fld}', not shared,
                   f'{ci.name}.__deepcopy__ shares mutable objects of `{fld}` between the copy and the original ({[repr(mine[i])[:40] for i in list(shared)[:2]]}): '
                   f'changing the copy changes what the original prints', file=ci.file, line=fn.lineno,
                   witness='parse_sql("select t.* from t").copy().targets[0].parts[-1].parentheses = True')
    ctx.count('copier_tables')
    return True


def eq_table(ctx, model, ci, fn, cons):
    """__eq__ interpreted on stand-ins built from the class's own fields: identical, one field different, a late attribute on one side only,
    another class, a non-object.  Lawful = boolean, no exception, eq(a, b) is eq(b, a), identical objects equal."""
    from ..interp import Interp, Obj, Raised, Env
    if any(isinstance(n, ast.Call) and dotted(n.func) in ('super', 'super().__eq__') for n in ast.walk(fn)):
        raise AnalysisError('uses super()')
    init_fields, late = [], []
    for sub in [ci]:
        c0, init = model.method(sub, '__init__')
        inits = set()
        if init is not None:
            for x in walk_no_nested(init):
                if isinstance(x, ast.Attribute) and isinstance(x.value, ast.Name) and x.value.id == 'self' and isinstance(x.ctx, ast.Store):
                    inits.add(x.attr)
        for attr in model.self_fields(sub):
            (init_fields if attr in inits else late).append(attr)
    if not init_fields:
        raise AnalysisError('no fields')
    LISTY = {'steps', 'args', 'parts', 'items', 'columns', 'values', 'targets'}

    def sample(f, alt=False):
        if f in LISTY:
            return [Obj('Item', x=1), Obj('Item', x=3 if alt else 2)]
        return f'w_{f}' if alt else f'v_{f}'

    def mk(kind=ci.name, change=None, extra=None, shorter=False):
        d = {f: sample(f, alt=(f == change)) for f in init_fields}
        if shorter:
            for f in init_fields:
                if f in LISTY:
                    d[f] = d[f][:1]
        d.update(extra or {})
        return Obj(kind, **d)
    cases = [('identical', mk(), mk(), True)]
    for f in init_fields:
        cases.append((f'{f} differs', mk(), mk(change=f), None))       # may or may not matter to equality; must be symmetric
        if f not in LISTY:
            cases.append((f'{f} is None on one side', mk(), mk(extra={f: None}), None))
    if any(f in LISTY for f in init_fields):
        cases.append(('shorter list', mk(), mk(shorter=True), None))
    for l in late:
        cases.append((f'late attribute {l} on one side', mk(extra={l: 'late'}), mk(), None))
        cases.append((f'late attribute {l} on both sides, different', mk(extra={l: 'late'}), mk(extra={l: 'other'}), None))
    cases.append(('another class', mk(), mk(kind='SomethingElse'), False))
    cases.append(('not an object', mk(), 'text', None))
    # the class is interpreted with everything its file (and the files of its bases) defines: methods, class-level constants, module-level helpers
    methods = {'SomethingElse': {}}
    also = tuple(dict.fromkeys(c.file for c in model.mro(ci) if c.file and c.file != ci.file))
    isa = {ci.name: {c.name for c in model.mro(ci)}}

    def run(a, b):
        it = Interp.for_file(ctx.src, ci.file, isa, {}, also=also, methods=methods)
        try:
            return it.call_function(fn, [a, b], {}, Env())
        except Raised as r:
            return f'<raises {r.exc_name}>'
    for label, a, b, want in cases:
        r1 = run(a, b)
        r2 = run(b, a) if isinstance(b, Obj) and b.kind == ci.name else r1
        lawful = isinstance(r1, bool) and isinstance(r2, bool) and r1 is r2 and (want is None or r1 is want)
        ctx.ob('C18.eq-symmetric', f'{cons}:{label}', lawful,
               f'{cons} [{label}]: a == b gives {r1!r}, b == a gives {r2!r}' + (f', expected {want}' if want is not None else '') +
               ': equality must be a boolean, never raise, be the same in both directions and hold for identical objects',
               file=ci.file, line=fn.lineno)
    # a field that equality ignores (objects differing only there compare equal) must not be something a printer writes: equal objects print the same SQL
    ignored = [f for f in init_fields if run(mk(), mk(change=f)) is True]
    if ignored:
        printers = []
        for f_ in ctx.src.py_files('mindsdb_sql'):
            in_render = f_.endswith('render/sqlalchemy_render.py')
            if not (in_render or '/parser/' in f_):
                continue
            for fn_ in [x for x in ast.walk(ctx.src.tree(f_)) if isinstance(x, ast.FunctionDef)]:
                if in_render or fn_.name in ('get_string', 'to_string', 'to_tree', '__str__', '__repr__'):
                    printers.append((f_, fn_))
        for f in ignored:
            hits = [(f_, fn_, x) for f_, fn_ in printers for x in ast.walk(fn_)
                    if isinstance(x, ast.Attribute) and x.attr == f and isinstance(x.ctx, ast.Load) and not (isinstance(x.value, ast.Name) and x.value.id == 'self' and f_ != ci.file)]
            # a read through `self` counts only in the class's own file; reads through another name (`col.nullable`) count everywhere
            ctx.ob('C18.eq-implies-same-print', f'{ci.name}.{f}:ignored-by-eq', not hits,
                   (f'{cons} ignores the field `{f}` (two objects that differ only there compare equal), but {hits[0][1].name} in {hits[0][0]} writes it out (`{norm(hits[0][2])}`): '
                    f'equal objects then print different SQL, and steps / plans that hold them compare equal although the statements differ') if hits else '',
                   file=ci.file, line=fn.lineno, witness=f'{ci.name}(..., {f}=a) == {ci.name}(..., {f}=b)')
            ctx.count('eq_ignored_fields')
    # transitivity over all the objects built above
    objs = []
    for label, a, b, want in cases:
        for o in (a, b):
            if isinstance(o, Obj) and o.kind == ci.name and not any(o is x for _, x in objs):
                objs.append((label, o))
    objs = objs[:9]
    eqm = {}
    for i, (_, a) in enumerate(objs):
        for j, (_, b) in enumerate(objs):
            eqm[(i, j)] = run(a, b)
    bad = None
    for i in range(len(objs)):
        for j in range(len(objs)):
            for k_ in range(len(objs)):
                if eqm[(i, j)] is True and eqm[(j, k_)] is True and eqm[(i, k_)] is not True and bad is None:
                    bad = (objs[i][0], objs[j][0], objs[k_][0])
    ctx.ob('C18.eq-symmetric', f'{cons}:transitive', bad is None,
           f'{cons} is not transitive: the objects of the cases {bad} satisfy a == b and b == c but not a == c (e.g. a comparison that stops at the shorter of two lists '
           f'makes every plan equal to its prefixes)' if bad else '', file=ci.file, line=fn.lineno)
    # hash: an int, and equal objects hash alike (__hash__ interpreted on the same objects)
    hf = ci.methods.get('__hash__')
    if hf is not None:
        def run_hash(a):
            it = Interp.for_file(ctx.src, ci.file, isa, {}, also=also, methods=methods)
            try:
                return it.call_function(hf, [a], {}, Env())
            except Raised as r:
                return f'<raises {r.exc_name}>'
        hs = [run_hash(o) for _, o in objs]
        ctx.ob('C18.hash', f'{ci.name}.__hash__', all(isinstance(h, int) and not isinstance(h, bool) for h in hs),
               f'{ci.name}.__hash__ gives {[h for h in hs if not isinstance(h, int)][:2]}, which is not an int: hashing raises TypeError',
               file=ci.file, line=hf.lineno, witness=f'hash({ci.name}(1))')
        badh = [(objs[i][0], objs[j][0]) for i in range(len(objs)) for j in range(len(objs)) if eqm[(i, j)] is True and hs[i] != hs[j]]
        ctx.ob('C18.hash-consistent', f'{ci.name}.__hash__', not badh,
               f'{ci.name}: the objects of the cases {badh[:1]} are equal but hash differently (the hash uses something __eq__ does not compare): '
               f'a set / dict keyed by them holds duplicates', file=ci.file, line=hf.lineno)
        ctx.extra.setdefault('hash_tables', []).append(ci.name)
    ctx.count('eq_tables')
    return True


def check_uniform_attributes(ctx, model):
    """Classes whose __eq__ walks vars(self) / self.__dict__: every instance must carry the SAME attributes.  A constructor that assigns an attribute only on some
    paths (the others falling back to a class-level default) gives vars(a) != vars(b), and the comparison then sees a difference from one side only."""
    done = set()
    for ci in [c for lst in model.classes.values() for c in lst]:
        fn = ci.methods.get('__eq__')
        if fn is None or not ci.file.startswith('mindsdb_sql/'):
            continue
        # the comparison walks the instance's own attribute dict: in __eq__ itself or in a helper of the same file it hands the object to
        mod_fns = {n.name: n for n in ctx.src.tree(ci.file).body if isinstance(n, ast.FunctionDef)}
        bodies, seen_h = [fn], set()
        for f_ in bodies:
            for n in ast.walk(f_):
                if isinstance(n, ast.Call):
                    nm = n.func.id if isinstance(n.func, ast.Name) else (n.func.attr if isinstance(n.func, ast.Attribute) and norm(n.func.value) == 'self' else None)
                    tgt = mod_fns.get(nm) or (ci.methods.get(nm) if nm else None)
                    if tgt is not None and nm not in seen_h and len(seen_h) < 6:
                        seen_h.add(nm)
                        bodies.append(tgt)
        if not any((isinstance(n, ast.Call) and dotted(n.func) == 'vars') or (isinstance(n, ast.Attribute) and n.attr == '__dict__') for f_ in bodies for n in ast.walk(f_)):
            continue
        cons = f'{ci.name}.__eq__'
        for sub in model.subclasses(ci.name):
            for c2 in model.mro(sub):
                f2 = c2.methods.get('__init__')
                if f2 is None or c2.name in done:
                    continue
                done.add(c2.name)

                def transfer(s_, st_):
                    must, may = st_
                    new = set()
                    tg = []
                    if isinstance(s_, ast.Assign):
                        tg = s_.targets
                    elif isinstance(s_, (ast.AnnAssign, ast.AugAssign)):
                        tg = [s_.target]
                    for t_ in tg:
                        for e_ in (t_.elts if isinstance(t_, (ast.Tuple, ast.List)) else [t_]):
                            if isinstance(e_, ast.Attribute) and isinstance(e_.value, ast.Name) and e_.value.id == 'self':
                                new.add(e_.attr)
                    if isinstance(s_, ast.Expr) and isinstance(s_.value, ast.Call) and dotted(s_.value.func) == 'setattr' and len(s_.value.args) >= 2 \
                            and norm(s_.value.args[0]) == 'self' and isinstance(s_.value.args[1], ast.Constant):
                        new.add(s_.value.args[1].value)
                    return (must | frozenset(new), may | frozenset(new))
                res = Flow(transfer, lambda a, b: (a[0] & b[0], a[1] | b[1])).run(f2, (frozenset(), frozenset()))
                ends = [st_ for _, st_ in res.returns] + ([res.end] if res.end is not None else [])
                sometimes = set()
                for must, may in ends:
                    sometimes |= set(may) - set(must)
                alls = [set(must) for must, _ in ends]
                if alls:
                    sometimes |= set.union(*alls) - set.intersection(*alls)
                ctx.count('uniform_constructors')
                ctx.ob('C18.eq-symmetric', f'{c2.name}.__init__:uniform-attributes', not sometimes,
                       f'{c2.name}.__init__ assigns {sorted(sometimes)} on some paths only: instances then differ in the attributes they carry, and {cons} compares '
                       f'the attributes of the LEFT object only - a == b can be True while b == a is False', file=c2.file, line=f2.lineno,
                       witness='ApplyTimeseriesPredictorStep(...) == ApplyTimeseriesPredictorStep(..., output_time_filter=f)')
    ctx.floor('uniform_constructors', 20)


def check_plan_histories(ctx, model):
    """`two plans built from equal steps compare equal`: QueryPlan's own constructor / add_step / __eq__ interpreted (sa/interp.py) on plans that hold equal steps
    but were built along different histories - steps handed to the constructor, steps added one by one, and (as the join planner does for a partitioned model
    join) a container step that is added empty and receives its sub-steps afterwards.  Whatever the plan records while steps are added, equality is a function
    of the steps only."""
    from ..interp import Interp, Obj, Raised, Env
    lst = model.classes.get('QueryPlan', [])
    ctx.need(len(lst) == 1, 'class QueryPlan not found')
    ci = lst[0]
    init, add, eq = ci.methods.get('__init__'), ci.methods.get('add_step'), ci.methods.get('__eq__')
    ctx.need(init is not None and add is not None and eq is not None, 'QueryPlan.__init__ / add_step / __eq__ not found')
    isa = {'QueryPlan': set(), 'FetchDataframeStep': {'PlanStep'}, 'MapReduceStep': {'PlanStep'}, 'ApplyPredictorStep': {'PlanStep'}, 'JoinStep': {'PlanStep'},
           'Result': set(), 'Select': {'ASTNode'}, 'Parameter': {'ASTNode'}}
    methods = {}

    def interp():
        return Interp.for_file(ctx.src, ci.file, isa, {'get_query_params': lambda it, q: [], 'utils.get_query_params': lambda it, q: []}, methods=methods)

    def steps(built):
        s0 = Obj('FetchDataframeStep', step_num=None, integration='int1', query=Obj('Select', _q=0), result_data=None, references=[])
        sub = [Obj('ApplyPredictorStep', step_num='1_0', dataframe=Obj('Result', step_num=0), result_data=None, references=[]),
               Obj('JoinStep', step_num='1_1', left=Obj('Result', step_num=0), right=Obj('Result', step_num='1_0'), result_data=None, references=[])]
        cont = Obj('MapReduceStep', step_num=None, values=Obj('Result', step_num=0), step=(list(sub) if built else []), reduce='union', partition=10, result_data=None,
                   references=[])
        s2 = Obj('JoinStep', step_num=None, left=Obj('Result', step_num=0), right=Obj('Result', step_num=1), result_data=None, references=[])
        return s0, cont, s2, sub

    def build(history):
        it = interp()
        plan = Obj('QueryPlan')
        s0, cont, s2, sub = steps(built=history != 'container filled after it was added')
        if history == 'steps handed to the constructor':
            it.call_function(init, [plan], {'steps': [s0, cont, s2]}, Env())
        else:
            it.call_function(init, [plan], {}, Env())
            it.call_function(add, [plan, s0], {}, Env())
            it.call_function(add, [plan, cont], {}, Env())
            if history == 'container filled after it was added':
                cont.attrs['step'].extend(sub)
            it.call_function(add, [plan, s2], {}, Env())
        return plan
    histories = ('steps handed to the constructor', 'steps added one by one', 'container filled after it was added')
    try:
        plans = {h: build(h) for h in histories}
    except Raised as r:
        ctx.ob('C18.plan-histories', 'construction', False, f'building a plan of three steps raises {r.exc_name}', file=ci.file, line=add.lineno)
        return
    n = 0
    for h1 in histories:
        for h2 in histories:
            try:
                r = interp().call_function(eq, [plans[h1], plans[h2]], {}, Env())
            except Raised as e_:
                r = f'<raises {e_.exc_name}>'
            n += 1
            ctx.ob('C18.plan-histories', f'{h1} == {h2}', r is True,
                   f'two plans that hold equal steps ({h1} / {h2}) compare as {r!r}: equality of plans must depend on the steps only, not on what the plan recorded while '
                   f'they were added (the join planner adds a MapReduceStep empty and appends its sub-steps afterwards)', file=ci.file, line=eq.lineno,
                   witness='plan_query(<join with a model USING partition_size=10>) == QueryPlan(steps=<the same steps>)')
    ctx.setcount('plan_history_rows', n)
    ctx.floor('plan_history_rows', 9)


def run(ctx):
    ctx.explanation = (
        'Protocol lints, exhaustive over all classes of mindsdb_sql: (1) ASTNode.copy is copy.deepcopy(self) and no AST class '
        'customises copying except those analysed; (2) for each customised copier the set of attributes instances can carry '
        '(stored on self anywhere in the MRO, or stored from outside on provably fresh instances anywhere in the repository) '
        'must be transferred, mutable ones through deepcopy; (3) no constructor stores a mutable default argument; '
        '(4) every __eq__ returns a bool on all CFG paths; (5) __eq__ comparisons are invariant under swapping self/other, '
        'type guards are symmetric, vars(self)-driven comparison is symmetric because every late attribute is skipped; '
        '(6) ASTNode.__eq__ conjoins tree equality with printed-text equality (equal => same SQL); (7) __hash__ returns an int '
        'built only from fields __eq__ compares. NOT decided: equality/printing of concrete trees (run-time values).')
    ctx.not_decided = ['that a deep copy prints identically for every tree (follows from deepcopy semantics, not re-proved)']
    ctx.assumptions = ['copy.deepcopy shares no mutable object for classes without custom copy hooks (CPython semantics)']
    model = model_for(ctx.src)
    ast_classes = model.subclasses('ASTNode')
    ctx.setcount('ast_classes', len(ast_classes))
    all_classes = [ci for lst in model.classes.values() for ci in lst]
    ctx.setcount('classes', len(all_classes))
    check_uniform_attributes(ctx, model)
    check_plan_histories(ctx, model)
    # equality is computed from text (to_tree + printed SQL, repr of embedded values): no printer / __repr__ / comparison may mention the identity of an object
    # (C20's rule, over the classes' files)
    from . import C20
    nfiles = 0
    for f_ in ctx.src.py_files('mindsdb_sql'):
        nfiles += 1
        for fn_, call_, why_ in C20.process_dependent_calls(ctx.src.tree(f_), f_):
            if fn_.name in C20.PRINTERISH | {'__hash__'}:
                ctx.ob('C18.eq-implies-same-print', f'identity-free:{f_.split("/")[-1]}:{fn_.name}:{norm(call_)[:40]}', False,
                       f'{fn_.name} computes `{norm(call_)[:60]}`: {why_}; trees are compared by their text (to_tree embeds the repr of parameter values), so a tree is no longer '
                       f'equal to its own copy', file=f_, line=call_.lineno, witness='parse_sql("CREATE CHATBOT b USING model=m").copy() == <the tree>')
    ctx.setcount('identity_scan_files', nfiles)
    ctx.ob('C18.eq-implies-same-print', 'identity-free:all', True, '')

    # (1) generic deepcopy
    base = model.get('ASTNode')
    cp = base.methods.get('copy')
    ctx.need(cp is not None, 'ASTNode.copy not found')
    rets = [n for n in walk_no_nested(cp) if isinstance(n, ast.Return)]
    ok = len(rets) == 1 and isinstance(rets[0].value, ast.Call) and dotted(rets[0].value.func) in ('copy.deepcopy', 'deepcopy') \
        and norm(rets[0].value.args[0]) == 'self'
    ctx.ob('C18.generic-deepcopy', 'ASTNode.copy', ok,
           f'ASTNode.copy is not `return copy.deepcopy(self)` ({norm(rets[0]) if rets else "no return"}): a shallower copy shares '
           f'child nodes with the original', file=base.file, line=cp.lineno)
    customised = []
    for ci in all_classes:
        own = [m for m in PROTOCOL if m in ci.methods or any(
            isinstance(s, ast.Assign) and any(isinstance(t, ast.Name) and t.id == m for t in s.targets) for s in ci.node.body)]
        if own:
            customised.append((ci, own))
    ctx.setcount('customised_copiers', len(customised))
    outside = outside_attrs(ctx, model)

    # (2) custom copiers complete and deep
    for ci, own in customised:
        for m in own:
            if m not in ('__copy__', '__deepcopy__'):
                ctx.ob('C18.custom-copy-complete', f'{ci.name}.{m}', False,
                       f'{ci.name} defines {m}, a copy/pickle hook the analysis does not model', file=ci.file, line=ci.node.lineno)
        fields = set(model.self_fields(ci)) | set(outside.get(ci.name, {}))
        params = dict(model.init_params(ci))
        for sup in model.mro(ci):
            for p, d in model.init_params(sup):
                params.setdefault(p, d)
        for m in ('__copy__', '__deepcopy__'):
            if m not in ci.methods:
                continue
            fn = ci.methods[m]
            ctx.count('custom_copy_methods')
            try:
                if copier_table(ctx, model, ci, fn, m, fields, params):
                    continue
            except AnalysisError as e:
                ctx.note(f'{ci.name}.{m}: not interpretable ({str(e)[:80]}): decided by the syntactic transfer analysis')
            # the new object: a local assigned from a constructor call of the same class
            def transfers(fn, depth=0):
                newvar = None
                transferred = None
                for n in walk_no_nested(fn):
                    if isinstance(n, ast.Assign) and isinstance(n.value, ast.Call) and isinstance(n.targets[0], ast.Name):
                        d = dotted(n.value.func)
                        if d == ci.name:
                            newvar = n.targets[0].id
                            transferred = {k.arg: k.value for k in n.value.keywords if k.arg}
                            pos = [p for p, _ in model.init_params(ci)]
                            for p, a in zip(pos, n.value.args):
                                transferred[p] = a
                        elif d in ('self.__copy__', 'copy', 'copy.copy') and depth == 0 and (
                                d == 'self.__copy__' or (n.value.args and norm(n.value.args[0]) == 'self')):
                            newvar = n.targets[0].id
                            if '__copy__' in ci.methods and fn is not ci.methods['__copy__']:
                                _, transferred = transfers(ci.methods['__copy__'], 1)
                            else:               # generic shallow copy: every attribute is carried over by reference
                                transferred = {fl: ast.parse(f'self.{fl}', mode='eval').body for fl in fields}
                if newvar is None or transferred is None:
                    return None, None
                for n in walk_no_nested(fn):
                    if isinstance(n, ast.Assign) and len(n.targets) == 1 and isinstance(n.targets[0], ast.Attribute) \
                            and isinstance(n.targets[0].value, ast.Name) and n.targets[0].value.id == newvar:
                        transferred[n.targets[0].attr] = n.value
                return newvar, transferred
            newvar, transferred = transfers(fn)
            if newvar is None:
                ctx.ob('C18.custom-copy-complete', f'{ci.name}.{m}', False,
                       f'{ci.name}.{m}: unmodelled copier shape (no `x = {ci.name}(...)` / `x = self.__copy__()`)',
                       file=ci.file, line=fn.lineno)
                continue
            for fld in sorted(fields):
                ctx.ob('C18.custom-copy-complete', f'{ci.name}.{m}:{fld}', fld in transferred,
                       f'{ci.name}.{m} does not transfer the attribute `{fld}` that instances can carry '
                       f'({"stored from outside at " + ":".join(map(str, outside[ci.name][fld])) if fld in outside.get(ci.name, {}) else "set by the class itself"}): '
                       f'the copy silently loses it', file=ci.file, line=fn.lineno)
            if m == '__deepcopy__':
                for fld, v in sorted(transferred.items()):
                    d = params.get(fld)
                    immutable = isinstance(d, ast.Constant) and isinstance(d.value, (bool, int, float, str)) and d.value is not None
                    deep = isinstance(v, ast.Call) and dotted(v.func) in ('deepcopy', 'copy.deepcopy')
                    ctx.ob('C18.custom-copy-deep', f'{ci.name}.{m}:{fld}', deep or immutable,
                           f'{ci.name}.__deepcopy__ transfers `{fld}` as `{norm(v)}`, which is not a deep copy: mutable objects '
                           f'inside it (e.g. the Star node that `identifier DOT star` appends to parts, or an alias Identifier) '
                           f'are shared between the copy and the original, so changing the copy changes what the original prints',
                           file=ci.file, line=getattr(v, 'lineno', fn.lineno), witness='parse_sql("select t.* from t").copy().targets[0].parts[-1].parentheses = True')

    # (3) mutable defaults stored on self
    for ci in all_classes:
        fn = ci.methods.get('__init__')
        if fn is None:
            continue
        a = fn.args
        pos = a.posonlyargs + a.args
        defaults = [None] * (len(pos) - len(a.defaults)) + list(a.defaults)
        pairs = list(zip(pos, defaults)) + list(zip(a.kwonlyargs, a.kw_defaults))
        for p, d in pairs:
            if d is not None and isinstance(d, (ast.List, ast.Dict, ast.Set)) or (
                    isinstance(d, ast.Call) and dotted(d.func) in ('list', 'dict', 'set')):
                stored = any(isinstance(n, ast.Assign) and isinstance(n.value, ast.Name) and n.value.id == p.arg and
                             any(isinstance(t, ast.Attribute) for t in n.targets) for n in walk_no_nested(fn))
                ctx.ob('C18.mutable-default', f'{ci.name}.__init__:{p.arg}', not stored,
                       f'{ci.name}.__init__ stores its mutable default argument `{p.arg}={norm(d)}` on the instance: all '
                       f'instances built without that argument share one object', file=ci.file, line=fn.lineno)
        ctx.count('constructors')

    # (4)-(7) equality / hash
    eqs = [(ci, ci.methods['__eq__']) for ci in all_classes if '__eq__' in ci.methods]
    ctx.setcount('eq_methods', len(eqs))
    for ci, fn in eqs:
        cons = f'{ci.name}.__eq__'
        other = fn.args.args[1].arg if len(fn.args.args) > 1 else 'other'
        res = Flow(lambda s, st: st, lambda a, b: a).run(fn, 0)
        ctx.ob('C18.eq-total', cons, res.end is None,
               f'{cons} can fall off its end and return None (falsy) - e.g. for two equal objects', file=ci.file, line=fn.lineno)
        for r, _ in res.returns:
            v = r.value
            boolish = v is not None and not (isinstance(v, ast.Constant) and not isinstance(v.value, bool))
            ctx.ob('C18.eq-total', f'{cons}:return@{norm(r)}'[:90], boolish,
                   f'{cons} returns `{norm(v) if v is not None else None}` which is not a boolean', file=ci.file, line=r.lineno)
        table_done = False
        if ci.name != 'ASTNode':
            try:
                table_done = eq_table(ctx, model, ci, fn, cons)
            except AnalysisError as e:
                ctx.note(f'{cons}: not interpretable ({str(e)[:80]}): decided by the syntactic swap-closure rule')
        if table_done:
            continue
        # symmetric conditions: the set of atoms of every condition is closed under swapping self <-> other
        import re
        swap = lambda s: re.sub(r'\bself\b|\b%s\b' % re.escape(other), lambda m: other if m.group(0) == 'self' else 'self', s)

        def atoms(e):
            if isinstance(e, ast.BoolOp):
                out = []
                for v in e.values:
                    out.extend(atoms(v))
                return out
            if isinstance(e, ast.UnaryOp) and isinstance(e.op, ast.Not):
                return atoms(e.operand)
            return [e]

        def canon(a, sw=False):
            f = swap if sw else (lambda x: x)
            if isinstance(a, ast.Compare) and len(a.ops) == 1 and isinstance(a.ops[0], (ast.Eq, ast.NotEq, ast.Is, ast.IsNot)):
                return (type(a.ops[0]).__name__, frozenset([f(norm(a.left)), f(norm(a.comparators[0]))]))
            return ('expr', f(norm(a)))
        conds = [n.test for n in walk_no_nested(fn) if isinstance(n, (ast.If, ast.While, ast.IfExp))] + \
                [n.value for n in walk_no_nested(fn) if isinstance(n, ast.Return) and n.value is not None]
        for e in conds:
            ats = [a for a in atoms(e) if not (isinstance(a, ast.Call) and dotted(a.func) == 'isinstance')
                   and re.search(r'\bself\b|\b%s\b' % re.escape(other), norm(a))]
            if not ats:
                continue
            sym = {canon(a) for a in ats} == {canon(a, True) for a in ats}
            ctx.ob('C18.eq-symmetric', f'{cons}:{norm(e)}'[:110], sym,
                   f'{cons}: the condition `{norm(e)}` is not invariant under swapping self and {other}: a == b and b == a '
                   f'can differ', file=ci.file, line=e.lineno)
        for n in walk_no_nested(fn):
            if isinstance(n, ast.Call) and dotted(n.func) == 'isinstance' and len(n.args) == 2 and norm(n.args[0]) == other:
                cls_ok = dotted(n.args[1]) in [c.name for c in model.mro(ci)]
                ctx.ob('C18.eq-symmetric', f'{cons}:guard', cls_ok,
                       f'{cons}: type guard `{norm(n)}` does not test for a class of the receiver\'s own hierarchy', file=ci.file,
                       line=n.lineno)
        # vars(self)-driven comparison: every late attribute must be skipped
        loops = [n for n in walk_no_nested(fn) if isinstance(n, ast.For) and norm(n.iter) in ('vars(self)', 'self.__dict__',
                                                                                              'vars(self).keys()')]
        if loops:
            skipped = set()
            for n in ast.walk(loops[0]):
                if isinstance(n, ast.If) and isinstance(n.test, ast.Compare) and any(isinstance(x, ast.Continue) for x in n.body):
                    for c in [n.test.left] + n.test.comparators:
                        if isinstance(c, ast.Constant) and isinstance(c.value, str):
                            skipped.add(c.value)
                        if isinstance(c, (ast.Tuple, ast.List, ast.Set)):
                            skipped |= {e.value for e in c.elts if isinstance(e, ast.Constant)}
            late = {}
            for sub in model.subclasses(ci.name):
                init_fields = set()
                for c2 in model.mro(sub):
                    f2 = c2.methods.get('__init__')
                    if f2:
                        for x in walk_no_nested(f2):
                            if isinstance(x, ast.Attribute) and isinstance(x.value, ast.Name) and x.value.id == 'self' \
                                    and isinstance(x.ctx, ast.Store):
                                init_fields.add(x.attr)
                for attr, (c2, f2, node) in model.self_fields(sub).items():
                    if attr not in init_fields:
                        late[attr] = f'{c2.name}.{f2.name}'
                for attr, (file, line) in outside.get(sub.name, {}).items():
                    if attr not in init_fields:
                        late[attr] = f'{file}:{line}'
            for attr, where in sorted(late.items()):
                ctx.ob('C18.eq-symmetric', f'{cons}:late-attribute:{attr}', attr in skipped,
                       f'{cons} iterates vars(self); attribute `{attr}` is added after construction ({where}) and is not '
                       f'skipped, so a == b can be True while b == a raises AttributeError or is False', file=ci.file, line=fn.lineno)
            ctx.count('late_attributes', len(late))
    # (6) equal => same print
    fn = base.methods.get('__eq__')
    ctx.need(fn is not None, 'ASTNode.__eq__ not found')
    # truth table: ASTNode.__eq__ interpreted on stand-ins whose tree text / printed text are equal or not
    from ..interp import Interp, Obj, Raised, Env
    import itertools as _it
    okp = True
    rows = []
    for is_ast, same_tree, same_print in _it.product((True, False), (True, False), (True, False)):
        def mk(tree, text):
            return Obj('Select', to_tree=lambda *a, **k: tree, to_string=lambda *a, **k: text, get_string=lambda *a, **k: text, _str=text, alias=None,
                       parentheses=False)
        me = mk('T1', 'S1')
        you = mk('T1' if same_tree else 'T2', 'S1' if same_print else 'S2') if is_ast else 'not a node'
        stubs = {'str': lambda it, x=None: x.attrs['_str'] if isinstance(x, Obj) else str(x), 'to_single_line': lambda it, x: x, 'repr': lambda it, x: repr(x)}
        it = Interp.for_file(ctx.src, base.file, {'Select': {'ASTNode'}}, stubs,
                             methods={'Select': {k: v for k, v in base.methods.items() if k not in ('to_tree', 'to_string', 'get_string')}})
        try:
            got = it.call_function(fn, [me, you], {}, Env())
        except Raised as r:
            got = f'<{r.exc_name}>'
        want = is_ast and same_tree and same_print
        rows.append((is_ast, same_tree, same_print, got))
        if got is not want and not (got in (False, None) and want is False):
            okp = False
    ctx.extra['ast_eq_truth_table'] = [list(map(str, r)) for r in rows]
    ctx.ob('C18.eq-implies-same-print', 'ASTNode.__eq__', okp,
           f'ASTNode.__eq__ (rows: is-a-node, same to_tree, same printed text -> result: {rows}) must be True exactly when the other object is a node with the same '
           f'tree text AND the same printed SQL: two trees can otherwise compare equal and print different SQL (to_tree omits e.g. `parentheses`)',
           file=base.file, line=fn.lineno,
           witness='parse_sql("select * from t where (a = 1)") == parse_sql("select * from t where a = 1")')
    # (7) hash
    for ci in all_classes:
        if '__hash__' not in ci.methods:
            continue
        fn = ci.methods['__hash__']
        ctx.count('hash_methods')
        if ci.name in ctx.extra.get('hash_tables', []):
            continue            # decided by interpretation next to the equality table
        eqf = set()
        if '__eq__' in ci.methods:
            eqf = {x.attr for x in ast.walk(ci.methods['__eq__']) if isinstance(x, ast.Attribute) and isinstance(x.value, ast.Name)
                   and x.value.id == 'self'}
        for r in [n for n in walk_no_nested(fn) if isinstance(n, ast.Return)]:
            v = r.value

            def intish(e):
                if isinstance(e, ast.Call):
                    d = dotted(e.func) or ''
                    return d == 'hash' or d.endswith('.__hash__') or d in ('int', 'id', 'len')
                if isinstance(e, ast.Constant):
                    return isinstance(e.value, int)
                if isinstance(e, ast.BinOp):
                    return intish(e.left) and intish(e.right)
                return False
            ctx.ob('C18.hash', f'{ci.name}.__hash__', v is not None and intish(v),
                   f'{ci.name}.__hash__ returns `{norm(v) if v is not None else None}`, which is not an int: hashing raises TypeError',
                   file=ci.file, line=r.lineno, witness=f'hash({ci.name}(1))')
            used = {x.attr for x in ast.walk(fn) if isinstance(x, ast.Attribute) and isinstance(x.value, ast.Name) and x.value.id == 'self'}
            if eqf:
                ctx.ob('C18.hash-consistent', f'{ci.name}.__hash__', used <= eqf,
                       f'{ci.name}.__hash__ uses {sorted(used - eqf)} which __eq__ does not compare: equal objects can hash differently',
                       file=ci.file, line=fn.lineno)
    ctx.sample({'customised_copiers': [f'{ci.name}:{own}' for ci, own in customised]})
    ctx.sample({'eq_methods': [f'{ci.name}' for ci, _ in eqs]})
    ctx.sample({'attributes_stored_from_outside': {k: sorted(v) for k, v in outside.items()}})
    ctx.floor('ast_classes', 75)
    ctx.floor('custom_copy_methods', 2)
    ctx.floor('eq_methods', 5)
    ctx.floor('hash_methods', 1)
    ctx.floor('constructors', 100)
