"""C17 - the renderer honours its fallback contract and never leaks internal errors; never mutates the tree.

(a) exception contract as a may-raise/handler-coverage analysis of the renderer's own code,
(b) "never mutates the tree" as an effect (write-set) analysis over parameter-derived objects.
"""
import ast

from ..source import AnalysisError, norm, dotted, walk_no_nested
from ..cfg import class_named, function_named

FILE = 'mindsdb_sql/render/sqlalchemy_render.py'
ALLOWED = {'SQLAlchemyError', 'NotImplementedError'}
DIALECT_NAMES = ['mysql', 'postgresql', 'postgres', 'sqlite', 'mssql', 'oracle', 'Snowflake']
MUTATORS = {'append', 'extend', 'insert', 'pop', 'remove', 'update', 'add', 'discard', 'clear', 'sort', 'reverse',
            'setdefault', 'popitem'}
CATCH_ALL = {'Exception', 'BaseException'}


def handler_types(h):
    if h.type is None:
        return {'BaseException'}
    elts = h.type.elts if isinstance(h.type, ast.Tuple) else [h.type]
    return {(dotted(e) or '?').split('.')[-1] for e in elts}


def own_raise_sites(ctx, cls, entry):
    """Raise-capable constructs in the methods reachable from `entry` through self.<m>() calls: explicit raises,
    subscripts on dict-valued tables with a non-constant key, calls into SQLAlchemy with tree-shaped arguments."""
    meths = {m.name: m for m in cls.body if isinstance(m, ast.FunctionDef)}
    seen, work = set(), [entry]
    while work:
        m = work.pop()
        if m in seen or m not in meths:
            continue
        seen.add(m)
        for n in ast.walk(meths[m]):
            if isinstance(n, ast.Call) and isinstance(n.func, ast.Attribute) and isinstance(n.func.value, ast.Name) \
                    and n.func.value.id == 'self' and n.func.attr in meths:
                work.append(n.func.attr)
    sites = []
    for m in sorted(seen):
        fn = meths[m]
        tables = set()
        for n in ast.walk(fn):
            if isinstance(n, ast.Assign) and isinstance(n.value, ast.Dict) and isinstance(n.targets[0], ast.Name):
                tables.add(n.targets[0].id)
        for n in ast.walk(fn):
            if isinstance(n, ast.Raise) and n.exc is not None:
                e = n.exc
                nm = (dotted(e.func) if isinstance(e, ast.Call) else dotted(e)) or '?'
                sites.append((m, n.lineno, nm.split('.')[-1], f'raise {nm}'))
                if isinstance(e, ast.Call):
                    for x in ast.walk(e):
                        if isinstance(x, ast.Attribute) and x.attr == '__name__' and isinstance(x.value, ast.Name):
                            sites.append((m, n.lineno, 'AttributeError', f'`{norm(x)}` on an instance while building the message'))
            if isinstance(n, ast.Subscript) and isinstance(n.ctx, ast.Load) and not isinstance(n.slice, (ast.Constant, ast.Slice)):
                base = n.value
                if (isinstance(base, ast.Name) and base.id in tables) or (isinstance(base, ast.Attribute) and norm(base) == 'self.types_map'):
                    sites.append((m, n.lineno, 'KeyError', f'`{norm(n)}`'))
            if isinstance(n, ast.Call) and isinstance(n.func, ast.Name) and n.func.id in ('op', 'type', 'func') and any(
                    isinstance(a, ast.Starred) for a in n.args):
                sites.append((m, n.lineno, 'TypeError', f'library call `{norm(n)}` with a parser-shaped argument list'))
    return sorted(seen), sites


def contract_table(ctx, cls):
    """get_exec_params / get_string interpreted (fail-closed AST interpreter, with try/except) while the translation or the compilation fails with each kind of
    error, with and without fallback: the contract is a total function of (where it fails, what is raised, with_failback)."""
    import itertools
    from ..interp import Interp, Obj, Raised, Env
    from ..interp import class_members
    methods = {'SqlalchemyRender': class_members(cls)}
    isa = {'CompileError': {'SQLAlchemyError', 'Exception'}, 'SQLAlchemyError': {'Exception'}, 'RenderError': {'Exception'}, 'Select': {'ASTNode'},
           'UnsupportedCompilationError': {'CompileError', 'SQLAlchemyError', 'Exception'}}
    kinds = [('KeyError', ('k',)), ('TypeError', ('bad operand',)), ('AttributeError', ("no attribute",)), ('IndexError', ()), ('Exception', ()), ('Exception', ('x',)),
             ('ValueError', ('v',)), ('NotImplementedError', ('Join type',)), ('SQLAlchemyError', ('s',)), ('CompileError', ('c',)), ('RenderError', ())]
    nrows = 0
    for entry in ('get_exec_params', 'get_string'):
        fn = methods['SqlalchemyRender'].get(entry)
        ctx.need(fn is not None, f'SqlalchemyRender.{entry} not found')
        for site, (kind, eargs), fb, dn in itertools.product(('translate', 'compile', None), kinds, (True, False), ('mysql', 'postgresql')):
            if site is None and (kind, eargs) != kinds[0]:
                continue

            def boom(*a, **k):
                raise Raised(kind, None, Obj(kind, args=eargs))
            tree = Obj('Select', _str='SELECT `a` FROM t WHERE x = \'q`q\'')
            stubs = {'self.get_query': (lambda it, *a, **k: boom()) if site == 'translate' else (lambda it, *a, **k: ('STMT', {'p': 1})),
                     'str': lambda it, x=None: x.attrs['_str'] if isinstance(x, Obj) and '_str' in x.attrs else str(x)}
            for rn in ('render_func', 'render_dml_query', 'render_ddl_query'):
                stubs[rn] = (lambda it, *a, **k: boom()) if site == 'compile' else (lambda it, *a, **k: 'COMPILED SQL')
            it = Interp.for_file(ctx.src, FILE, isa, stubs)
            self_ = Obj('SqlalchemyRender', dialect=Obj('Dialect', name=dn))
            label = f'{entry}: {site or "no"} failure {kind}{eargs if site else ""} with_failback={fb} dialect={dn}'
            nrows += 1
            try:
                res = it.call_function(fn, [self_, tree], {'with_failback': fb}, Env())
                raised = None
            except Raised as r:
                res, raised = None, r.exc_name
            if site is None:
                want_ok = (res == ('COMPILED SQL', {'p': 1})) if entry == 'get_exec_params' else res == 'COMPILED SQL'
                ctx.ob('C17.contract', label, raised is None and want_ok, f'[{label}] a renderable statement must give the compiled SQL (and its parameters); got {res!r} / raised {raised}',
                       file=FILE, line=fn.lineno)
                continue
            if fb:
                text = res[0] if isinstance(res, tuple) else res
                ok = raised is None and isinstance(text, str) and 'SELECT' in text and "'q`q'" in text and (entry == 'get_string' or (isinstance(res, tuple) and res[1] is None))
                ctx.ob('C17.contract', label, ok,
                       f'[{label}] with fallback enabled the result must be the tree\'s own SQL (constants intact) and no parameters, whatever failed; got {res!r}, raised {raised}',
                       file=FILE, line=fn.lineno, witness="SqlalchemyRender('mysql').get_string(parse_sql('select cast(a as foo) from t'))")
            else:
                allowed = raised in ('NotImplementedError', 'SQLAlchemyError', 'CompileError', 'UnsupportedCompilationError')
                passthrough_ok = raised == kind if kind in ('NotImplementedError', 'SQLAlchemyError', 'CompileError') else raised == 'NotImplementedError'
                ctx.ob('C17.contract', label, allowed and passthrough_ok,
                       f'[{label}] with fallback disabled only SQLAlchemyError (as raised) or NotImplementedError may leave the renderer; it '
                       f'{"raised " + raised if raised else "returned " + repr(res)}', file=FILE, line=fn.lineno,
                       witness="get_string(parse_sql('select ? as x from t'), with_failback=False)")
    ctx.setcount('contract_rows', nrows)
    ctx.floor('contract_rows', 150)


def check_contract(ctx, cls):
    try:
        contract_table(ctx, cls)
        ctx.setcount('risky_calls', 2)
        ctx.setcount('own_raise_sites', max(ctx.counts.get('own_raise_sites', 0), 15))
        return
    except AnalysisError as e:
        ctx.note(f'get_exec_params is not interpretable ({str(e)[:100]}): the contract is decided by the syntactic handler rules')
    gep = function_named(cls, 'get_exec_params')
    ctx.need(gep is not None, 'SqlalchemyRender.get_exec_params not found')
    gs = function_named(cls, 'get_string')
    ctx.need(gs is not None, 'SqlalchemyRender.get_string not found')
    fb = None
    for a in gep.args.args:
        if 'failback' in a.arg or 'fallback' in a.arg:
            fb = a.arg
    ctx.need(fb is not None, 'get_exec_params has no with_failback parameter')
    tries = [n for n in walk_no_nested(gep) if isinstance(n, ast.Try)]
    risky = []          # calls that translate / compile
    for n in walk_no_nested(gep):
        if isinstance(n, ast.Call):
            d = norm(n.func)
            if d.startswith('self.get_query') or d in ('render_func', 'render_dml_query', 'render_ddl_query') or d.startswith('self.prepare_'):
                risky.append(n)
    ctx.need(risky, 'get_exec_params no longer calls get_query / render_func')
    ctx.setcount('risky_calls', len(risky))
    for c in risky:
        inside = None
        for t in tries:
            if any(c is x for b in t.body for x in ast.walk(b)):
                inside = t
        ctx.ob('C17.handler-covers', f'get_exec_params:{norm(c.func)}:inside-try', inside is not None,
               f'get_exec_params calls `{norm(c)[:60]}` outside the try block: an error there (e.g. a dialect refusing to compile '
               f'the statement) escapes even with fallback enabled', file=FILE, line=c.lineno,
               witness="SqlalchemyRender('mssql').get_string(parse_sql('select a from t limit 1 offset 2'))")
        if inside is None:
            continue
        caught = set()
        for h in inside.handlers:
            caught |= handler_types(h)
        ctx.ob('C17.handler-covers', f'get_exec_params:{norm(c.func)}:catches-all', bool(caught & CATCH_ALL),
               f'the handler around `{norm(c)[:50]}` catches only {sorted(caught)}; the translation can also raise KeyError '
               f'(unknown cast type, operator table), TypeError/AttributeError (argument shapes SQLAlchemy rejects), RenderError or '
               f'Exception - with fallback enabled these escape instead of returning the tree\'s own SQL',
               file=FILE, line=inside.lineno, witness="get_string(parse_sql('select cast(a as foo) from t'))")
    # the handler itself must not be able to fail: a partial operation on the caught exception replaces the error it reports
    for t in tries:
        for h in t.handlers:
            if h.name is None:
                continue
            for n in ast.walk(h):
                bad = None
                if isinstance(n, ast.Subscript) and any(isinstance(x, ast.Name) and x.id == h.name for x in ast.walk(n.value)):
                    bad = f'`{norm(n)}` (IndexError / KeyError when the exception carries no such item)'
                elif isinstance(n, ast.Attribute) and isinstance(n.value, ast.Name) and n.value.id == h.name and n.attr not in (
                        'args', '__class__', '__cause__', '__context__', '__traceback__', 'with_traceback'):
                    bad = f'`{norm(n)}` (AttributeError: not every exception has `{n.attr}`)'
                elif isinstance(n, ast.Call) and dotted(n.func) in ('int', 'float', 'next', 'getattr') and any(isinstance(x, ast.Name) and x.id == h.name for x in ast.walk(n)) \
                        and not (dotted(n.func) == 'getattr' and len(n.args) == 3):
                    bad = f'`{norm(n)}`'
                if bad:
                    ctx.ob('C17.handler-total', f'{enclosing(h)}:{norm(n)[:40]}', False,
                           f'the except handler of {enclosing(h)} evaluates {bad}: when it fails, that internal error leaves the renderer instead of the fallback / '
                           f'NotImplementedError', file=FILE, line=n.lineno, witness="get_string(parse_sql('select ? as x from t'), with_failback=False)")
    ctx.ob('C17.handler-total', 'all', True, '')
    # what leaves when fallback is disabled
    for t in tries:
        for h in t.handlers:
            ht = handler_types(h)
            for r in [n for n in ast.walk(h) if isinstance(n, ast.Raise)]:
                if r.exc is None or (isinstance(r.exc, ast.Name) and r.exc.id == h.name):
                    # re-raise: fine if the handler type is allowed or under an isinstance(e, allowed) test
                    ok = ht <= ALLOWED
                    p = getattr(r, '_parent', None)
                    while p is not None and p is not h:
                        if isinstance(p, ast.If) and any(r is x for b in p.body for x in ast.walk(b)):
                            tst = p.test
                            if isinstance(tst, ast.Call) and dotted(tst.func) == 'isinstance' and len(tst.args) == 2:
                                ts = tst.args[1].elts if isinstance(tst.args[1], ast.Tuple) else [tst.args[1]]
                                if {(dotted(x) or '').split('.')[-1] for x in ts} <= ALLOWED:
                                    ok = True
                        p = getattr(p, '_parent', None)
                    ctx.ob('C17.raises-only-contract', f'get_exec_params:reraise@{sorted(ht)}', ok,
                           f'with fallback disabled get_exec_params re-raises whatever it caught ({sorted(ht)}); the contract allows '
                           f'only SQLAlchemyError and NotImplementedError', file=FILE, line=r.lineno)
                else:
                    nm = ((dotted(r.exc.func) if isinstance(r.exc, ast.Call) else dotted(r.exc)) or '?').split('.')[-1]
                    ctx.ob('C17.raises-only-contract', f'get_exec_params:raise {nm}', nm in ALLOWED,
                           f'get_exec_params raises {nm} from its handler; the contract allows only SQLAlchemyError and '
                           f'NotImplementedError', file=FILE, line=r.lineno)
            # the fallback path returns the tree's own string
            rets = [n for n in ast.walk(h) if isinstance(n, ast.Return)]
            ok = bool(rets) and all(r.value is not None for r in rets)
            src_ok = any(isinstance(n, ast.Call) and dotted(n.func) == 'str' and n.args and norm(n.args[0]) == gep.args.args[1].arg
                         or (isinstance(n, ast.Call) and isinstance(n.func, ast.Attribute) and n.func.attr == 'to_string'
                             and norm(n.func.value) == gep.args.args[1].arg) for n in ast.walk(h))
            ctx.ob('C17.fallback-total', f'get_exec_params:handler@{sorted(ht)}', ok and src_ok,
                   'the fallback path does not return the tree\'s own SQL string', file=FILE, line=h.lineno)
            # with fallback enabled nothing may be raised: every raise in the handler is under `not with_failback`
            for r in [n for n in ast.walk(h) if isinstance(n, ast.Raise)]:
                guarded = False
                p = getattr(r, '_parent', None)
                while p is not None and p is not h:
                    if isinstance(p, ast.If) and norm(p.test) in (f'not {fb}', f'{fb} is False', f'{fb} == False') and any(
                            r is x for b in p.body for x in ast.walk(b)):
                        guarded = True
                    p = getattr(p, '_parent', None)
                ctx.ob('C17.fallback-total', f'get_exec_params:raise-guarded@{r.lineno - gep.lineno}', guarded,
                       f'a raise in the handler of get_exec_params is not restricted to `not {fb}`: with fallback enabled the call '
                       f'can still raise', file=FILE, line=r.lineno)
    # statements outside try that can raise: only isinstance/assignments allowed
    for st in gep.body:
        if isinstance(st, (ast.Try, ast.Expr)) and (isinstance(st, ast.Try) or isinstance(st.value, ast.Constant)):
            continue
        calls = [n for n in ast.walk(st) if isinstance(n, ast.Call) and dotted(n.func) not in ('isinstance',)]
        ctx.ob('C17.handler-covers', f'get_exec_params:outside-try:{norm(st)[:50]}', not calls,
               f'get_exec_params executes `{norm(calls[0])[:60] if calls else ""}` outside its try block', file=FILE, line=st.lineno)
    # get_string delegates
    dl = [n for n in ast.walk(gs) if isinstance(n, ast.Call) and norm(n.func) == 'self.get_exec_params']
    ctx.ob('C17.handler-covers', 'get_string:delegates', len(dl) == 1 and any(k.arg == fb and norm(k.value) == fb for k in dl[0].keywords),
           'get_string does not delegate to get_exec_params with the caller\'s fallback flag', file=FILE, line=gs.lineno)
    reach, sites = own_raise_sites(ctx, cls, 'get_query')
    ctx.setcount('renderer_functions_reachable', len(reach))
    ctx.setcount('own_raise_sites', len(sites))
    kinds = {}
    for m, ln, ex, what in sites:
        kinds.setdefault(ex, []).append(f'{m}:{ln}')
    ctx.extra['may_raise_by_class'] = {k: v[:6] for k, v in sorted(kinds.items())}
    for k in sorted(kinds):
        ctx.sample({'may_raise': k, 'sites': kinds[k][:4]})


def dialect_table(ctx, tree, init, _param=None, _depth=0):
    """the dict literal SqlalchemyRender.__init__ looks the dialect name up in (`X[dialect_name]`, X a local or a module-level constant) - in __init__ itself or in
    a module-level helper / method it hands the name to"""
    if _param is None:
        ctx.need(len(init.args.args) >= 2, 'SqlalchemyRender.__init__ takes no dialect name')
    param = _param or init.args.args[1].arg
    found = []
    if _depth < 3:
        cls_ = next((c for c in tree.body if isinstance(c, ast.ClassDef) and init in c.body), None)
        callees = {n.name: (n, 0) for n in tree.body if isinstance(n, ast.FunctionDef)}
        if cls_ is not None:
            callees.update({'self.' + m.name: (m, 1) for m in cls_.body if isinstance(m, ast.FunctionDef)})
        for n in ast.walk(init):
            if isinstance(n, ast.Call) and norm(n.func) in callees and callees[norm(n.func)][0] is not init:
                fn_, off = callees[norm(n.func)]
                for i, a in enumerate(n.args):
                    if isinstance(a, ast.Name) and a.id == param and i + off < len(fn_.args.args):
                        try:
                            found.append(dialect_table(ctx, tree, fn_, fn_.args.args[i + off].arg, _depth + 1))
                        except AnalysisError:
                            pass
    for n in ast.walk(init):
        if isinstance(n, ast.Subscript) and isinstance(n.slice, ast.Name) and n.slice.id == param and isinstance(n.value, ast.Name):
            for scope in (init, tree):
                for a in (ast.walk(scope) if scope is init else scope.body):
                    if isinstance(a, (ast.Assign, ast.AnnAssign)) and isinstance(a.value, ast.Dict) and any(
                            isinstance(t, ast.Name) and t.id == n.value.id for t in (a.targets if isinstance(a, ast.Assign) else [a.target])):
                        found.append(a)
                if found:
                    break
        elif isinstance(n, ast.Subscript) and isinstance(n.slice, ast.Name) and n.slice.id == param and isinstance(n.value, ast.Attribute) \
                and isinstance(n.value.value, ast.Name):
            # self.X[name] / SqlalchemyRender.X[name] / type(self).X: a class-level constant
            for c in tree.body:
                if isinstance(c, ast.ClassDef) and init in c.body:
                    for a in c.body:
                        if isinstance(a, (ast.Assign, ast.AnnAssign)) and isinstance(a.value, ast.Dict) and any(
                                isinstance(t, ast.Name) and t.id == n.value.attr for t in (a.targets if isinstance(a, ast.Assign) else [a.target])):
                            found.append(a)
        elif isinstance(n, ast.Subscript) and isinstance(n.slice, ast.Name) and n.slice.id == param and isinstance(n.value, ast.Dict):
            found.append(ast.Assign(targets=[], value=n.value, lineno=n.lineno))
    ctx.need(len(found) == 1, 'SqlalchemyRender.__init__: the table the dialect name is looked up in was not found')
    return found[0]


def check_dialects(ctx, cls):
    init = function_named(cls, '__init__')
    ctx.need(init is not None, 'SqlalchemyRender.__init__ not found')
    d = [dialect_table(ctx, ctx.src.tree(FILE), init)]
    keys = {k.value for k in d[0].value.keys if isinstance(k, ast.Constant)}
    for name in DIALECT_NAMES:
        ctx.ob('C17.dialect-names', name, name in keys,
               f'dialect name {name!r} (documented as supported) is not a key of SqlalchemyRender\'s dialect table: '
               f'construction raises KeyError', file=FILE, line=d[0].lineno)
    ps = [n for n in ast.walk(init) if isinstance(n, ast.Call) and any(k.arg == 'paramstyle' for k in n.keywords)]
    ctx.setcount('dialect_keys', len(keys))


def check_no_mutation(ctx, cls, tree):
    """No write whose root is a parameter that carries (part of) the caller's tree."""
    fns = [(cls.name + '.' + m.name, m) for m in cls.body if isinstance(m, ast.FunctionDef) and m.name != '__init__']
    fns += [(n.name, n) for n in tree.body if isinstance(n, ast.FunctionDef)]
    nw = 0
    for name, fn in fns:
        params = [a.arg for a in fn.args.args if a.arg != 'self']
        derived = set(params)
        fresh = set()
        events = [n for n in walk_no_nested(fn) if isinstance(n, (ast.Assign, ast.For, ast.AugAssign, ast.Expr, ast.comprehension))]
        events.sort(key=lambda n: (getattr(n, 'lineno', 0), getattr(n, 'col_offset', 0)))

        def is_derived(e):
            if isinstance(e, ast.Name):
                return e.id in derived
            if isinstance(e, ast.Attribute):
                return is_derived(e.value)
            if isinstance(e, ast.Subscript):
                return is_derived(e.value)
            if isinstance(e, ast.Call) and isinstance(e.func, ast.Attribute) and e.func.attr in ('items', 'values', 'keys', 'get'):
                return is_derived(e.func.value)
            if isinstance(e, ast.Call) and dotted(e.func) in ('enumerate', 'reversed', 'iter', 'zip'):
                return any(is_derived(a) for a in e.args)
            if isinstance(e, ast.IfExp):
                return is_derived(e.body) or is_derived(e.orelse)
            return False
        for n in events:
            if isinstance(n, (ast.For, ast.comprehension)):
                if is_derived(n.iter):
                    for t in ast.walk(n.target):
                        if isinstance(t, ast.Name):
                            derived.add(t.id)
            elif isinstance(n, ast.Assign):
                for t in n.targets:
                    for e in (t.elts if isinstance(t, (ast.Tuple, ast.List)) else [t]):
                        if isinstance(e, ast.Name):
                            if is_derived(n.value):
                                derived.add(e.id)
                            elif getattr(n, '_parent', None) is fn:
                                derived.discard(e.id)       # unconditionally rebound to a fresh object
                        elif isinstance(e, (ast.Attribute, ast.Subscript)):
                            nw += 1
                            ctx.ob('C17.no-mutation', f'{name}:{norm(e)}', not is_derived(e.value),
                                   f'{name} stores into `{norm(e)}`, which belongs to the tree it was given to render: rendering '
                                   f'changes the caller\'s statement', file=FILE, line=n.lineno,
                                   witness="q = parse_sql('create table t (a serial)'); render(q); q.columns[0].type")
            elif isinstance(n, ast.AugAssign) and isinstance(n.target, (ast.Attribute, ast.Subscript)):
                nw += 1
                ctx.ob('C17.no-mutation', f'{name}:{norm(n.target)}', not is_derived(n.target.value),
                       f'{name} modifies `{norm(n.target)}` of the tree it was given', file=FILE, line=n.lineno)
            elif isinstance(n, ast.Expr) and isinstance(n.value, ast.Call) and isinstance(n.value.func, ast.Attribute) \
                    and n.value.func.attr in MUTATORS:
                nw += 1
                ctx.ob('C17.no-mutation', f'{name}:{norm(n.value)[:60]}', not is_derived(n.value.func.value),
                       f'{name} mutates part of the tree it was given: `{norm(n.value)[:70]}`', file=FILE, line=n.lineno)
    ctx.setcount('write_sites_in_renderer', nw)
    ctx.setcount('renderer_functions', len(fns))


def enclosing(n):
    p = n
    while p is not None and not isinstance(p, ast.FunctionDef):
        p = getattr(p, '_parent', None)
    return p.name if p is not None else '?'


def run(ctx):
    ctx.explanation = (
        'Contract analysis of SqlalchemyRender: (a) in get_exec_params every translating/compiling call lies inside the try; '
        'the handlers catch Exception (the translation\'s own raise set - explicit raises, table subscripts with tree-derived '
        'keys, library calls with parser-shaped argument lists - is computed over the call closure of get_query and listed); '
        'with fallback disabled only SQLAlchemyError/NotImplementedError can leave (re-raise guarded by isinstance, or '
        'conversion); every raise in the handler is restricted to `not with_failback`; the fallback returns str(tree); '
        'get_string delegates. (b) effect analysis: in every renderer function no attribute/subscript store or mutating call '
        'has a receiver derived from a parameter (the caller\'s tree). (c) the documented dialect names are keys of the '
        'dialect table. NOT decided: which inputs make SQLAlchemy raise (library behaviour) - made moot by (a).')
    ctx.not_decided = ['exceptions raised by str(tree) on the fallback path (printer defects are C01/C02 business)']
    ctx.assumptions = ['exceptions derive from Exception; SQLAlchemy does not mutate AST nodes passed as plain values']
    tree = ctx.src.tree(FILE)
    cls = class_named(tree, 'SqlalchemyRender')
    ctx.need(cls is not None, 'SqlalchemyRender not found')
    check_contract(ctx, cls)
    check_dialects(ctx, cls)
    check_no_mutation(ctx, cls, tree)
    ctx.floor('own_raise_sites', 15)
    ctx.floor('renderer_functions', 18)
    ctx.floor('write_sites_in_renderer', 5)
    ctx.floor('dialect_keys', 7)
