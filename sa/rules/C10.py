"""C10 - every table and model is routed to the place its name resolves to.

Decided (structure): the catalog is lower-cased when built and every key that is looked up in it, compared with a catalog
name or put into a step as integration name is case-normalised on every path (interprocedural must-analysis); the two
resolvers obey the same decision rule; the qualifier is stripped under the right guard; models never reach the table
branch; the version suffix is kept; the CTE exemption compares whole names.
NOT decided: that the right step is emitted for every query shape; table discovery completeness is C13's verdict.
"""
import ast
import itertools

from ..source import AnalysisError, norm, dotted, const_str, walk_no_nested
from ..cfg import Flow, class_named, function_named
from .. import peval

QP = 'mindsdb_sql/planner/query_planner.py'
PJ = 'mindsdb_sql/planner/plan_join.py'
TS = 'mindsdb_sql/planner/plan_join_ts.py'
PREP = 'mindsdb_sql/planner/query_prepare.py'
FILES = (QP, PJ, TS, PREP)
CATALOGS = ('databases', 'projects', 'integrations', 'predictor_info')
NS_ATTRS = ('default_namespace', 'predictor_namespace')


def is_catalog(e):
    """self.databases / self.planner.integrations / ... -> collection name"""
    if isinstance(e, ast.Attribute) and e.attr in CATALOGS and norm(e.value) in ('self', 'self.planner', 'planner'):
        return e.attr
    return None


def is_ns_attr(e):
    return isinstance(e, ast.Attribute) and e.attr in NS_ATTRS and norm(e.value) in ('self', 'self.planner', 'planner')


class Unit:
    """one function (methods and nested functions alike) of the planner package"""

    def __init__(self, file, cls, fn, outer=None):
        self.file, self.cls, self.fn, self.outer = file, cls, fn, outer
        self.name = fn.name
        self.params = [a.arg for a in fn.args.args]
        self.key = f'{cls}.{fn.name}' if cls else fn.name

    def __repr__(self):
        return self.key


class Analysis:
    def __init__(self, ctx):
        self.ctx = ctx
        self.units = []
        self.by_name = {}
        for f in FILES:
            tree = ctx.src.tree(f)
            for top in tree.body:
                if isinstance(top, ast.ClassDef):
                    for m in top.body:
                        if isinstance(m, ast.FunctionDef):
                            self._add(f, top.name, m, None)
                elif isinstance(top, ast.FunctionDef):
                    self._add(f, None, top, None)
        self.param_norm = {}      # (unit.key, param) -> bool   (optimistic fixpoint: all call sites pass lowered values)
        self.ret_norm = {}        # (unit.key, index|None) -> bool
        self.dict_norm = {}       # (unit.key, dict key) -> bool  (returned dict literal: container of lowered names)
        self.states = {}          # id(unit) -> Flow result
        self.ns_norm = True       # self.default_namespace / predictor_namespace are stored lowered (checked by rule A)

    def _add(self, file, cls, fn, outer):
        u = Unit(file, cls, fn, outer)
        self.units.append(u)
        self.by_name.setdefault(fn.name, []).append(u)
        for n in walk_no_nested(fn):
            pass
        for st in ast.walk(fn):
            if isinstance(st, ast.FunctionDef) and st is not fn and getattr(st, '_parent', None) is not None:
                # direct nesting only (deeper levels are reached recursively)
                p = st._parent
                while p is not None and not isinstance(p, ast.FunctionDef):
                    p = getattr(p, '_parent', None)
                if p is fn:
                    self._add(file, cls, st, u)

    def is_dead(self, u):
        """the (top-level) function is referenced nowhere in mindsdb_sql"""
        if not hasattr(self, '_referenced'):
            self._referenced = set()
            for f in self.ctx.src.py_files('mindsdb_sql'):
                for n in ast.walk(self.ctx.src.tree(f)):
                    if isinstance(n, ast.Attribute):
                        self._referenced.add(n.attr)
                    elif isinstance(n, ast.Name):
                        self._referenced.add(n.id)
        top = u
        while top.outer is not None:
            top = top.outer
        return top.name not in self._referenced and not top.name.startswith('__')

    # ---- expression judgement -------------------------------------------------------------------------------------
    def lowered(self, e, st, unit):
        if e is None:
            return False
        if isinstance(e, ast.Constant):
            return e.value is None or (isinstance(e.value, str) and e.value == e.value.lower())
        if isinstance(e, ast.Call) and isinstance(e.func, ast.Attribute) and e.func.attr == 'lower' and not e.args:
            return True
        if isinstance(e, ast.Name):
            return st.get(e.id) == 'L'
        if is_ns_attr(e):
            return self.ns_norm
        if isinstance(e, ast.IfExp):
            a = self.lowered(e.body, st, unit)
            b = self.lowered(e.orelse, st, unit)
            if a and not b:
                # `x.lower() if isinstance(x, str) else x` / `x.lower() if x else 'const'`: the other arm is the non-string leftover
                tested = {n.id for n in ast.walk(e.test) if isinstance(n, ast.Name)}
                if isinstance(e.orelse, ast.Name) and e.orelse.id in tested and ('isinstance' in norm(e.test) or norm(e.test) == e.orelse.id
                                                                                 or 'is not None' in norm(e.test)):
                    return True
            return a and b
        if isinstance(e, ast.Subscript):
            # element of a container of lowered names: list(C)[0], C[0]
            c = e.value
            if isinstance(c, ast.Call) and dotted(c.func) in ('list', 'sorted', 'tuple') and len(c.args) == 1:
                c = c.args[0]
            return self.container(c, st, unit)
        if isinstance(e, ast.Call) and dotted(e.func) in ('next', 'min', 'max') and e.args and self.container(e.args[0], st, unit):
            # an element taken out of a collection of lower-cased names: next(iter(C)), min(C) (a default, if any, must be normalised too)
            return all(self.lowered(a, st, unit) for a in e.args[1:])
        if isinstance(e, ast.Call) and isinstance(e.func, ast.Attribute) and e.func.attr == 'pop' and self.container(e.func.value, st, unit):
            return all(self.lowered(a, st, unit) or isinstance(a, ast.Constant) for a in e.args[1:])
        if isinstance(e, ast.Call):
            r = self.call_ret(e, unit)
            if r is not None:
                return self.ret_norm.get((r.key, None), False)
            if isinstance(e.func, ast.Attribute) and e.func.attr == 'pop' and False:
                return False
        if isinstance(e, ast.BoolOp) and isinstance(e.op, ast.Or):
            return all(self.lowered(v, st, unit) for v in e.values)
        return False

    def container(self, c, st, unit):
        """every element of the collection is a lower-cased name"""
        if is_catalog(c):
            return True
        if isinstance(c, ast.Name) and st.get(c.id) == 'C':
            return True
        if isinstance(c, ast.Subscript) and isinstance(c.value, ast.Name) and const_str(c.slice) is not None:
            tag = st.get(c.value.id)
            if isinstance(tag, tuple) and tag[0] == 'Q':
                return self.dict_norm.get((tag[1], c.slice.value), False)
        if isinstance(c, ast.Call) and isinstance(c.func, ast.Attribute) and c.func.attr == 'keys' and is_catalog(c.func.value):
            return True
        if isinstance(c, ast.Call) and dotted(c.func) in ('iter', 'list', 'sorted', 'set', 'tuple', 'frozenset', 'reversed') and len(c.args) == 1:
            return self.container(c.args[0], st, unit)
        return False

    def call_ret(self, call, unit):
        """resolve self.f(...) / self.planner.f(...) / f(...) by method name inside the planner package (unique names only)"""
        f = call.func
        name = None
        if isinstance(f, ast.Attribute) and norm(f.value) in ('self', 'self.planner', 'planner'):
            name = f.attr
        elif isinstance(f, ast.Attribute) and isinstance(f.value, ast.Call) and isinstance(f.value.func, ast.Name):
            # ClassName(...).method(...): the method of that class
            for c in self.by_name.get(f.attr, []):
                if c.cls == f.value.func.id and c.outer is None:
                    return c
            return None
        elif isinstance(f, ast.Name):
            name = f.id
        if name is None:
            return None
        cands = self.by_name.get(name, [])
        if len(cands) == 1:
            return cands[0]
        if len(cands) > 1 and isinstance(f, ast.Attribute):
            # same-named methods (check_single_integration): `self.` -> the unit's own class, `self.planner.` -> QueryPlanner
            want = unit.cls if norm(f.value) == 'self' else 'QueryPlanner'
            for c in cands:
                if c.cls == want and c.outer is None:
                    return c
        return None

    # ---- per-unit flow --------------------------------------------------------------------------------------------------
    def run_unit(self, u):
        an = self
        init = {}
        for p in u.params:
            if self.param_norm.get((u.key, p), False):
                init[p] = 'L'
            elif isinstance(getattr(self, 'param_tag', {}).get((u.key, p)), tuple):
                init[p] = self.param_tag[(u.key, p)]          # every call site hands over the result dict of the same function (get_query_info)
        if u.outer is not None:
            # closure: names of the enclosing function that are lowered at the point of the nested definition
            ost = self.states.get(id(u.outer))
            if ost is not None:
                at = ost.at.get(id(u.fn))
                if at:
                    for k, v in at.items():
                        init.setdefault(k, v)

        def bind(target, value, st):
            st = dict(st)
            if isinstance(target, ast.Name):
                tag = None
                if isinstance(value, ast.Call):
                    r = an.call_ret(value, u)
                    if r is not None and any(k[0] == r.key for k in an.dict_norm):
                        tag = ('Q', r.key)
                if tag is None and an.lowered(value, st, u):
                    tag = 'L'
                if tag is None and value is not None and an.container(value, st, u):
                    tag = 'C'
                if tag is None and isinstance(value, (ast.Set, ast.List)) and not value.elts or (
                        isinstance(value, ast.Call) and dotted(value.func) in ('set', 'list') and not value.args):
                    tag = 'C' if an.adds_lowered(u, target.id) else None
                if tag is None:
                    st.pop(target.id, None)
                else:
                    st[target.id] = tag
            elif isinstance(target, (ast.Tuple, ast.List)):
                r = an.call_ret(value, u) if isinstance(value, ast.Call) else None
                for i, t in enumerate(target.elts):
                    if isinstance(t, ast.Name):
                        if r is not None and an.ret_norm.get((r.key, i), False):
                            st[t.id] = 'L'
                        elif isinstance(value, ast.Tuple) and i < len(value.elts) and an.lowered(value.elts[i], st, u):
                            st[t.id] = 'L'
                        elif value is not None and not isinstance(value, ast.Tuple) and an.container(value, st, u):
                            st[t.id] = 'L'          # `name, = names`: an element of a container of lowered names
                        else:
                            st.pop(t.id, None)
            return st

        def transfer(s, st):
            if isinstance(s, ast.Assign):
                for t in s.targets:
                    st = bind(t, s.value, st)
            elif isinstance(s, ast.AnnAssign) and s.value is not None:
                st = bind(s.target, s.value, st)
            elif isinstance(s, ast.AugAssign) and isinstance(s.target, ast.Name):
                st = dict(st)
                st.pop(s.target.id, None)
            elif isinstance(s, (ast.For, ast.AsyncFor)):
                st = dict(st)
                if isinstance(s.target, ast.Name):
                    if an.container(s.iter, st, u):
                        st[s.target.id] = 'L'
                    else:
                        st.pop(s.target.id, None)
                else:
                    for n in ast.walk(s.target):
                        if isinstance(n, ast.Name):
                            st.pop(n.id, None)
            return st

        def join(a, b):
            return {k: v for k, v in a.items() if b.get(k) == v}
        res = Flow(transfer, join).run(u.fn, init)
        self.states[id(u)] = res
        return res

    def adds_lowered(self, u, name):
        """every `name.add(x)` / `name.append(x)` in the unit and its nested functions passes a lowered x"""
        ok = True
        n_adds = 0
        for sub in [u] + [x for x in self.units if x.outer is u]:
            res = self.states.get(id(sub))
            for n in walk_no_nested(sub.fn):
                if isinstance(n, ast.Call) and isinstance(n.func, ast.Attribute) and n.func.attr in ('add', 'append') \
                        and isinstance(n.func.value, ast.Name) and n.func.value.id == name and n.args:
                    n_adds += 1
                    st = self.state_at(sub, n)
                    if st is None or not self.lowered(n.args[0], st, sub):
                        ok = False
        return ok and n_adds > 0

    def local_dict(self, u):
        """(name, Dict node) when the unit builds its result as `name = {..literal..}` (bound once) and returns `name`"""
        binds = [n for n in walk_no_nested(u.fn) if isinstance(n, ast.Assign) and len(n.targets) == 1 and isinstance(n.targets[0], ast.Name)]
        rets = [n for n in walk_no_nested(u.fn) if isinstance(n, ast.Return) and isinstance(n.value, ast.Name)]
        for r in rets:
            same = [b for b in binds if b.targets[0].id == r.value.id]
            if len(same) == 1 and isinstance(same[0].value, ast.Dict):
                return r.value.id, same[0].value
        return None

    def key_adds_lowered(self, u, name, key, init):
        """the collection kept under name[key]: starts empty, every `name[key].add(x)` / `.append(x)` in the unit and its nested functions passes a lowered x,
        and it is only ever re-bound to a filtered copy of itself"""
        empty = (isinstance(init, (ast.Set, ast.List)) and not init.elts) or (isinstance(init, ast.Call) and dotted(init.func) in ('set', 'list') and not init.args)
        if not empty:
            return False
        ok, n_adds = True, 0

        def is_slot(e):
            return isinstance(e, ast.Subscript) and isinstance(e.value, ast.Name) and e.value.id == name and const_str(e.slice) == key
        for sub in [u] + [x for x in self.units if x.outer is u]:
            for n in walk_no_nested(sub.fn):
                if isinstance(n, ast.Call) and isinstance(n.func, ast.Attribute) and n.func.attr in ('add', 'append') and is_slot(n.func.value) and n.args:
                    n_adds += 1
                    st = self.state_at(sub, n)
                    if st is None or not self.lowered(n.args[0], st, sub):
                        ok = False
                elif isinstance(n, ast.Call) and isinstance(n.func, ast.Attribute) and is_slot(n.func.value) and n.func.attr in ('update', 'extend', 'insert', '__setitem__'):
                    ok = False
                elif isinstance(n, ast.Assign) and any(is_slot(t) for t in n.targets):
                    v = n.value
                    filt = isinstance(v, (ast.ListComp, ast.SetComp)) and len(v.generators) == 1 and is_slot(v.generators[0].iter) \
                        and isinstance(v.elt, ast.Name) and isinstance(v.generators[0].target, ast.Name) and v.elt.id == v.generators[0].target.id
                    if not filt:
                        ok = False
        return ok and n_adds > 0

    def state_at(self, u, node):
        res = self.states.get(id(u))
        if res is None:
            return None
        cur = node
        while cur is not None:
            if isinstance(cur, ast.stmt) and id(cur) in res.at:
                return res.at[id(cur)]
            cur = getattr(cur, '_parent', None)
        return None

    # ---- interprocedural fixpoint ------------------------------------------------------------------------------------
    def solve(self):
        # optimistic start: all params / returns lowered; iterate down
        for u in self.units:
            for p in u.params:
                self.param_norm[(u.key, p)] = True
            for i in (None, 0, 1):
                self.ret_norm[(u.key, i)] = True
            for r in ast.walk(u.fn):
                if isinstance(r, ast.Return) and isinstance(r.value, ast.Dict):
                    for k in r.value.keys:
                        if const_str(k) is not None:
                            self.dict_norm[(u.key, k.value)] = True
            ld = self.local_dict(u)
            if ld is not None:
                for k in ld[1].keys:
                    if const_str(k) is not None:
                        self.dict_norm[(u.key, k.value)] = True
        callers = {}
        for it in range(12):
            changed = False
            order = sorted(self.units, key=lambda x: (x.outer is not None))
            for u in order:
                self.run_unit(u)
            # returns
            for u in self.units:
                res = self.states[id(u)]
                for idx in (None, 0, 1):
                    ok = bool(res.returns)
                    for r, st in res.returns:
                        v = r.value
                        if idx is None:
                            good = v is not None and not isinstance(v, ast.Tuple) and self.lowered(v, st, u)
                        else:
                            good = isinstance(v, ast.Tuple) and idx < len(v.elts) and self.lowered(v.elts[idx], st, u)
                        # `return None` / bare return: "no integration", not a name
                        if v is None or (isinstance(v, ast.Constant) and v.value is None):
                            good = True if idx is None else good
                        ok = ok and good
                    if self.ret_norm[(u.key, idx)] != ok:
                        self.ret_norm[(u.key, idx)] = ok
                        changed = True
                for r, st in res.returns:
                    if isinstance(r.value, ast.Dict):
                        for k, v in zip(r.value.keys, r.value.values):
                            if const_str(k) is None:
                                continue
                            ok = isinstance(v, ast.Name) and (st.get(v.id) == 'C' or self.adds_lowered(u, v.id))
                            if self.dict_norm.get((u.key, k.value)) != ok:
                                self.dict_norm[(u.key, k.value)] = ok
                                changed = True
                ld = self.local_dict(u)
                if ld is not None:
                    for k, v in zip(ld[1].keys, ld[1].values):
                        if const_str(k) is None:
                            continue
                        ok = self.key_adds_lowered(u, ld[0], k.value, v)
                        if self.dict_norm.get((u.key, k.value)) != ok:
                            self.dict_norm[(u.key, k.value)] = ok
                            changed = True
            # params
            seen_calls = {}
            seen_tags = {}
            for u in self.units:
                if self.is_dead(u):
                    continue
                for n in walk_no_nested(u.fn):
                    if isinstance(n, ast.Call):
                        callee = self.call_ret(n, u)
                        if callee is None:
                            continue
                        st = self.state_at(u, n) or {}
                        off = 1 if callee.params[:1] == ['self'] else 0
                        for i, a in enumerate(n.args):
                            if i + off < len(callee.params):
                                seen_calls.setdefault((callee.key, callee.params[i + off]), []).append(self.lowered(a, st, u))
                                seen_tags.setdefault((callee.key, callee.params[i + off]), []).append(st.get(a.id) if isinstance(a, ast.Name) else None)
                        for k in n.keywords:
                            if k.arg in callee.params:
                                seen_calls.setdefault((callee.key, k.arg), []).append(self.lowered(k.value, st, u))
            for u in self.units:
                off = 1 if u.params[:1] == ['self'] else 0
                defaults = u.fn.args.defaults
                for j, p in enumerate(u.params):
                    vals = seen_calls.get((u.key, p), [])
                    ok = bool(vals) and all(vals)     # no call site inside the package: the caller is unknown (API entry point)
                    dj = j - (len(u.params) - len(defaults))
                    if dj >= 0 and not self.lowered(defaults[dj], {}, u):
                        ok = False
                    if self.param_norm[(u.key, p)] != ok:
                        self.param_norm[(u.key, p)] = ok
                        changed = True
                    tags = seen_tags.get((u.key, p), [])
                    tag = tags[0] if tags and isinstance(tags[0], tuple) and all(t_ == tags[0] for t_ in tags) else None
                    if not hasattr(self, 'param_tag'):
                        self.param_tag = {}
                    if self.param_tag.get((u.key, p)) != tag:
                        self.param_tag[(u.key, p)] = tag
                        changed = True
            if not changed:
                break
        else:
            raise AnalysisError('C10: interprocedural normalisation analysis did not converge')


def guards_of(node, stop):
    """[(test expr, polarity)] that hold when `node` executes: enclosing if/elif tests, `and` operands to its left"""
    out = []
    cur = node
    while cur is not stop and getattr(cur, '_parent', None) is not None:
        par = cur._parent
        if isinstance(par, ast.If):
            if cur in par.body:
                out.append((par.test, True))
            elif cur in par.orelse:
                out.append((par.test, False))
        elif isinstance(par, ast.IfExp):
            if cur is par.body:
                out.append((par.test, True))
            elif cur is par.orelse:
                out.append((par.test, False))
        elif isinstance(par, ast.BoolOp) and isinstance(par.op, ast.And):
            i = par.values.index(cur)
            for v in par.values[:i]:
                out.append((v, True))
        cur = par
    flat = []
    for t, pol in out:
        if pol and isinstance(t, ast.BoolOp) and isinstance(t.op, ast.And):
            flat += [(v, True) for v in t.values]
        else:
            flat.append((t, pol))
    return flat


def is_len_gt1(t, parts_txt):
    if not isinstance(t, ast.Compare) or len(t.ops) != 1:
        return False
    l, op, r = t.left, t.ops[0], t.comparators[0]
    if isinstance(l, ast.Call) and dotted(l.func) == 'len' and norm(l.args[0]) == parts_txt and isinstance(r, ast.Constant):
        return (isinstance(op, ast.Gt) and r.value >= 1) or (isinstance(op, ast.GtE) and r.value >= 2) or (isinstance(op, ast.NotEq) and False)
    return False


def run(ctx):
    ctx.explanation = (
        'Case-normalisation discipline as an interprocedural must-analysis over the planner package (4 files, methods and '
        'nested callbacks): a value is *normalised* when it is produced by .lower(), is a lower-case constant, an element of a '
        'catalog collection, or comes from a parameter/return/dict entry that is normalised at every call site / return. '
        'Rules: (catalog-store) every key stored into integrations / _projects / predictor_info and the namespaces kept by '
        '__init__ is normalised on every path; (lookup) every membership test, .get() and subscript against the catalog '
        'collections uses a normalised key; (compare) every ==/!= with a catalog name has a normalised other side; '
        '(step-integration) every FetchDataframeStep(integration=) is normalised; (resolver) both resolvers pop the first part '
        'only under len(parts) > 1 and a normalised membership test, keep it lower-cased, default to the namespace and raise '
        'when there is none; (qualifier-strip) prepare_integration_select is interpreted (fail-closed AST interpreter, stand-in traversal) on '
        '10 identifier shapes x position flags x alias x FROM kinds x "another table aliased like the integration": the qualifier is removed '
        'exactly when the name has more than one part and its first part is the integration in any letter case; (model-never-fetched) the '
        'table branches are control-dependent on "not a predictor"; (version-kept) steps that name a model take the name from the reference '
        'in the query; (cte-exemption) get_query_info is interpreted on 13 probe queries: a CTE shadows exactly the unqualified name it was '
        'given, every other reference is classified by the database its first part resolves to.')
    ctx.not_decided = ['that the right step is emitted for every query shape', 'table discovery completeness (C13)']
    an = Analysis(ctx)
    an.solve()
    ctx.setcount('units', len(an.units))
    units = {u.key: u for u in an.units if u.outer is None}
    init = units.get('QueryPlanner.__init__')
    ctx.need(init is not None, 'QueryPlanner.__init__ not found')

    # A. catalog stores -------------------------------------------------------------------------------------------------
    nstores = 0
    for n in walk_no_nested(init.fn):
        st = None
        key = None
        what = None
        if isinstance(n, ast.Assign):
            for t in n.targets:
                if isinstance(t, ast.Subscript) and isinstance(t.value, ast.Attribute) and norm(t.value.value) == 'self' and t.value.attr in CATALOGS:
                    key, what = t.slice, f'self.{t.value.attr}[...]'
                if isinstance(t, ast.Attribute) and norm(t.value) == 'self' and t.attr in NS_ATTRS:
                    key, what = n.value, f'self.{t.attr}'
        if isinstance(n, ast.Call) and isinstance(n.func, ast.Attribute) and n.func.attr == 'add' and norm(n.func.value) == '_projects' and n.args:
            key, what = n.args[0], '_projects.add'
        if key is None:
            continue
        nstores += 1
        st = an.state_at(init, n) or {}
        saved = an.ns_norm
        an.ns_norm = True       # self.predictor_namespace read inside __init__ after its own (checked) store
        ok = an.lowered(key, st, init)
        an.ns_norm = saved
        ctx.ob('C10.catalog-store', f'{what}:{norm(key)[:50]}', ok,
               f'QueryPlanner.__init__ stores `{norm(key)}` into {what} without lower-casing it on every path: the catalog is looked '
               f'up with lower-cased names, so an entry supplied in another letter case is never found and its tables are routed elsewhere',
               file=QP, line=n.lineno)
    ctx.setcount('catalog_stores', nstores)
    # projects / databases are derived from the checked collections
    # B. lookups, comparisons, step integration ----------------------------------------------------------------------------
    nlook = ncmp = nstep = 0
    for u in an.units:
        if an.is_dead(u):
            top = u
            while top.outer is not None:
                top = top.outer
            ctx.note(f'{top.key} is referenced nowhere in mindsdb_sql (dead code): its sites are not obligations')
            continue
        for n in walk_no_nested(u.fn):
            st = None
            if isinstance(n, ast.Compare) and len(n.ops) == 1:
                op, r = n.ops[0], n.comparators[0]
                if isinstance(op, (ast.In, ast.NotIn)) and is_catalog(r):
                    nlook += 1
                    st = an.state_at(u, n) or {}
                    ctx.ob('C10.lookup', f'{u.key}:{norm(n)[:60]}', an.lowered(n.left, st, u),
                           f'{u.key}: `{norm(n)}` tests a name as written against the lower-cased catalog `{norm(r)}`: a qualifier in '
                           f'another letter case is not recognised and the table is routed to the default namespace',
                           file=u.file, line=n.lineno, witness='select * from INT1.tbl1 a join int2.tbl2 b on a.x = b.x')
                elif isinstance(op, (ast.Eq, ast.NotEq)) and (is_ns_attr(n.left) or is_ns_attr(r) or _is_integration_param(an, u, n.left) or _is_integration_param(an, u, r)):
                    other = r if (is_ns_attr(n.left) or _is_integration_param(an, u, n.left)) else n.left
                    if isinstance(other, ast.Constant) and other.value is None:
                        continue
                    ncmp += 1
                    st = an.state_at(u, n) or {}
                    both = an.lowered(n.left, st, u) and an.lowered(r, st, u)
                    ctx.ob('C10.compare', f'{u.key}:{norm(n)[:60]}', both,
                           f'{u.key}: `{norm(n)}` compares a catalog name with a value that is not case-normalised on every path',
                           file=u.file, line=n.lineno)
            if isinstance(n, ast.Call) and isinstance(n.func, ast.Attribute) and n.func.attr == 'get' and is_catalog(n.func.value) and n.args:
                nlook += 1
                st = an.state_at(u, n) or {}
                ctx.ob('C10.lookup', f'{u.key}:{norm(n)[:60]}', an.lowered(n.args[0], st, u),
                       f'{u.key}: `{norm(n)}` looks a name up in the lower-cased catalog without normalising it', file=u.file, line=n.lineno)
            if isinstance(n, ast.Subscript) and is_catalog(n.value) and isinstance(n.ctx, ast.Load):
                nlook += 1
                st = an.state_at(u, n) or {}
                ctx.ob('C10.lookup', f'{u.key}:{norm(n)[:60]}', an.lowered(n.slice, st, u),
                       f'{u.key}: `{norm(n)}` indexes the lower-cased catalog with a name that is not normalised', file=u.file, line=n.lineno)
            if isinstance(n, ast.Call) and (dotted(n.func) or '').split('.')[-1] == 'FetchDataframeStep':
                for k in n.keywords:
                    if k.arg == 'integration':
                        nstep += 1
                        st = an.state_at(u, n) or {}
                        ctx.ob('C10.step-integration', f'{u.key}:{norm(k.value)}', an.lowered(k.value, st, u),
                               f'{u.key}: FetchDataframeStep(integration={norm(k.value)}) - the integration name is not the catalog\'s '
                               f'(lower-cased) name on every path that reaches this call', file=u.file, line=n.lineno)
    ctx.setcount('lookups', nlook)
    ctx.setcount('name_comparisons', ncmp)
    ctx.setcount('fetch_step_sites', nstep)
    for label, ok, msg, line in catalog_table(ctx):
        ctx.ob('C10.catalog-store', f'__init__:{label}', ok, msg, file=QP, line=line, witness="QueryPlanner(predictor_metadata={'pred': {'integration_name': 'proj'}})")
    # C. resolvers: both are interpreted on name shapes x default namespaces -----------------------------------------------------------------
    for label, ok, msg, file, line in resolver_table(ctx):
        ctx.ob('C10.resolver', label, ok, msg, file=file, line=line, witness='select * from INT1.tbl1 a join files f on ...')
    # C2. the join planner takes the database qualifier off (resolve_table) and process_table puts it back for the fetch: the two steps composed are the identity
    for label, ok, msg, line in join_fetch_table(ctx):
        ctx.ob('C10.join-fetch-table', label, ok, msg, file=PJ, line=line, witness='select * from int1.int1.orders a join int2.u b on a.id = b.id')
    nr = 0
    for label, ok, msg, line in cte_reference_route(ctx):
        nr += 1
        ctx.ob('C10.cte-reference-route', label, ok, msg, file=QP, line=line, witness='with a as (select * from int1.t) select * from a join int2.u on ...  (default namespace int1)')
    ctx.setcount('cte_reference_rows', nr)
    ctx.floor('cte_reference_rows', 4)
    # C3. a query (or join) sent as a whole to one integration mentions no table that belongs elsewhere: the decision table of both gates (C11's, re-run)
    from . import C11
    ng = 0
    for cons, ok, msg, file_, line in C11.gate_rows(ctx):
        ng += 1
        ctx.ob('C10.whole-query-gate', cons, ok, msg, file=file_, line=line, witness='select * from int1.a join int1.b on a.id = b.id where a.x in (select y from int2.c)')
    ctx.setcount('gate_rows', ng)
    ctx.floor('gate_rows', 600)
    # C4. table discovery, the routing of nested selects and the qualifier rewrite all run on query_traversal: every child-carrying field is visited and a
    # replacement lands in the field the printer / the steps read (C13's walker analysis, re-run)
    from . import C13
    from ..core import Ctx as _Ctx
    sub13 = _Ctx('C13', ctx.src, ctx.tier)
    C13.run(sub13)
    rel13 = ('C13.field-unvisited', 'C13.visit-once', 'C13.flags', 'C13.class-dispatched', 'C13.replace-exact', 'C13.callback-first', 'C13.callback-once',
             'C13.visit-unconditional', 'C13.renderer-reads-visited')
    ctx.setcount('walker_obligations', sum(v[0] for k, v in sub13.rules.items() if k in rel13))
    ctx.floor('walker_obligations', 100)
    ctx.ob('C10.walker', 'all', True, '')
    for f_ in [x for x in sub13.findings if x.rule in rel13]:
        ctx.ob('C10.walker', f'{f_.rule}:{f_.construct}', False, f'table discovery and the routing of nested selects rely on query_traversal: {f_.msg}', file=f_.file, line=f_.line,
               witness=f_.witness)
    # D. qualifier strip: truth table of prepare_integration_select ------------------------------------------------------------------------
    table = rewrite_table(ctx)
    ctx.setcount('rewrite_rows', len(table))
    ctx.floor('rewrite_rows', 1000)
    for label, ok, msg, line in table:
        if label.startswith('strip:') or label.startswith('raises:'):
            ctx.ob('C10.qualifier-strip', label, ok, msg, file=QP, line=line, witness='select int1.tbl1.* from int1.tbl1')
    # E. models never reach the table branch ------------------------------------------------------------------------------
    pjt = units.get('PlanJoinTablesQuery.plan_join_tables')
    ctx.need(pjt is not None, 'plan_join_tables not found')
    calls = [(n, pjt.fn) for n in walk_no_nested(pjt.fn) if isinstance(n, ast.Call) and norm(n.func) == 'self.process_table']
    if not calls:
        # the dispatch over the kinds of join members may live in a method plan_join_tables calls (`self.process_member(item, query_in)`)
        called_ = {c_.func.attr for c_ in walk_no_nested(pjt.fn) if isinstance(c_, ast.Call) and isinstance(c_.func, ast.Attribute) and norm(c_.func.value) == 'self'}
        for nm_ in sorted(called_):
            u_ = units.get(f'PlanJoinTablesQuery.{nm_}')
            if u_ is not None:
                calls += [(n, u_.fn) for n in walk_no_nested(u_.fn) if isinstance(n, ast.Call) and norm(n.func) == 'self.process_table']
    ctx.need(calls, 'plan_join_tables: no call of process_table')
    for c, host_ in calls:
        gs = guards_of(c, host_)
        # ... and the negations of the guard clauses that returned before (`if item.predictor_info is not None: return ...`)
        from ..cfg import dominating_conditions as _dom
        gs = list(gs) + [(t_, pol_) for t_, pol_ in _dom(c, host_)]
        ok = any(_implies_no_model(t, pol) for t, pol in gs)
        ctx.ob('C10.model-never-fetched', 'plan_join_tables:process_table', ok,
               'plan_join_tables calls process_table (which builds a fetch from an integration) on a path where the item may be a model',
               file=PJ, line=c.lineno)
    for label, ok, msg, line in nested_select_table(ctx):
        ctx.ob('C10.nested-select-routing', label, ok, msg, file=QP, line=line,
               witness='select * from int1.orders where customer_id in (select c.id from int1.customers c join int2.blacklist b on c.id = b.id)')
    for label, ok, msg, line in select_route_table(ctx):
        ctx.ob('C10.model-never-fetched', f'plan_select_identifier:{label}', ok, msg, file=QP, line=line,
               witness='with a as (select * from int1.t), b as (select * from a join mindsdb.pred) select * from a')
    # F. version kept: get_predictor's answer is in the model-resolution table below; the identifier the apply steps use is interpreted here -------------
    for label, ok, msg, line in model_identifier_table(ctx):
        ctx.ob('C10.version-kept', label, ok, msg, file=QP, line=line, witness='select * from mindsdb.pred.3 where x = 1')
    # every step that names a model takes the name from the reference in the query (which carries the version), never rebuilds it
    nap = 0
    for u in an.units:
        for n in walk_no_nested(u.fn):
            if not (isinstance(n, ast.Call) and 'Predictor' in ((dotted(n.func) or '').split('.')[-1])):
                continue
            for k in n.keywords:
                if k.arg != 'predictor':
                    continue
                nap += 1
                e = k.value
                srcs = [e]
                if isinstance(e, ast.Name) and e.id not in u.params:
                    srcs = [a.value for a in walk_no_nested(u.fn) if isinstance(a, ast.Assign) and any(isinstance(t, ast.Name) and t.id == e.id for t in a.targets)]
                ok = bool(srcs)
                for sv in srcs:
                    good = (isinstance(sv, ast.Call) and (dotted(sv.func) or '').split('.')[-1] == 'get_predictor_name_identifier') \
                        or (isinstance(sv, ast.Attribute) and sv.attr in ('table', 'node') and isinstance(sv.value, ast.Name)) \
                        or (isinstance(sv, ast.Name) and sv.id in u.params)
                    ok = ok and good
                ctx.ob('C10.version-kept', f'{u.key}:{(dotted(n.func) or "").split(".")[-1]}', ok,
                       f'{u.key}: the model named in {(dotted(n.func) or "").split(".")[-1]}(predictor={norm(e)}) is built from '
                       f'{[norm(x)[:70] for x in srcs]} instead of the model reference of the query (its parts after the namespace): a version '
                       f'suffix `model.3` is lost and another version is applied', file=u.file, line=n.lineno,
                       witness='select * from int1.t ta join proj.model.7 tb')
    ctx.setcount('model_step_sites', nap)
    ctx.floor('model_step_sites', 5)
    for label, ok, msg, line in model_resolution_table(ctx):
        ctx.ob('C10.model-resolution', label, ok, msg, file=QP, line=line, witness='select * from int2.t1 a join pred b on a.x = b.x  -- default namespace int1')
    # G. classification of table references (CTE exemption, projects, integrations): get_query_info interpreted on probes
    for label, ok, msg, line in query_info_table(ctx):
        ctx.ob('C10.cte-exemption', label, ok, msg, file=QP, line=line,
               witness='with sales as (select 1) select * from int1.t where a in (select a from mindsdb.sales)')
    ctx.floor('units', 60)
    ctx.floor('catalog_stores', 7)
    ctx.floor('lookups', 6)
    ctx.floor('fetch_step_sites', 4)
    ctx.floor('name_comparisons', 1)        # the comparison inside prepare_integration_select is decided by the interpreted rewrite table, wherever it is written
    ctx.sample({'normalised_returns': sorted(f'{k[0]}[{k[1]}]' for k, v in an.ret_norm.items() if v and k[0] in ('QueryPlanner.resolve_database_table', 'PlanJoin.check_single_integration'))})
    ctx.sample({'normalised_dict_entries': sorted(f'{k[0]}[{k[1]!r}]' for k, v in an.dict_norm.items() if v)})


def model_resolution_table(ctx):
    """get_predictor interpreted on name shapes x catalogs: a reference is a model exactly when <namespace>.<name> is in the catalog, where the namespace is the
    qualifier (or the default namespace for a bare name) - the same place the table resolvers send the name to.  -> list of (label, ok, message, line)"""
    from ..interp import Interp, Obj, Raised, Env
    qp = class_named(ctx.src.tree(QP), 'QueryPlanner')
    gp = function_named(qp, 'get_predictor')
    ctx.need(gp is not None, 'get_predictor not found')
    catalog = {'mindsdb.pred': {'name': 'pred', 'integration_name': 'mindsdb'}, 'proj.tp3': {'name': 'tp3', 'integration_name': 'proj'}}
    cases = [
        (['pred'], 'mindsdb', ('mindsdb.pred', None)), (['Pred'], 'mindsdb', ('mindsdb.pred', None)), (['pred'], 'int1', None), (['pred'], None, None),
        (['mindsdb', 'pred'], 'int1', ('mindsdb.pred', None)), (['MINDSDB', 'PRED'], None, ('mindsdb.pred', None)), (['proj', 'pred'], 'mindsdb', None),
        (['proj', 'tp3', '7'], 'mindsdb', ('proj.tp3', '7')), (['tp3', '7'], 'proj', ('proj.tp3', '7')), (['tp3', '7'], 'mindsdb', None),
        (['int1', 'mindsdb', 'pred'], 'mindsdb', None), (['int1', 'proj', 'tp3', '7'], 'mindsdb', None), (['tbl'], 'mindsdb', None), (['int1', 'tbl'], 'mindsdb', None),
    ]
    out = []
    for parts, default_ns, want in cases:
        self_ = Obj('QueryPlanner', predictor_info={k: dict(v) for k, v in catalog.items()}, default_namespace=default_ns, predictor_namespace='mindsdb',
                    databases=['int1', 'int2', 'mindsdb', 'proj'], projects=['mindsdb', 'proj'])
        it = Interp.for_file(ctx.src, QP, {'Identifier': set()}, {})
        label = f'{".".join(parts)} (default namespace {default_ns})'
        try:
            info = it.call_function(gp, [self_, Obj('Identifier', parts=list(parts), alias=None)], {}, Env())
        except Raised as r:
            out.append((label, False, f'get_predictor raises {r.exc_name} on {label}', gp.lineno))
            continue
        if want is None:
            ok = info is None
            got = None if info is None else (info.get('integration_name'), info.get('name'), info.get('version'))
        else:
            key, ver = want
            ok = isinstance(info, dict) and info.get('integration_name') == catalog[key]['integration_name'] and str(info.get('name', '')).lower() == catalog[key]['name'] \
                and info.get('version') == ver
            got = None if info is None else (info.get('integration_name'), info.get('name'), info.get('version'))
        out.append((label, ok and self_.predictor_info == catalog,
                    f'[{label}] get_predictor answers {got}, expected {want}: a name is a model exactly when its qualifier (the default namespace for a bare name) plus '
                    f'name is in the model catalog, the version suffix is kept, names of tables inside a database (database.schema.table) are tables, and the catalog is '
                    f'not modified', gp.lineno))
    return out


def nested_select_table(ctx):
    """The callback of get_nested_selects_plan_fnc, interpreted on the classification of a nested select: it may stay inside the query that is sent to
    <main integration> only when it reads nothing but tables of that integration; otherwise it is planned on its own and replaced by its result.
    -> [(label, ok, message, line)]"""
    import itertools
    from ..interp import Interp, Obj, Raised, Env
    qp = class_named(ctx.src.tree(QP), 'QueryPlanner')
    gn = function_named(qp, 'get_nested_selects_plan_fnc')
    ctx.need(gn is not None, 'get_nested_selects_plan_fnc not found')
    out = []
    for ints, entities, force in itertools.product((('int1',), ('int1', 'int2'), ('int2',), ()), (0, 1), (False, True)):
        planned = []
        node = Obj('Select', parentheses=True, alias=None, _nested=True)
        planner = Obj('QueryPlanner')
        stubs = {'self.get_query_info': lambda it, q: {'integrations': set(ints), 'mdb_entities': [Obj('Identifier')] * entities, 'predictors': [], 'user_functions': []},
                 'self.plan_select': lambda it, q, **k: (planned.append(q), Obj('Step', result=Obj('Result')))[1],
                 'Parameter': lambda it, v: Obj('Parameter', value=v)}
        it = Interp.for_file(ctx.src, QP, {'Select': set()}, stubs)
        label = f'nested select over {sorted(ints) or "no integration"}{", MindsDB objects" if entities else ""}{", forced" if force else ""} inside a query for int1'
        try:
            cb = it.call_function(gn, [planner, 'int1'], {'force': force}, Env())
            res = cb(node, is_table=False, is_target=False, parent_query=None, callstack=[])
        except Raised as r:
            out.append((label, False, f'[{label}] raises {r.exc_name}', gn.lineno))
            continue
        separately = bool(planned) and isinstance(res, Obj) and res.kind == 'Parameter'
        stays = res is None and not planned
        want_separately = force or set(ints) != {'int1'} or bool(entities)
        out.append((label, separately if want_separately else stays,
                    f'[{label}] the nested select {"is planned on its own" if separately else ("stays inside the query sent to int1" if stays else "is handled inconsistently")}: '
                    f'it may stay only when it reads tables of int1 and nothing else - a table of another integration inside it is not in int1', gn.lineno))
    return out


def select_route_table(ctx):
    """QueryPlanner.plan_select_identifier interpreted (sa/interp.py) on the facts it decides from: is the FROM table a model x which model references the
    query-wide classification reports (none / the FROM table / one inside a CTE body, which plan_cte has already planned) x user function x api database.
    The model route is taken exactly when the FROM table is a model; a table is never handed to the model planner (which would crash on it) and a model is
    never fetched from an integration.  -> [(label, ok, message, line)]"""
    import itertools
    from ..interp import Interp, Obj, Raised, Env
    qp = class_named(ctx.src.tree(QP), 'QueryPlanner')
    psi = function_named(qp, 'plan_select_identifier')
    ctx.need(psi is not None, 'plan_select_identifier not found')
    out = []
    routes = ('plan_select_from_predictor', 'plan_api_db_select', 'plan_integration_select_with_functions', 'plan_integration_select')
    for from_is_model, elsewhere, udf, api in itertools.product((False, True), (False, True), (False, True), (False, True)):
        if from_is_model and api:
            continue
        frm = Obj('Identifier', parts=['mindsdb', 'pred'] if from_is_model else ['int1', 't'], alias=None)
        other = Obj('Identifier', parts=['mindsdb', 'pred2'], alias=None)
        query = Obj('Select', from_table=frm, targets=[Obj('Star')], where=None, cte=None)
        taken = []
        stubs = {'query_traversal': lambda it, node, cb, **k: None,
                 'self.resolve_database_table': lambda it, n: (('mindsdb' if from_is_model else 'int1'), n),
                 'self.get_nested_selects_plan_fnc': lambda it, *a, **k: (lambda *a2, **k2: None),
                 'self.get_query_info': lambda it, q: {'mdb_entities': [], 'integrations': {'int1'}, 'user_functions': [Obj('Function')] if udf else [],
                                                       'predictors': ([frm] if from_is_model else []) + ([other] if elsewhere else [])},
                 'self.is_predictor': lambda it, n: n is frm and from_is_model,
                 'self.get_predictor': lambda it, n: ({'name': 'pred'} if (n is frm and from_is_model) else None)}
        for r_ in routes:
            stubs[f'self.{r_}'] = (lambda r2: (lambda it, *a, **k: (taken.append(r2), Obj('Step'))[1]))(r_)
        it = Interp.for_file(ctx.src, QP, {'Identifier': set(), 'Select': set()}, stubs)
        self_ = Obj('QueryPlanner', integrations={'int1': ({'class_type': 'api'} if api else {})}, default_namespace='mindsdb')
        label = f'FROM is {"a model" if from_is_model else "a table"}, {"a model inside a CTE body, " if elsewhere else ""}{"user function, " if udf else ""}{"api database" if api else "sql database"}'
        try:
            it.call_function(psi, [self_, query], {}, Env())
        except Raised as r:
            taken.append(f'raises {r.exc_name}')
        want_model = from_is_model
        ok = len(taken) == 1 and ((taken[0] == 'plan_select_from_predictor') == want_model) and not taken[0].startswith('raises')
        out.append((label, ok, f'[{label}] plan_select_identifier takes {taken}: the model planner is for a select FROM a model and nothing else - a table handed to it has no '
                               f'model record (internal TypeError), a model handed to an integration planner is fetched as a table', psi.lineno))
    return out


def cte_reference_route(ctx):
    """plan_select (with everything it consults before it routes: the single-integration gate, get_query_info, resolve_database_table - all interpreted) on an INNER
    select whose FROM names a CTE of the enclosing query, under a default namespace that is a data integration (`USE int1`): the select must reach
    plan_select_identifier (which recognises the CTE reference) - it must not be fetched from the integration as if the CTE name were a table there.
    -> [(label, ok, message, line)]"""
    from ..interp import Interp, Obj, Raised, Env
    qp = class_named(ctx.src.tree(QP), 'QueryPlanner')
    ps = function_named(qp, 'plan_select')
    ctx.need(ps is not None, 'QueryPlanner.plan_select not found')
    out = []

    def traverse(it, query, callback, **kw):
        for node, flags in (query.attrs.get('_visits') or []) if isinstance(query, Obj) else []:
            callback(node, **flags)
        return None
    for ns, written in itertools.product(('int1', 'mindsdb'), ('a', 'A')):
        ref = Obj('Identifier', parts=[written], alias=None)
        query = Obj('Select', cte=None, from_table=ref, targets=[Obj('Star')], where=None, group_by=None, having=None, order_by=None, limit=None, offset=None,
                    distinct=False, alias=None, parentheses=False, using=None, mode=None,
                    _visits=[(ref, dict(is_table=True, is_target=False, parent_query=None, callstack=[]))])
        added, taken = [], []

        def add_step(step):
            added.append(step)
            return step
        self_ = real_planner(ctx, ['int1', 'int2', {'name': 'proj', 'type': 'project'}], [], default_namespace=ns,
                             cte_results={'a': Obj('Step', result=Obj('Result'))}, plan=Obj('QueryPlan', steps=[], add_step=add_step), query=Obj('Select', _outer=True))
        stubs = {'query_traversal': traverse, 'utils.query_traversal': traverse, 'self.is_predictor': lambda it, n: False, 'self.get_predictor': lambda it, n: None,
                 'Identifier': lambda it, *a, **k: Obj('Identifier', parts=list(k.get('parts') or (a[0] if a else [])), alias=k.get('alias')),
                 'FetchDataframeStep': lambda it, *a, **k: Obj('FetchDataframeStep', **k),
                 'self.prepare_integration_select': lambda it, *a, **k: None,
                 'self.plan_select_identifier': lambda it, q, *a, **k: (taken.append('plan_select_identifier'), Obj('Step', result=Obj('Result')))[1]}
        it = Interp.for_file(ctx.src, QP, {'Identifier': set(), 'Select': set(), 'Function': set(), 'NativeQuery': set(), 'Data': set(), 'Union': set(), 'Except': set(),
                                           'Intersect': set(), 'Join': set(), 'Star': set()}, stubs)
        label = f'FROM {written} (a CTE of the enclosing query), default namespace {ns}'
        try:
            it.call_function(ps, [self_, query], {}, Env())
        except Raised as r:
            taken.append(f'raises {r.exc_name}')
        fetched = [st for st in added if isinstance(st, Obj) and st.kind == 'FetchDataframeStep']
        ok = taken == ['plan_select_identifier'] and not fetched
        out.append((label, ok, f'[{label}] plan_select {"fetches the select from " + repr(fetched[0].attrs.get("integration")) if fetched else "takes " + repr(taken)}: an inner '
                               f'select FROM a CTE name must reach plan_select_identifier, which reads the CTE result; the outer CTE names are not known to the '
                               f'single-integration gate, so a gate consulted at inner levels takes the name for a table of the default integration', ps.lineno))
    return out


def real_planner(ctx, integrations, models=(), default_namespace='mindsdb', predictor_namespace=None, **extra):
    """a QueryPlanner stand-in whose catalog attributes are made by the real QueryPlanner.__init__ (interpreted, sa/interp.py) from a catalog given the way callers
    give it - so the tables below do not depend on how the planner represents projects / databases / integrations internally.
    models: [(name, project or None)]"""
    from ..interp import Interp, Obj, Raised, Env
    import copy as _copy
    qp = class_named(ctx.src.tree(QP), 'QueryPlanner')
    init = function_named(qp, '__init__')
    ctx.need(init is not None, 'QueryPlanner.__init__ not found')
    self_ = Obj('QueryPlanner')
    meta = [dict({'name': n}, **({'integration_name': i} if i else {})) for n, i in models]
    it = Interp.for_file(ctx.src, QP, {}, {'QueryPlan': lambda it_, *a, **k: Obj('QueryPlan', steps=[])})
    try:
        it.call_function(init, [self_], dict(query=None, integrations=_copy.deepcopy(list(integrations)), predictor_namespace=predictor_namespace,
                                             predictor_metadata=meta, default_namespace=default_namespace), Env())
    except Raised as r:
        raise AnalysisError(f'QueryPlanner.__init__ raises {r.exc_name} on the catalog {integrations} / {models}')
    self_.attrs.update(extra)
    return self_


def catalog_table(ctx):
    """QueryPlanner.__init__ interpreted (sa/interp.py) on catalogs given in every accepted form (integrations as names / records, models as a list of records
    or as the legacy dictionary, with and without integration_name, mixed letter case, with and without the legacy predictor_namespace): every model is
    registered under <its project>.<name> in lower case, its project is a known project (so that `project.model` routes to it), integrations and projects are
    known databases in lower case, both model forms give the same catalog, and the caller's metadata is not changed.  -> [(label, ok, message, line)]"""
    from ..interp import Interp, Obj, Raised, Env
    import copy as _copy
    qp = class_named(ctx.src.tree(QP), 'QueryPlanner')
    init = function_named(qp, '__init__')
    ctx.need(init is not None, 'QueryPlanner.__init__ not found')
    integrations = ['Int1', {'name': 'Int2', 'type': 'data'}, {'name': 'Proj', 'type': 'project'}]
    models = [('Pred', 'ProjX'), ('p2', None), ('M3', 'proj')]
    out = []
    for ns in (None, 'Legacy'):
        results = {}
        for form in ('list', 'dict'):
            if form == 'list':
                meta = [dict({'name': n}, **({'integration_name': i} if i else {})) for n, i in models]
            else:
                meta = {n: dict(**({'integration_name': i} if i else {})) for n, i in models}
            meta0 = _copy.deepcopy(meta)
            self_ = Obj('QueryPlanner')
            it = Interp.for_file(ctx.src, QP, {}, {'QueryPlan': lambda it_, *a, **k: Obj('QueryPlan')})
            label = f'models as {form}, predictor_namespace={ns}'
            try:
                it.call_function(init, [self_], dict(query=None, integrations=_copy.deepcopy(integrations), predictor_namespace=ns, predictor_metadata=meta,
                                                     default_namespace='Int1'), Env())
            except Raised as r:
                out.append((label, False, f'[{label}] QueryPlanner.__init__ raises {r.exc_name}', init.lineno))
                continue
            info = self_.attrs.get('predictor_info') or {}
            projects = set(self_.attrs.get('projects') or [])
            dbs = list(self_.attrs.get('databases') or [])
            legacy = (ns or 'mindsdb').lower()
            want_keys = {f'{(i or legacy)}.{n}'.lower() for n, i in models}
            want_projects = {'mindsdb', 'proj'} | {(i or legacy).lower() for n, i in models}
            problems = []
            if set(info) != want_keys:
                problems.append(f'models are registered as {sorted(info)}, expected {sorted(want_keys)}')
            for n, i in models:
                rec = info.get(f'{(i or legacy)}.{n}'.lower())
                if isinstance(rec, dict) and str(rec.get('integration_name', '')).lower() != (i or legacy).lower():
                    problems.append(f'model {n} carries integration_name {rec.get("integration_name")!r}, expected {(i or legacy)!r}')
            if not want_projects <= projects:
                problems.append(f'projects {sorted(want_projects - projects)} of registered models / project records are not known projects: `project.model` is then '
                                f'routed to the default namespace')
            if any(p != p.lower() for p in projects | set(dbs) | set(self_.attrs.get('integrations') or {})):
                problems.append('a catalog name is not stored in lower case')
            if not (set(self_.attrs.get('integrations') or {}) == {'int1', 'int2'} and {'int1', 'int2'} | projects <= set(dbs)):
                problems.append(f'integrations {sorted(self_.attrs.get("integrations") or {})} / databases {sorted(dbs)} do not cover the data integrations and all projects')
            if meta != meta0:
                problems.append('the caller\'s model metadata was modified')
            if self_.attrs.get('default_namespace') != 'int1':
                problems.append(f'default namespace stored as {self_.attrs.get("default_namespace")!r}')
            results[form] = (sorted(info), sorted(projects), sorted(dbs))
            out.append((label, not problems, f'[{label}] ' + '; '.join(problems), init.lineno))
        if len(results) == 2:
            out.append((f'both forms agree, predictor_namespace={ns}', results['list'] == results['dict'],
                        f'the same models given as a list and as the legacy dictionary give different catalogs: {results["list"]} vs {results["dict"]}', init.lineno))
    return out


def resolver_table(ctx):
    """QueryPlanner.resolve_database_table and PlanJoinTablesQuery.resolve_table interpreted (sa/interp.py) on name shapes x default namespaces: the first part is
    the database exactly when the name has more than one part and that part, in any letter case, is a database; the database is reported lower-cased; every other
    name goes to the default namespace; without one the resolver raises PlanningException; the reference of the query is left as it was.
    -> [(label, ok, message, file, line)]"""
    from ..interp import Interp, Obj, Raised, Env
    dbs = ['int1', 'int2', 'mindsdb', 'files']
    shapes = [['t'], ['int1', 't'], ['INT1', 't'], ['Int1', 'T1'], ['int1'], ['FILES'], ['unknown', 't'], ['int1', 'sch', 't'], ['Int2', 'Sch', 'T'], ['mindsdb', 't'],
              ['t', 'int1'], ['sch', 'int1', 't']]
    out = []
    for key, file, cls, meth in (('QueryPlanner.resolve_database_table', QP, 'QueryPlanner', 'resolve_database_table'),
                                 ('PlanJoinTablesQuery.resolve_table', PJ, 'PlanJoinTablesQuery', 'resolve_table')):
        c = class_named(ctx.src.tree(file), cls)
        fn = function_named(c, meth) if c is not None else None
        ctx.need(fn is not None, f'resolver {key} not found')
        for parts, (default_ns, ints), with_alias in itertools.product(shapes, (('mindsdb', dbs), ('int2', dbs), (None, dbs), (None, ['int1'])), (False, True)):
            planner = real_planner(ctx, [d for d in ints if d != 'mindsdb'], [], default_namespace=default_ns)
            dbs_here = {d for d in ints if d != 'mindsdb'} | {'mindsdb'}
            self_ = planner if cls == 'QueryPlanner' else Obj(cls, planner=planner)
            alias = Obj('Identifier', parts=['al'], alias=None) if with_alias else None
            node = Obj('Identifier', parts=list(parts), alias=alias)
            stubs = {'copy.deepcopy': lambda it, x: x.clone(),
                     'Identifier': lambda it, *a, **k: Obj('Identifier', parts=list(k.get('parts') or (a[0] if a else [])), alias=k.get('alias')),
                     'TableInfo': lambda it, integration, table, aliases, **k: (integration, table)}
            it = Interp.for_file(ctx.src, file, {'Identifier': set()}, stubs, also=('mindsdb_sql/parser/ast/base.py', 'mindsdb_sql/parser/ast/select/identifier.py'))
            qualified = len(parts) > 1 and parts[0].lower() in dbs_here
            want_db = parts[0].lower() if qualified else default_ns
            want_parts = list(parts[1:]) if qualified else list(parts)
            label = f'{key}:{".".join(parts)}{" AS al" if with_alias else ""} (default namespace {default_ns}{", one integration" if len(ints) == 1 else ""})'
            try:
                res = it.call_function(fn, [self_, node], {}, Env())
                got = (res[0], list(res[1].parts)) if isinstance(res, tuple) and len(res) == 2 and isinstance(res[1], Obj) else repr(res)
            except Raised as r:
                got = f'raises {r.exc_name}'
            want = 'raises PlanningException' if want_db is None else (want_db, want_parts)
            ok = got == want and node.parts == list(parts)
            out.append((label, ok,
                        f'[{label}] resolves to {got}, expected {want} with the reference of the query unchanged: the first part names the database exactly when the '
                        f'name has more than one part and that part, in any letter case, is a known database (reported lower-cased); otherwise the default namespace; '
                        f'PlanningException when there is none', file, fn.lineno))
    return out


def join_fetch_table(ctx):
    """resolve_table followed by process_table, both interpreted, on name shapes (a schema named like the integration, mixed case, unqualified names under a
    default namespace): the table the fetch step names is <integration>.<the rest of the name as written> - the qualifier is put back exactly when it was taken off,
    so that get_integration_select_step resolves the same database and sends the same table name as a single-table select does."""
    from ..interp import Interp, Obj, Raised, Env
    from . import C08
    tree = ctx.src.tree(PJ)
    c = class_named(tree, 'PlanJoinTablesQuery')
    rt, pt, init = function_named(c, 'resolve_table'), function_named(c, 'process_table'), function_named(c, '__init__')
    cqc = function_named(c, 'check_query_conditions')
    ctx.need(rt is not None and pt is not None and cqc is not None, 'resolve_table / process_table / check_query_conditions not found')
    C08._CTX.clear()
    C08._CTX.update(tree=tree, src=ctx.src, ctx=ctx, pjt_init=init)
    dbs = ['int1', 'int2', 'mindsdb', 'files']
    shapes = [['int1', 't'], ['INT1', 't'], ['int1', 'int1', 't'], ['int1', 'INT1', 't'], ['Int1', 'int1'], ['int1', 'sch', 't'], ['int2', 'int1', 't'], ['t'], ['int1'],
              ['sch', 't'], ['files', 'files']]
    out = []
    for parts, default_ns in itertools.product(shapes, ('int1', 'mindsdb')):
        planner = real_planner(ctx, [d for d in dbs if d != 'mindsdb'], [], default_namespace=default_ns)
        node = Obj('Identifier', parts=list(parts), alias=Obj('Identifier', parts=['al'], alias=None, parentheses=False), parentheses=False)
        captured = []
        stubs = C08.base_stubs()
        stubs['TableInfo'] = lambda it, integration, table, aliases, **k: Obj('TableInfo', integration=integration, table=table, aliases=aliases, index=0, join_condition=None,
                                                                              join_type=None, predictor_info=None, **k)
        stubs['self.get_filters_from_join_conditions'] = lambda it, item: []
        stubs['self.planner.get_integration_select_step'] = lambda it, s_: (captured.append(s_), Obj('FetchDataframeStep', query=s_, result=Obj('Result')))[1]
        stubs['self.add_plan_step'] = lambda it, s_: s_
        stubs['self.check_node_condition'] = lambda it, n: None
        self_ = C08.new_pjt(planner=planner, query_context={}, tables_fetch_step={}, step_stack=[])
        q = C08.select_ctor(None, targets=[Obj('Star')])
        it = C08.interp_for(stubs)
        label = f'{".".join(parts)} (default namespace {default_ns})'
        qualified = len(parts) > 1 and parts[0].lower() in dbs
        want = [parts[0].lower() if qualified else default_ns] + (list(parts[1:]) if qualified else list(parts))
        try:
            it.call_function(cqc, [self_, q], {}, C08._env())       # the bookkeeping entries process_table reads
            self_.attrs['query_context']['use_limit'] = False
            info = it.call_function(rt, [self_, node], {}, C08._env())
            it.call_function(pt, [self_, info, q], {}, C08._env())
            got = list(captured[0].from_table.parts) if len(captured) == 1 else f'{len(captured)} fetches'
        except Raised as r:
            got = f'raises {r.exc_name}'
        out.append((label, got == want, f'[{label}] in a join the table is fetched as {got}, expected {want}: the database qualifier resolve_table took off is put back as '
                                         f'it is, whatever the rest of the name looks like - otherwise the fetch names another table than a single-table select of the same name',
                    pt.lineno))
    return out


def model_identifier_table(ctx):
    """get_predictor_namespace_and_name_from_identifier interpreted (with the real get_predictor) on model references with and without a version suffix, in
    either letter case and with / without the namespace: the identifier of the apply step is <namespace>.<model>[.<version>].  -> (label, ok, message, line)"""
    from ..interp import Interp, Obj, Raised, Env
    qp = class_named(ctx.src.tree(QP), 'QueryPlanner')
    gn = function_named(qp, 'get_predictor_namespace_and_name_from_identifier')
    ctx.need(gn is not None, 'get_predictor_namespace_and_name_from_identifier not found')
    catalog = {'mindsdb.pred': {'name': 'pred', 'integration_name': 'mindsdb'}, 'proj.tp3': {'name': 'tp3', 'integration_name': 'proj'}}
    out = []
    for parts, default_ns, want in ((['pred'], 'mindsdb', ['mindsdb', 'pred']), (['mindsdb', 'pred', '3'], 'int1', ['mindsdb', 'pred', '3']),
                                    (['proj', 'tp3', '7'], 'mindsdb', ['proj', 'tp3', '7']), (['TP3', '7'], 'proj', ['proj', 'tp3', '7']),
                                    (['proj', 'tp3'], 'mindsdb', ['proj', 'tp3'])):
        self_ = Obj('QueryPlanner', predictor_info={k: dict(v) for k, v in catalog.items()}, default_namespace=default_ns, predictor_namespace='mindsdb',
                    databases=['int1', 'int2', 'mindsdb', 'proj'], projects=['mindsdb', 'proj'])
        ident = Obj('Identifier', parts=list(parts), alias=None)
        it = Interp.for_file(ctx.src, QP, {'Identifier': set()}, {'copy.deepcopy': lambda it_, x: x.clone()})
        label = f'identifier of {".".join(parts)} (default namespace {default_ns})'
        try:
            res = it.call_function(gn, [self_, ident], {}, Env())
            ns, new = res
            got = (ns, [str(x).lower() for x in new.parts])
        except Raised as r:
            got = f'raises {r.exc_name}'
        except (TypeError, ValueError, AttributeError) as x:
            got = f'unexpected result ({x})'
        ok = got == (want[0], want) and ident.parts == list(parts)
        out.append((label, ok, f'[{label}] the model identifier handed to the steps is {got}, expected {(want[0], want)} with the reference of the query left as it was: '
                               f'a version suffix `model.3` must survive, or another version of the model is applied', gn.lineno))
    return out


def query_info_table(ctx):
    """get_query_info interpreted on probe queries (stand-in traversal): which table references count as MindsDB entities, which integrations are
    named.  -> list of (label, ok, message, line)"""
    from ..interp import Interp, Obj, Raised, Env
    qp = class_named(ctx.src.tree(QP), 'QueryPlanner')
    gqi = function_named(qp, 'get_query_info')
    rdt = function_named(qp, 'resolve_database_table')
    ctx.need(gqi is not None and rdt is not None, 'get_query_info / resolve_database_table not found')
    out = []

    def traverse(it, query, callback, **kw):
        for node, flags in query.attrs['_visits']:
            callback(node, **flags)
        return None
    probes = [
        ('CTE sales, FROM sales', ['sales'], [['sales']], [], set()),
        ('CTE Sales, FROM Sales', ['Sales'], [['Sales']], [], set()),
        ('CTE sales, FROM mindsdb.sales', ['sales'], [['mindsdb', 'sales']], [['mindsdb', 'sales']], set()),
        ('CTE sales, FROM proj.sales', ['sales'], [['proj', 'sales']], [['proj', 'sales']], set()),
        ('CTE sales, FROM int1.sales', ['sales'], [['int1', 'sales']], [], {'int1'}),
        ('CTE t, FROM t and int1.x', ['t'], [['t'], ['int1', 'x']], [], {'int1'}),
        ('no CTE, FROM int1.t', [], [['int1', 't']], [], {'int1'}),
        ('no CTE, FROM INT1.t', [], [['INT1', 't']], [], {'int1'}),
        ('no CTE, FROM int1.t, int2.u', [], [['int1', 't'], ['int2', 'u']], [], {'int1', 'int2'}),
        ('no CTE, FROM proj.x', [], [['proj', 'x']], [['proj', 'x']], set()),
        ('no CTE, FROM PROJ.x', [], [['PROJ', 'x']], [['PROJ', 'x']], set()),
        ('no CTE, FROM t (default namespace is a project)', [], [['t']], [['t']], set()),
        ('CTE a and B, FROM a, B, int1.c', ['a', 'B'], [['a'], ['B'], ['int1', 'c']], [], {'int1'}),
    ]
    # the catalog as callers give it; in the second one the project of a model is ALSO listed among the data integrations (the planner's own tests do that):
    # the name is a project all the same - its tables and models are MindsDB objects, never tables of an integration
    catalogs = [('', ['int1', 'int2', {'name': 'proj', 'type': 'project'}], [('pred', 'proj')]),
                (' [proj also listed as a data integration]', ['int1', 'int2', 'proj'], [('pred', 'proj')]),
                (' [proj also listed as a data integration, record form]', [{'name': 'int1', 'type': 'data'}, {'name': 'int2', 'type': 'data'}, {'name': 'proj', 'type': 'data'}],
                 [('pred', 'proj')])]
    probes = [(label + cl, ctes, refs, want_entities, want_ints, cints, cmodels) for cl, cints, cmodels in catalogs for label, ctes, refs, want_entities, want_ints in probes]
    probes += [('FROM proj.pred (a model)' + cl, [], [['proj', 'pred']], [['proj', 'pred']], set(), cints, cmodels) for cl, cints, cmodels in catalogs]
    for label, ctes, refs, want_entities, want_ints, cints, cmodels in probes:
        nodes = [Obj('Identifier', parts=list(r), alias=None) for r in refs]
        query = Obj('Select', cte=[Obj('CommonTableExpression', columns=[], name=Obj('Identifier', parts=[c], alias=None), query=Obj('Select')) for c in ctes] or None,
                    _visits=[(n, dict(is_table=True, is_target=False, parent_query=None, callstack=[])) for n in nodes])
        self_ = real_planner(ctx, cints, cmodels, default_namespace='mindsdb')
        stubs = {'query_traversal': traverse,
                 'self.is_predictor': lambda it, n: False,
                 'Identifier': lambda it, *a, **k: Obj('Identifier', parts=list(k.get('parts') or []), alias=k.get('alias')),
                 'self.resolve_database_table': lambda it, n: it.call_function(rdt, [self_, n], {}, Env())}
        it = Interp.for_file(ctx.src, QP, {'Identifier': set(), 'Select': set(), 'Function': set(), 'NativeQuery': set(), 'Data': set()}, stubs)
        try:
            info = it.call_function(gqi, [self_, query], {}, Env())
        except Raised as r:
            out.append((label, False, f'get_query_info raises {r.exc_name} on [{label}]', gqi.lineno))
            continue
        got_e = [list(e.parts) for e in info['mdb_entities']]
        got_i = set(info['integrations'])
        out.append((label, got_e == want_entities and got_i == want_ints,
                    f'[{label}] get_query_info reports MindsDB entities {got_e} and integrations {sorted(got_i)}; expected {want_entities} and {sorted(want_ints)}: a CTE '
                    f'shadows exactly the unqualified name it was given, every other reference is classified by the database its first part resolves to', gqi.lineno))
    return out


def rewrite_table(ctx):
    """Truth table of prepare_integration_select, interpreted on probe queries: the traversal is replaced by a stand-in that
    visits the probe's nodes with the flags the real walker would pass.  -> list of (label, ok, message, line)"""
    import itertools
    from ..interp import Interp, Obj, Raised, Env
    qp = class_named(ctx.src.tree(QP), 'QueryPlanner')
    pis = function_named(qp, 'prepare_integration_select')
    ctx.need(pis is not None, 'prepare_integration_select not found')
    out = []
    star = Obj('Star')
    shapes = [(['int1', 'tbl', 'col'], True), (['INT1', 'tbl', 'col'], True), (['int1', 'tbl'], True), (['int1', 'tbl', star], True), (['Int1', star], True),
              (['tbl', 'col'], False), (['col'], False), (['int1'], False), (['int2', 'tbl', 'col'], False), (['x', 'int1', 'col'], False),
              # a quoted name that contains a dot is ONE part
              (['first.name'], False), (['int1', 'tbl', 'first.name'], True), (['int1.x'], False)]
    froms = {'table': Obj('Identifier', parts=['int1', 'tbl'], alias=None), 'join': Obj('Join'), 'no-from': None, 'not-a-query': 'absent'}

    def traverse(it, query, callback, **kw):
        for node, flags in query.attrs['_visits']:
            r = callback(node, **flags)
            if r is not None:
                query.attrs['_replaced'] = True
        return None
    for (parts, strip), is_table, is_target, has_alias, fk, other_alias in itertools.product(shapes, (False, True), (False, True), (False, True), froms, (False, True)):
        if is_table and is_target:
            continue
        alias0 = Obj('Identifier', parts=['al'], alias=None) if has_alias else None
        node = Obj('Identifier', parts=list(parts), alias=alias0)
        parent = Obj('Insert') if fk == 'not-a-query' else Obj('Select', from_table=froms[fk])
        visits = [(node, dict(is_table=is_table, is_target=is_target, parent_query=parent, callstack=[]))]
        other = None
        if other_alias:
            # another table of the same integration whose alias is spelled like the integration
            other = Obj('Identifier', parts=['int1', 'u'], alias=Obj('Identifier', parts=['int1'], alias=None))
            visits.insert(0, (other, dict(is_table=True, is_target=False, parent_query=parent, callstack=[])))
        query = Obj('Select', _visits=visits)
        stubs = {'Identifier': lambda it, *a, **k: Obj('Identifier', parts=list(k.get('parts') or (a[0].split('.') if a else [])), alias=k.get('alias')),
                 'query_traversal': traverse}
        it = Interp.for_file(ctx.src, QP, {'Join': set(), 'Identifier': set(), 'Select': set()}, stubs)
        label = (f'parts={[p if isinstance(p, str) else "*" for p in parts]} is_table={is_table} is_target={is_target} alias={has_alias} from={fk}'
                 + (' other-table-aliased-like-the-integration' if other_alias else ''))
        try:
            it.call_function(pis, [real_planner(ctx, ['int1', 'int2', {'name': 'proj', 'type': 'project'}], []), 'int1', query], {}, Env())
        except Raised as r:
            out.append((f'raises:{label}', False, f'prepare_integration_select raises {r.exc_name} on [{label}]', pis.lineno))
            continue
        want_parts = list(parts[1:]) if strip else list(parts)
        out.append((f'strip:{label}', node.parts == want_parts,
                    f'[{label}] the identifier becomes {[p if isinstance(p, str) else "*" for p in node.parts]}, expected '
                    f'{[p if isinstance(p, str) else "*" for p in want_parts]}: the integration qualifier is removed exactly when the name has more than one part and '
                    f'its first part is the integration (any letter case), whatever the position of the identifier and whatever else is in the query', pis.lineno))
        last = want_parts[-1]
        want_alias_new = (not is_table and is_target and not has_alias and fk in ('table', 'no-from') and isinstance(last, str))
        got_alias = node.alias
        if want_alias_new:
            ok = isinstance(got_alias, Obj) and got_alias is not alias0 and got_alias.parts == [last]
        else:
            ok = got_alias is alias0
        out.append((f'alias:{label}', ok,
                    f'[{label}] alias after the rewrite: {got_alias!r}; an alias (the own last part) is added only to a bare target column of a select that is not a join, '
                    f'an existing alias is never touched', pis.lineno))
        out.append((f'no-replacement:{label}', not query.attrs.get('_replaced'), f'[{label}] the callback returns a value: query_traversal would replace the node', pis.lineno))
        if other is not None:
            out.append((f'other:{label}', other.parts == ['u'] and other.alias.parts == ['int1'], f'[{label}] the aliased table int1.u AS int1 became {other.parts} AS {other.alias.parts}',
                        pis.lineno))
    return out


def _implies_no_model(t, pol):
    """the branch condition (test with polarity) implies `predictor_info is None`"""
    def is_p(e, neg):
        return isinstance(e, ast.Compare) and len(e.ops) == 1 and isinstance(e.left, ast.Attribute) and e.left.attr == 'predictor_info' \
            and isinstance(e.comparators[0], ast.Constant) and e.comparators[0].value is None \
            and isinstance(e.ops[0], ast.Is if neg else ast.IsNot)
    if pol:
        # T true => none:  T is `p is None` or a conjunction containing it
        if is_p(t, True):
            return True
        return isinstance(t, ast.BoolOp) and isinstance(t.op, ast.And) and any(is_p(v, True) for v in t.values)
    # T false => none: T is `p is not None` or a disjunction containing it
    if is_p(t, False):
        return True
    return isinstance(t, ast.BoolOp) and isinstance(t.op, ast.Or) and any(is_p(v, False) for v in t.values)


def _is_integration_param(an, u, e):
    """the `database` parameter of prepare_integration_select seen from its nested callback"""
    return isinstance(e, ast.Name) and u.outer is not None and e.id in u.outer.params and u.outer.name == 'prepare_integration_select' and e.id != 'query'


def _ev(e, env):
    """peval + the two calls the CTE filter uses"""
    if isinstance(e, ast.Call) and isinstance(e.func, ast.Attribute) and e.func.attr == 'join' and isinstance(e.func.value, ast.Constant):
        return e.func.value.value.join(_ev(e.args[0], env))
    if isinstance(e, ast.Call) and dotted(e.func) == 'isinstance':
        return True
    if isinstance(e, ast.Call) and dotted(e.func) == 'len':
        return len(_ev(e.args[0], env))
    if isinstance(e, ast.Attribute) and isinstance(e.value, ast.Name) and e.value.id in env and hasattr(env[e.value.id], e.attr):
        return getattr(env[e.value.id], e.attr)
    if isinstance(e, ast.Subscript):
        v = _ev(e.value, env)
        if isinstance(e.slice, ast.Slice):
            lo = _ev(e.slice.lower, env) if e.slice.lower else None
            hi = _ev(e.slice.upper, env) if e.slice.upper else None
            return v[lo:hi]
        return v[_ev(e.slice, env)]
    if isinstance(e, ast.UnaryOp) and isinstance(e.op, ast.Not):
        return not _ev(e.operand, env)
    if isinstance(e, ast.UnaryOp) and isinstance(e.op, ast.USub):
        return -_ev(e.operand, env)
    if isinstance(e, ast.BoolOp):
        if isinstance(e.op, ast.And):
            return all(_ev(v, env) for v in e.values)
        return any(_ev(v, env) for v in e.values)
    if isinstance(e, ast.Compare) and len(e.ops) == 1:
        l, r = _ev(e.left, env), _ev(e.comparators[0], env)
        op = e.ops[0]
        if isinstance(op, ast.In):
            return l in r
        if isinstance(op, ast.NotIn):
            return l not in r
        if isinstance(op, ast.Eq):
            return l == r
        if isinstance(op, ast.NotEq):
            return l != r
    return peval.ev(e, env)
