"""C07 - constants render as inert, exact literals in every output path.

Decided as a codec-agreement + who-may-format property; the for-all-strings read-back is not executed.
"""
import ast
import itertools

from ..source import AnalysisError, norm, dotted, const_str, walk_no_nested
from ..codec import StringSyntax, chain_steps, apply_steps
from ..grammar import load_dialect
from ..pymodel import model_for
from .. import peval
from . import C04

RENDER = 'mindsdb_sql/render/sqlalchemy_render.py'

# Reference: what is special inside a single-quoted string literal of each target (defaults of the engines).
#   doubled: '' denotes '      backslash: \ introduces an escape
# mysql: https://dev.mysql.com/doc/refman/8.0/en/string-literals.html (backslash escapes unless NO_BACKSLASH_ESCAPES)
# postgresql: standard_conforming_strings=on (default since 9.1): backslash is an ordinary character
# sqlite / mssql / oracle: only the doubled quote
TARGET_SYNTAX = {
    'mysql': dict(backslash=True), 'postgresql': dict(backslash=False), 'postgres': dict(backslash=False),
    'sqlite': dict(backslash=False), 'mssql': dict(backslash=False), 'oracle': dict(backslash=False),
    'Snowflake': dict(backslash=False),
}


def target_read(lit, backslash):
    """value a target engine reads from a single-quoted literal, or None if the text is not exactly one literal"""
    if len(lit) < 2 or lit[0] != "'" or lit[-1] != "'":
        return None
    body = lit[1:-1]
    out = []
    i = 0
    while i < len(body):
        c = body[i]
        if backslash and c == '\\':
            if i + 1 >= len(body):
                return None             # the backslash escapes the closing quote: unterminated
            nx = body[i + 1]
            out.append({'n': '\n', 't': '\t', '0': '\0', 'r': '\r', 'b': '\b', 'Z': '\x1a'}.get(nx, nx))
            i += 2
            continue
        if c == "'":
            if i + 1 < len(body) and body[i + 1] == "'":
                out.append("'")
                i += 2
                continue
            return None                 # a lone quote ends the literal early
        out.append(c)
        i += 1
    return ''.join(out)


def enclosing_params(fn):
    """parameters of the function enclosing the compiler class, other than the statement and the dialect: free variables of render_literal_value bound there"""
    encl = getattr(fn, '_parent', None)
    while encl is not None and not isinstance(encl, ast.FunctionDef):
        encl = getattr(encl, '_parent', None)
    if encl is None:
        return None, []
    a = encl.args
    names = [x.arg for x in a.posonlyargs + a.args + a.kwonlyargs]
    return encl, [x for x in names[1:] if x != 'dialect']


def outer_values(ctx, cls, encl, extra, sa_module, how, key):
    """Values the renderer passes for the extra parameters of a render function: SqlalchemyRender.__init__ interpreted for a constructor argument (`how`: the key of the
    dialect table, or the dialect class of that module), then the argument expressions of the call site of the render function evaluated on that instance."""
    from ..interp import Interp, Obj, Raised, Env, ClassRef
    tree = ctx.src.tree(RENDER)
    stubs = {}
    for m in ('mysql', 'postgresql', 'sqlite', 'mssql', 'oracle'):
        stubs[f'{m}.dialect'] = (lambda m_: (lambda it, *a, **k: Obj('Dialect', name=m_, server_version_info=None, paramstyle=k.get('paramstyle'),
                                                                        _setup_version_attributes=lambda *a_, **k_: None)))(m)
    stubs['sa.types.__dict__.items'] = lambda it: [('BOOLEAN', Obj('Type', __module__='sqlalchemy.sql.sqltypes'))]          # the type table is not what is examined here
    stubs['getattr'] = lambda it, o, name, *d: (ClassRef(f'{o.name}.{name}') if isinstance(o, ClassRef) else (o.attrs[name] if name in o.attrs else d[0]))
    it = Interp.for_file(ctx.src, RENDER, {}, stubs)
    init = [m for m in cls.body if isinstance(m, ast.FunctionDef) and m.name == '__init__'][0]
    self_ = Obj('SqlalchemyRender')
    arg = key if how == 'name' else ClassRef(f'{sa_module}.dialect')
    try:
        it.call_function(init, [self_, arg], {}, Env())
    except Raised as r:
        raise AnalysisError(f'SqlalchemyRender.__init__({arg!r}) raises {r.exc_name}')
    # call sites of the render function inside the class: direct, or through a local name bound to it
    vals = {}
    for m in [m for m in cls.body if isinstance(m, ast.FunctionDef)]:
        aliases = {encl.name}
        for n in ast.walk(m):
            if isinstance(n, ast.Assign) and isinstance(n.value, ast.Name) and n.value.id in aliases and isinstance(n.targets[0], ast.Name):
                aliases.add(n.targets[0].id)
        for c in [n for n in ast.walk(m) if isinstance(n, ast.Call) and isinstance(n.func, ast.Name) and n.func.id in aliases]:
            a = encl.args
            params = [x.arg for x in a.posonlyargs + a.args]
            env = Env()
            env.set('self', self_)
            for i, e in enumerate(c.args):
                if i < len(params) and params[i] in extra:
                    vals.setdefault(params[i], []).append(it.ev(e, env))
            for k in c.keywords:
                if k.arg in extra:
                    vals.setdefault(k.arg, []).append(it.ev(k.value, env))
    out = {}
    a = encl.args
    pos = a.posonlyargs + a.args
    defaults = dict(zip([x.arg for x in pos[len(pos) - len(a.defaults):]], a.defaults))
    defaults.update({x.arg: d for x, d in zip(a.kwonlyargs, a.kw_defaults) if d is not None})
    for nm in extra:
        if nm in vals:
            if any(v != vals[nm][0] for v in vals[nm]):
                raise AnalysisError(f'{encl.name}: the call sites pass different values for `{nm}`')
            out[nm] = vals[nm][0]
        elif nm in defaults:
            out[nm] = it.ev(defaults[nm], Env())
        else:
            raise AnalysisError(f'{encl.name}: no call site passes `{nm}` and it has no default')
    return out


def override_model(fn, dialect_name, outer=None, shared=None):
    """LiteralCompiler.render_literal_value interpreted (fail-closed AST interpreter) for a str value under `dialect.name == dialect_name`:
    -> callable(value) -> literal text; raises _Delegates when str values are handed to super()."""
    from ..interp import Interp, Obj, Raised, Env
    mod = fn
    while getattr(mod, '_parent', None) is not None:
        mod = mod._parent

    def delegate(*a, **k):
        raise _Delegates()

    def run(v):
        stubs = {'super': lambda it, *a: Obj('Super', render_literal_value=delegate)}
        if shared is not None and shared:
            it = shared[0]          # one interpreter for a whole history of renderings: module-level objects live on between the calls
        else:
            it = Interp({}, stubs)
            it.module = mod if isinstance(mod, ast.Module) else None
            if shared is not None:
                shared.append(it)
        env = Env()
        d = Obj('Dialect', name=dialect_name)
        env.set('dialect', d)
        for k_, v_ in (outer or {}).items():
            env.set(k_, v_)
        try:
            out = it.call_function(fn, [Obj('LiteralCompiler', dialect=d), v, None], {}, env)
        except Raised as r:
            raise AnalysisError(f'render_literal_value raises {r.exc_name} for the value {v!r}')
        if not isinstance(out, str):
            raise AnalysisError(f'render_literal_value returns {out!r} for the value {v!r}')
        return out
    return run


class _Delegates(Exception):
    pass


def run(ctx):
    ctx.explanation = (
        'Codec agreement + who-may-format. (1) The LiteralCompiler.render_literal_value overrides (DML and DDL) are partially '
        'evaluated for a str value under each dialect name constructible by SqlalchemyRender (keys of its dialect table) and '
        'their output on a set of hostile value probes is read back with the reference literal rules of that target (table with '
        'citations in the rule): the text must be exactly one literal denoting the value. (2) The tree\'s own printer '
        '(Constant.get_string, Insert.to_value) is checked against the library\'s own QUOTE_STRING syntax (shared with C04). '
        '(3) single gateway: in the renderer a value of Constant / raw INSERT or UPDATE data reaches SQLAlchemy only through '
        'sa.literal(); sa.text / literal columns / f-strings fed by value-derived expressions are reported; AST printers must '
        'not format raw values with repr(). (4) the dialect is instantiated with paramstyle="named". NOT decided: read-back for '
        'all strings (finite probe family); SQLAlchemy\'s own rendering of non-string literals (trusted).')
    ctx.not_decided = ['read-back equality for ALL strings (finite hostile probe family)', 'SQLAlchemy rendering of numbers/booleans/NULL (trusted)']
    ctx.assumptions = ['target lexical rules as in TARGET_SYNTAX (MySQL default sql_mode; PostgreSQL standard_conforming_strings=on)']
    tree = ctx.src.tree(RENDER)
    # dialect names
    cls = None
    for n in tree.body:
        if isinstance(n, ast.ClassDef) and n.name == 'SqlalchemyRender':
            cls = n
    ctx.need(cls is not None, 'SqlalchemyRender not found')
    init = [m for m in cls.body if isinstance(m, ast.FunctionDef) and m.name == '__init__'][0]
    from .C17 import dialect_table
    dd = [dialect_table(ctx, tree, init)]
    names = [k.value for k in dd[0].value.keys if isinstance(k, ast.Constant)]
    modules = {k.value: norm(v) for k, v in zip(dd[0].value.keys, dd[0].value.values) if isinstance(k, ast.Constant)}
    ctx.setcount('dialect_keys', len(names))
    # (4) paramstyle
    ctor = [n for n in ast.walk(init) if isinstance(n, ast.Assign) and norm(n.targets[0]) == 'self.dialect']
    ctx.need(ctor, 'self.dialect assignment not found')
    for a in ctor:
        ok = isinstance(a.value, ast.Call) and any(k.arg == 'paramstyle' and const_str(k.value) == 'named' for k in a.value.keywords)
        ctx.ob('C07.paramstyle', norm(a)[:60], ok,
               'the dialect is not instantiated with paramstyle="named": with a positional/percent style the compiled text doubles % '
               'characters of literals', file=RENDER, line=a.lineno, witness="Constant('100%')")
    # (1) overrides
    overrides = []
    mod_fns_ = {n.name: n for n in tree.body if isinstance(n, ast.FunctionDef)}
    # a module-level class that defines the override is a mixin: the compiler classes built from it inherit the method
    mixins = {c.name: m for c in tree.body if isinstance(c, ast.ClassDef) for m in c.body if isinstance(m, ast.FunctionDef) and m.name == 'render_literal_value'}
    for fn in mod_fns_.values():
        for c in [x for x in ast.walk(fn) if isinstance(x, ast.ClassDef)]:
            own_ = [m for m in c.body if isinstance(m, ast.FunctionDef) and m.name == 'render_literal_value']
            for m in own_:
                overrides.append((fn.name, m))
            if not own_:
                for b in c.bases:
                    if isinstance(b, ast.Name) and b.id in mixins:
                        overrides.append((fn.name, mixins[b.id]))
                        break
    ctx.setcount('literal_overrides', len(overrides))
    # every entry of the text rendering (render_dml_query, render_ddl_query) compiles with such an override: it holds one, or calls (transitively) the function that does
    owners_ = {f for f, _m in overrides}
    for entry in [n for n in mod_fns_ if n.startswith('render_') and n.endswith('_query')]:
        seen_, work_ = {entry}, [entry]
        while work_:
            for x in ast.walk(mod_fns_[work_.pop()]):
                if isinstance(x, ast.Call) and isinstance(x.func, ast.Name) and x.func.id in mod_fns_ and x.func.id not in seen_:
                    seen_.add(x.func.id)
                    work_.append(x.func.id)
        ctx.count('literal_override_entries')
        ctx.ob('C07.literal-override', f'coverage:{entry}', bool(seen_ & owners_),
               f'{entry} compiles the statement without a LiteralCompiler that overrides render_literal_value: string constants are then written by SQLAlchemy\'s own '
               f'literal rendering', file=RENDER, line=mod_fns_[entry].lineno)
    for fname, m in overrides:
        for dn in names:
            real = dn
            # the sqlalchemy dialect name the instance will carry: module attribute of the table value
            mod = modules.get(dn, dn)
            sa_name = {'mysql': 'mysql', 'postgresql': 'postgresql', 'sqlite': 'sqlite', 'mssql': 'mssql', 'oracle': 'oracle'}.get(mod, mod)
            syn = TARGET_SYNTAX.get(dn)
            ctx.need(syn is not None, f'no reference literal syntax for dialect name {dn!r}')
            encl_, extra_ = enclosing_params(m)
            for how in (('name', 'class') if extra_ and dn == mod else ('name',)):
                outer_ = outer_values(ctx, cls, encl_, extra_, mod, how, dn) if extra_ else None
                enc = override_model(m, sa_name, outer_)
                if how == 'class':
                    dn = f'{dn} (renderer built from the dialect class)'
                bad = []
                delegated = False
                for v in C04.VALUE_PROBES:
                    try:
                        lit = enc(v)
                    except _Delegates:
                        delegated = True
                        break
                    back = target_read(lit, syn['backslash'])
                    if back != v:
                        bad.append((v, lit, back))
                ctx.count('override_probe_runs')
                if delegated:
                    ctx.ob('C07.literal-override', f'{fname}:{dn}', sa_name not in ('postgresql',),
                           f'{fname}: str values are delegated to SQLAlchemy\'s own render_literal_value; for {dn} SQLAlchemy doubles '
                           f'backslashes unless the server reported standard_conforming_strings, which this offline renderer never asks: '
                           f'a backslash in a constant is rendered twice', file=RENDER, line=m.lineno, witness="Constant('C:\\\\temp')")
                    continue
                ctx.ob('C07.literal-override', f'{fname}:{dn}', not bad,
                       f'{fname}: for dialect {dn!r} the constant {bad[0][0]!r} is rendered as {bad[0][1]}, which {dn} reads as '
                       f'{"an unterminated / prematurely ended literal (the rest of the value becomes SQL)" if bad[0][2] is None else repr(bad[0][2])}'
                       if bad else '', file=RENDER, line=m.lineno, witness=f'Constant({bad[0][0]!r})' if bad else None)
    # (1b) a literal's text is a function of the value and the target only - not of what was rendered before in this process: the same encoders evaluated as one
    # history (every target, then every target again in reverse order) inside ONE interpreter, whose module-level objects persist, against the fresh evaluation
    for fname, m in overrides:
        encl_, extra_ = enclosing_params(m)
        shared = []
        order = list(names) + list(reversed(names))
        diffs = []
        for dn in order:
            mod = modules.get(dn, dn)
            outer_ = outer_values(ctx, cls, encl_, extra_, mod, 'name', dn) if extra_ else None
            fresh, hist = override_model(m, mod, outer_), override_model(m, mod, outer_, shared=shared)
            for v in C04.VALUE_PROBES:
                try:
                    a_ = fresh(v)
                except _Delegates:
                    break
                try:
                    b_ = hist(v)
                except _Delegates:
                    b_ = '<delegated>'
                if a_ != b_:
                    diffs.append((dn, v, a_, b_))
            ctx.count('history_runs')
        ctx.ob('C07.literal-history', fname, not diffs,
               (f'{fname}: after literals were rendered for {order[:order.index(diffs[0][0])] or [diffs[0][0]]} the constant {diffs[0][1]!r} is rendered for {diffs[0][0]!r} as '
                f'{diffs[0][3]} (in a fresh process: {diffs[0][2]}): the encoder keeps state between renderings, so the literal of one target depends on earlier use of another')
               if diffs else '', file=RENDER, line=m.lineno,
               witness=f"SqlalchemyRender('mysql').get_string(...) then SqlalchemyRender('postgres').get_string(Constant({diffs[0][1]!r}))" if diffs else None)
    check_compile_hooks(ctx, tree)
    # (2) the tree's own printers
    enc, steps, site = C04.encoder_model(ctx)
    g = load_dialect(ctx.src, 'mindsdb')
    syn = StringSyntax(g.lexer.rule('QUOTE_STRING').pattern, g.lexer.reflags)
    bad = [(v, enc(v)) for v in C04.VALUE_PROBES if not syn.accepts(enc(v)) or syn.reference_decode(enc(v)) != v]
    ctx.ob('C07.to_string-encoder', 'Constant.get_string', not bad,
           f'Constant({bad[0][0]!r}).to_string() is {bad[0][1]}, which the library\'s own lexer does not read back as one literal with that '
           f'value' if bad else '', file=site[0], line=site[1])
    # ... and by the library's own decoder (C04's table: every string token's decoder, interpreted, applied to what the printer writes)
    from .. import core as _core
    sub4 = _core.Ctx('C04', ctx.src, ctx.tier)
    C04.check_strings(sub4)
    ctx.setcount('readback_rows', len(sub4.constructs))
    ctx.floor('readback_rows', 6)
    ctx.ob('C07.to_string-readback', 'all', True, '')
    for f in sub4.findings:
        ctx.ob('C07.to_string-readback', f.key, False, f.msg, file=f.file, line=f.line, witness=f.witness)
    model = model_for(ctx.src)
    nrepr = 0
    for ci in model.subclasses('ASTNode'):
        if not ci.file.startswith('mindsdb_sql/parser/ast/') or ci.file.endswith('/base.py'):
            continue
        for mname in ('get_string', 'to_string', 'to_value', 'render'):
            fn = ci.methods.get(mname)
            if fn is None:
                continue
            for n in ast.walk(fn):
                if isinstance(n, ast.Call) and dotted(n.func) in ('repr', 'json.dumps') and n.args:
                    nrepr += 1
                    a = norm(n.args[0])
                    data = (ci.name == 'Insert') or a in ('self.value', 'val', 'value')
                    if ci.name in ('Insert', 'Update', 'Constant', 'Select') and dotted(n.func) == 'repr':
                        ctx.ob('C07.single-gateway', f'{ci.name}.{mname}:repr({a})', False,
                               f'{ci.name}.{mname} formats a data value with repr(): Python\'s repr chooses " delimiters for strings that '
                               f'contain a quote and prints None/True as Python names - not SQL literals', file=ci.file, line=n.lineno,
                               witness="Insert(table=..., values=[[\"it's\", None]])")
        ctx.count('ast_printer_classes')
    ctx.setcount('repr_sites_in_printers', nrepr)
    # printers are context-free: no cache of rendered text keyed by Python value equality (1 == 1.0 == True share a key)
    for ci in model.subclasses('ASTNode'):
        for mname, fn in ci.methods.items():
            if mname not in ('get_string', 'to_string', 'to_value', 'render', 'to_tree'):
                continue
            keyvars = {}
            for n in ast.walk(fn):
                if isinstance(n, ast.Assign) and isinstance(n.targets[0], ast.Name):
                    keyvars[n.targets[0].id] = n.value
            for n in ast.walk(fn):
                key = None
                if isinstance(n, ast.Subscript) and isinstance(n.ctx, ast.Store) and isinstance(n.value, ast.Name):
                    key = n.slice
                if key is None:
                    continue
                kexpr = keyvars.get(key.id, key) if isinstance(key, ast.Name) else key
                txt = norm(kexpr)
                uses_value = any(isinstance(x, ast.Attribute) and x.attr == 'value' for x in ast.walk(kexpr))
                typed = 'type(' in txt or '__class__' in txt
                ctx.ob('C07.no-value-keyed-cache', f'{ci.name}.{mname}:{norm(n)[:40]}', not (uses_value and not typed),
                       f'{ci.name}.{mname} caches rendered text under the key `{txt[:60]}`: Python treats 1, 1.0 and True (0, 0.0, False) '
                       f'as the same key, so a constant is printed with the text of a different constant', file=ci.file, line=n.lineno,
                       witness='Insert(values=[[Constant(1), Constant(True)]]) prints (1, 1)')
    iv = model.get('Insert').methods.get('to_value')
    ctx.need(iv is not None, 'Insert.to_value not found')
    # Insert.to_value interpreted (with the real Constant class) on raw row values: the text is what the constant printer gives for that value
    from ..interp import Interp as _I, Obj as _O, Raised as _R, Env as _E
    ifile = 'mindsdb_sql/parser/ast/insert.py'
    also = ('mindsdb_sql/parser/ast/base.py', 'mindsdb_sql/parser/ast/select/constant.py')
    badv = []
    for v in list(C04.VALUE_PROBES[:12]) + [1, 2.5, True, False, 0, 1e-07]:
        it = _I.for_file(ctx.src, ifile, {'Constant': {'ASTNode'}}, {}, also=also)
        try:
            got = it.call_function(iv, [_O('Insert'), v], {}, _E())
            want = it.call_function(it.methods['Constant']['to_string'], [_O('Constant', value=v, with_quotes=True, alias=None, parentheses=False)], {}, _E())
        except _R as r:
            got, want = f'<raises {r.exc_name}>', None
        if got != want:
            badv.append((v, got, want))
    ctx.ob('C07.single-gateway', 'Insert.to_value', not badv,
           f'Insert.to_value prints the row value {badv[0][0]!r} as {badv[0][1]}, the constant printer gives {badv[0][2]}: values of INSERT rows must be the same literals '
           f'as constants elsewhere' if badv else '', file=ifile, line=iv.lineno)
    # (3) gateway in the renderer: raw-SQL constructors fed by value-derived expressions
    RAW = {'sa.text': 0, 'sa.literal_column': 0, 'sa.column': 0, 'text': 0, 'literal_column': 0}
    nsites = 0
    for fn in [n for n in ast.walk(tree) if isinstance(n, ast.FunctionDef)]:
        for n in walk_no_nested(fn):
            if isinstance(n, ast.Call) and dotted(n.func) in RAW and n.args:
                if dotted(n.func) in ('sa.column',) and not any(k.arg == 'is_literal' for k in n.keywords):
                    continue
                nsites += 1
                arg = n.args[0]
                a = norm(arg)
                value_derived = any(isinstance(x, ast.Attribute) and x.attr == 'value' and not norm(x).startswith(('node.limit', 'node.offset'))
                                    for x in ast.walk(arg)) or any(isinstance(x, ast.Name) and x.id in ('val', 'value', 'item')
                                                                   for x in ast.walk(arg))
                # Parameter.value is the placeholder marker, not user data: find the isinstance guard
                p = getattr(n, '_parent', None)
                under = ''
                while p is not None and p is not fn:
                    if isinstance(p, ast.If) and any(n is x for b in p.body for x in ast.walk(b)):
                        under = norm(p.test)
                        break
                    p = getattr(p, '_parent', None)
                is_param = 'ast.Parameter' in under
                is_const = 'ast.Constant' in under or 'Constant' in under.split('ast.')[-1:]
                ctx.ob('C07.single-gateway', f'{fn.name}:{norm(n)[:50]}', not (value_derived and not is_param),
                       f'{fn.name} puts `{a}` into raw SQL text with `{dotted(n.func)}` ({under[:40] or "unconditionally"}): a constant value '
                       f'must reach SQLAlchemy only as a bound literal (sa.literal), otherwise its content is parsed as SQL',
                       file=RENDER, line=n.lineno)
                if not value_derived or is_param:
                    ctx.note(f'{fn.name}: {norm(n)[:70]} - raw SQL from {"a placeholder marker" if is_param else "non-constant source"} (listed)')
    ctx.setcount('raw_sql_sites_in_renderer', nsites)
    lits = [n for n in ast.walk(tree) if isinstance(n, ast.Call) and dotted(n.func) == 'sa.literal']
    ctx.ob('C07.single-gateway', 'to_expression:Constant->sa.literal',
           any(norm(c.args[0]) == 't.value' for c in lits if c.args),
           'to_expression no longer passes Constant.value through sa.literal()', file=RENDER)
    ctx.sample({'dialects': names, 'probes': C04.VALUE_PROBES[:8]})
    ctx.floor('literal_overrides', 1)
    ctx.floor('literal_override_entries', 2)
    ctx.floor('dialect_keys', 7)
    ctx.floor('override_probe_runs', 7)
    ctx.floor('raw_sql_sites_in_renderer', 6)
    ctx.floor('ast_printer_classes', 20)
    check_text_rewrites(ctx, tree, cls)
    check_native_text(ctx, cls)


def sa_text_compiled(t):
    """what SQLAlchemy's text() construct makes of a string when it is compiled with literal binds (reference: sqlalchemy.sql.elements.TextClause._bind_params_regex,
    sqlalchemy.sql.compiler.BIND_PARAMS / BIND_PARAMS_ESC and SQLCompiler.visit_textclause, 1.4 and 2.0): `:name` - also inside a quoted literal - is a bind parameter
    (rendered NULL, it has no value); `\\:name` is un-escaped to `:name`"""
    import re as _re
    names = set(_re.findall(r"(?<![:\w\x5c]):(\w+)(?!:)", t))
    out = _re.sub(r"(?<![:\w\$\x5c]):([\w\$]+)(?![:\w\$])", lambda m: 'NULL' if m.group(1) in names else m.group(0), t)
    return _re.sub(r"\x5c(:[\w\$]*)(?![:\w\$])", lambda m: m.group(1), out)


def check_native_text(ctx, cls):
    """A native query (`FROM db (text)`) is the user's text: prepare_select interpreted on such a FROM, with sa.text standing in as a recorder; what text() and the
    compiler make of the recorded string (reference semantics above) must be the text itself, character for character - a `:word` inside a string constant of the
    native query is data, not a bind parameter."""
    from ..interp import Interp, Obj, Raised, Env, class_members
    ps = next((m for m in cls.body if isinstance(m, ast.FunctionDef) and m.name == 'prepare_select'), None)
    ctx.need(ps is not None, 'SqlalchemyRender.prepare_select not found')
    probes = ["select * from t where a = ' :b'", "select ts::date as d from t where at > '10:30' and n = :p", "select 'it''s', 'a\\:b' from t", 'select 1',
              "select * from t where s = ':x:' or s = ':'"]
    n = 0
    for text in probes:
        seen = []

        def sa_text(it, t, *a, **k):
            seen.append(t)
            return Obj('SaText', _fluent=True, _log=[])
        query = Obj('SaSelect', _fluent=True, _log=[])
        node = Obj('Select', targets=[Obj('Star')], distinct=False, where=None, group_by=None, having=None, order_by=None, limit=None, offset=None, cte=None, mode=None,
                   using=None, alias=None, parentheses=False,
                   from_table=Obj('NativeQuery', integration=Obj('Identifier', parts=['db'], alias=None), query=text, alias=Obj('Identifier', parts=['x'], alias=None), parentheses=False))
        stubs = {'sa.select': lambda it, *c: query, 'self.to_expression': lambda it, t: ('expr', id(t)), 'self.to_table': lambda it, t: ('table', 't'),
                 'sa.text': sa_text, 'self.get_alias': lambda it, x: x}
        it = Interp.for_file(ctx.src, RENDER, {'Join': set(), 'Select': set(), 'Identifier': set(), 'Union': set(), 'Intersect': set(), 'Except': set(), 'NativeQuery': set()},
                             stubs, methods={'SqlalchemyRender': class_members(cls)})
        try:
            it.call_function(ps, [Obj('SqlalchemyRender'), node], {}, Env())
        except Raised as r:
            ctx.ob('C07.native-text', text, r.exc_name == 'NotImplementedError', f'prepare_select raises {r.exc_name} on FROM db ({text})', file=RENDER, line=ps.lineno)
            continue
        n += 1
        handed = [t for t in seen if isinstance(t, str) and t != '*']
        got = [sa_text_compiled(t) for t in handed]
        ctx.ob('C07.native-text', text, got == [text],
               f'the native query {text!r} is handed to sa.text() as {handed}, which SQLAlchemy compiles to {got}: text() reads every `:word` as a bind parameter - also '
               f'inside a string constant - and renders it NULL; the text of a native query must arrive unchanged', file=RENDER, line=ps.lineno,
               witness="SELECT * FROM db (select * from t where a = ' :b') AS x")
    ctx.setcount('native_text_rows', n)
    ctx.floor('native_text_rows', 5)


def check_text_rewrites(ctx, tree, cls):
    """Once literals are inlined the SQL text is final: any rewriting of it (replace, re.sub, helper functions) must leave every literal as it is.
    Each rewriting step found on the render path is applied - by the checker's interpreter, on the step's own AST - to probe texts."""
    import re as _re
    from ..interp import Interp, Obj, Raised, Env, Closure
    from ..source import dotted as _dotted
    funcs = [n for n in tree.body if isinstance(n, ast.FunctionDef) and n.name.startswith('render_')]
    funcs += [m for m in cls.body if isinstance(m, ast.FunctionDef) and (m.name in ('get_string', 'get_exec_params') or m.name.startswith('get_') and 'string' in m.name)]
    ctx.need(len(funcs) >= 4, 'render_dml_query / render_ddl_query / get_string / get_exec_params not found')
    # helper functions callable by name: this module's and `from mindsdb_sql.<mod> import name`
    helpers = {n.name: n for n in tree.body if isinstance(n, ast.FunctionDef)}
    for n in tree.body:
        if isinstance(n, ast.ImportFrom) and n.module and n.module.startswith('mindsdb_sql'):
            f = n.module.replace('.', '/') + '.py'
            try:
                t2 = ctx.src.tree(f)
            except Exception:
                try:
                    t2 = ctx.src.tree(n.module.replace('.', '/') + '/__init__.py')
                except Exception:
                    continue
            for a in n.names:
                for d in t2.body:
                    if isinstance(d, ast.FunctionDef) and d.name == a.name:
                        helpers[a.asname or a.name] = d
    PROBES = [("SELECT 'a`b' AS `x` FROM `t`", ["'a`b'"]), ("SELECT 'line1\nline2\ttab  two   blanks' FROM t", ["'line1\nline2\ttab  two   blanks'"]),
              ("INSERT INTO t VALUES ('it''s; -- no', '%s :x')", ["'it''s; -- no'", "'%s :x'"]), ("SELECT 'UPPER lower' FROM t \n WHERE a = ' lead and trail '", ["'UPPER lower'", "' lead and trail '"]),
              # a quoted NAME that contains an apostrophe stands before the literal: the literal still begins where it begins
              ("SELECT `it's`, 'x`y' FROM t", ["'x`y'"]), ('SELECT "it\'s" AS c, \'x`y"z\' FROM t', ["'x`y\"z'"]),
              ("SELECT 'a\\'`b', `c` FROM t", ["'a\\'`b'"])]
    def _own_nodes(f):
        # nodes of the function itself: not those of classes / functions defined inside it
        stack = list(f.body)
        while stack:
            n = stack.pop()
            yield n
            for c in ast.iter_child_nodes(n):
                if not isinstance(c, (ast.FunctionDef, ast.ClassDef, ast.Lambda)):
                    stack.append(c)
    nsteps = 0
    for fn in funcs:
        sqlvars = set()
        for st in _own_nodes(fn):
            if isinstance(st, ast.Assign) and isinstance(st.targets[0], ast.Name):
                v = st.value
                src = (isinstance(v, ast.Call) and (_dotted(v.func) in ('str', 'render_func', 'render_dml_query', 'render_ddl_query')
                                                    or (isinstance(v.func, ast.Attribute) and v.func.attr in ('to_string', 'get_string'))))
                if src:
                    sqlvars.add(st.targets[0].id)
        changed = True
        steps = []
        while changed:
            changed = False
            for st in _own_nodes(fn):
                val = None
                if isinstance(st, ast.Assign) and isinstance(st.targets[0], ast.Name):
                    val, tgt = st.value, st.targets[0].id
                elif isinstance(st, ast.Return) and st.value is not None:
                    val, tgt = st.value, None
                    if isinstance(val, ast.Tuple) and val.elts:
                        val = val.elts[0]
                if val is None or isinstance(val, ast.Name):
                    continue
                used = {x.id for x in ast.walk(val) if isinstance(x, ast.Name) and x.id in sqlvars}
                direct_src = isinstance(val, ast.Call) and _dotted(val.func) == 'str' and not used
                if used and not direct_src:
                    if (id(st), tuple(sorted(used))) not in [(id(s0), tuple(sorted(u0))) for s0, u0, _ in steps]:
                        steps.append((st, used, val))
                    if tgt and tgt not in sqlvars:
                        sqlvars.add(tgt)
                        changed = True
        # a rewriting step directly on the compiled text: return f(str(Compiler(...)))
        for st in _own_nodes(fn):
            if isinstance(st, ast.Return) and isinstance(st.value, ast.Call) and _dotted(st.value.func) != 'str':
                inner = [x for x in ast.walk(st.value) if isinstance(x, ast.Call) and _dotted(x.func) == 'str' and x is not st.value]
                if inner and not any(s0 is st for s0, _, _ in steps):
                    steps.append((st, {'<compiled>'}, st.value))
        for st, used, val in steps:
            nsteps += 1
            bad = None
            for text, lits in PROBES:
                stubs = {'re.sub': lambda it, pat, repl, s_, *a, **k: _re.sub(pat, (lambda m: repl(m)) if callable(repl) else repl, s_)}
                for hn, hf in helpers.items():
                    stubs[hn] = (lambda f_: (lambda it, *a, **k: it.call_function(f_, list(a), dict(k), Env())))(hf)
                # the compiled text itself stands in for str(<compiler>(...))
                stubs['str'] = lambda it, x=None, *a: text if isinstance(x, Obj) else str(x)
                it = Interp.for_file(ctx.src, RENDER, {}, stubs)
                env = Env()
                for v in used:
                    env.set(v, text)
                env.set('self', Obj('SqlalchemyRender', dialect=Obj('Dialect', name='postgresql')))
                env.set('dialect', Obj('Dialect', name='postgresql'))
                try:
                    out = it.ev(val, env)
                except Raised as r:
                    raise AnalysisError(f'{fn.name}: rewriting step `{norm(val)[:80]}` raises {r.exc_name} on a probe text')
                if isinstance(out, tuple):
                    out = out[0]
                if not isinstance(out, str):
                    raise AnalysisError(f'{fn.name}: rewriting step `{norm(val)[:80]}` does not yield text on a probe')
                miss = [l for l in lits if l not in out]
                if miss:
                    bad = (text, out, miss)
                    break
            ctx.ob('C07.text-rewrite', f'{fn.name}:{norm(val)[:60]}', bad is None,
                   (f'{fn.name}: the finished SQL text is rewritten by `{norm(val)[:90]}`; on `{bad[0]}` the literal {bad[2][0]} does not survive '
                    f'(result `{bad[1]}`): a rewrite of the text after constants were inlined changes the constants it touches') if bad else '',
                   file=RENDER, line=st.lineno, witness="Constant('line1\nline2')")
    ctx.setcount('text_rewrite_steps', nsteps)
    check_number_printer(ctx)
    check_negative_operand(ctx, tree, cls)
    check_value_gateway(ctx, tree, cls)
    check_text_entry(ctx, cls)


def check_text_entry(ctx, cls):
    """get_string returns SQL TEXT: the statement must be rendered with its constants written into the text (with_params=False).  Rendered with parameters, the
    values of a plain INSERT are handed back separately and the text has only placeholders - get_string drops them.  get_string is interpreted with a recording
    stand-in for get_exec_params; the recorded call is bound to get_exec_params' own signature (defaults included)."""
    from ..interp import Interp, Obj, Raised, Env
    gs = next((m for m in cls.body if isinstance(m, ast.FunctionDef) and m.name == 'get_string'), None)
    gep = next((m for m in cls.body if isinstance(m, ast.FunctionDef) and m.name == 'get_exec_params'), None)
    ctx.need(gs is not None and gep is not None, 'SqlalchemyRender.get_string / get_exec_params not found')
    params = [a.arg for a in gep.args.args][1:]
    defaults = dict(zip(params[len(params) - len(gep.args.defaults):], gep.args.defaults))
    for failback in (True, False):
        calls = []
        query = Obj('Insert', is_plain=True)

        def rec(it, *a, **k):
            calls.append((a, k))
            return ('TEXT', None)
        it = Interp.for_file(ctx.src, RENDER, {}, {'self.get_exec_params': rec})
        try:
            res = it.call_function(gs, [Obj('SqlalchemyRender'), query, failback], {}, Env())
        except Raised as r:
            res = f'<{r.exc_name}>'
        bound = None
        if len(calls) == 1:
            a, k = calls[0]
            bound = {}
            for nm, v in zip(params, a):
                bound[nm] = v
            bound.update(k)
            for nm, dv in defaults.items():
                if nm not in bound and isinstance(dv, ast.Constant):
                    bound[nm] = dv.value
        ok = bound is not None and bound.get('with_params') is False and bound.get('with_failback') is failback and bound.get(params[0]) is query and res == 'TEXT'
        ctx.ob('C07.text-has-constants', f'get_string(with_failback={failback})', ok,
               f'get_string must return the text of get_exec_params(query, with_failback=<as given>, with_params=False); it called {calls and (calls[0][0][1:], calls[0][1])} '
               f'(bound: { {k_: v_ for k_, v_ in (bound or {}).items() if k_ != params[0]} }) and returned {res!r}: rendered WITH parameters the constants of an INSERT are not '
               f'in the text', file=RENDER, line=gs.lineno, witness="SqlalchemyRender('mysql').get_string(Insert(..., values=[[1, 'a']], is_plain=True))")


def check_compile_hooks(ctx, tree):
    """Functions registered with `@compiles(<element class>)` write SQL text themselves.  Each is interpreted (sa/interp.py) on an element whose text attributes
    carry hostile content, with a compiler stand-in whose render_literal_value marks what it is given: everything that comes from the element must be inside such a
    literal, except one trailing plain word (a unit keyword); text outside the literals is letters and blanks only, and nothing of the value is lost."""
    import re as _re
    from ..interp import Interp, Obj, Raised, Env
    hooks = []
    for fn in [n for n in tree.body if isinstance(n, ast.FunctionDef)]:
        for d in fn.decorator_list:
            if isinstance(d, ast.Call) and dotted(d.func) in ('compiles', 'sa.ext.compiler.compiles') and d.args and isinstance(d.args[0], ast.Name):
                hooks.append((fn, d.args[0].id))
    ctx.setcount('compile_hooks', len(hooks))
    probes = ['1 day', '3 hour', '1-2 year_month', '1 day 2 hours', '1 day) union select 1 --', "1' day", "1' or '1'='1 day", '1  day', '1 day;', 'a\\b c', "x' y", '5', '']
    for fn, cname in hooks:
        cls = next((n for n in tree.body if isinstance(n, ast.ClassDef) and n.name == cname), None)
        ctx.need(cls is not None, f'element class {cname} of the compile hook {fn.name} not found')
        init = next((m for m in cls.body if isinstance(m, ast.FunctionDef) and m.name == '__init__'), None)
        attrs = []
        if init is not None:
            params = {a.arg for a in init.args.args[1:]}
            for x in ast.walk(init):
                if isinstance(x, ast.Assign) and isinstance(x.value, ast.Name) and x.value.id in params:
                    for t_ in x.targets:
                        if isinstance(t_, ast.Attribute) and isinstance(t_.value, ast.Name) and t_.value.id == 'self':
                            attrs.append(t_.attr)
        ctx.need(attrs, f'no text attribute of {cname} found for the compile hook {fn.name}')
        for attr in attrs:
            for probe, (tname, backslash) in itertools.product(probes, (('postgresql', False), ('mysql', True))):
                def lit(v, t_=None, backslash=backslash):
                    # the reference literal of the target (what the renderer's LiteralCompiler is checked to produce, C07.literal-override)
                    v = str(v).replace("'", "''")
                    return "'" + (v.replace('\\', '\\\\') if backslash else v) + "'"
                comp = Obj('Compiler', render_literal_value=lit, dialect=Obj('Dialect', name=tname))
                it = Interp.for_file(ctx.src, RENDER, {}, {'sa.String': lambda it_, *a, **k: Obj('SaString'), 'String': lambda it_, *a, **k: Obj('SaString')})
                label = f'{fn.name}:{tname}:{cname}.{attr}={probe!r}'
                try:
                    out = it.call_function(fn, [Obj(cname, **{attr: probe}), comp], {}, Env())
                except Raised as r:
                    ctx.ob('C07.compile-hook', label, r.exc_name == 'NotImplementedError', f'{label}: the hook raises {r.exc_name}', file=RENDER, line=fn.lineno)
                    continue
                ctx.count('compile_hook_rows')
                ok = False
                if isinstance(out, str):
                    m0 = _re.match(r'\s*[A-Za-z_]+\s+', out)          # the keyword the hook writes in front
                    rest = out[m0.end():] if m0 else out
                    cands = [(rest, None)]
                    m1 = _re.search(r' ([A-Za-z_]+)$', rest)
                    if m1:
                        cands.append((rest[:m1.start()], m1.group(1)))
                    for body, word in cands:
                        v = target_read(body, backslash)
                        if v is not None and v + (' ' + word if word else '') == probe:
                            ok = True
                ctx.ob('C07.compile-hook', label, ok,
                       f'{fn.name} ({tname}): an element with {attr} = {probe!r} is written as `{out}`: that is not <keyword> <one literal of the target that reads back as the '
                       f'value> [<one plain word>] - text of the value is read by the target as SQL, or the value read back is another one', file=RENDER, line=fn.lineno,
                       witness=f"select interval '{probe}' from t")
    ctx.floor('compile_hooks', 1)


def check_number_printer(ctx):
    """Constant.get_string interpreted on numeric / boolean / NULL values: the text must be one literal of the library's own lexer that converts back to the value."""
    from ..lexmodel import master_for
    enc, steps, site = C04.encoder_model(ctx)
    master = master_for(load_dialect(ctx.src, 'mindsdb').lexer)
    values = [0, 7, -1, 10 ** 20, 1.5, -2.25, 0.1, 1e-07, -3.5e-09, 1.5e+300, 1e+16, 123456789.123, True, False,
              # many significant digits far behind the point, the smallest / largest doubles, values next to a power of ten
              1.2345678e-12, 2.5e-20, 5e-324, 1.7976931348623157e+308, 0.30000000000000004, 9.999999999999999e-05, 1.0000000000000002, 123456789012345680.0, -4.9e-30]
    # the kinds of value the grammars' number rules put into the tree decide what the printer has to cope with: nonterminals whose productions are one numeric token
    import re as _re
    from decimal import Decimal
    from ..actions import kinds_for
    for d in ('sqlite', 'mysql', 'mindsdb'):
        g = load_dialect(ctx.src, d)
        ak = kinds_for(ctx.src, d)
        num_tokens = set()
        for t in g.tokens:
            r = g.lexer.rule(t)
            if r is not None and any(_re.fullmatch(r.pattern, x, g.lexer.reflags) for x in ('12', '1.5')) and not _re.fullmatch(r.pattern, 'ab', g.lexer.reflags):
                num_tokens.add(t)
        by_nt = {}
        for pr in g.productions[1:]:
            by_nt.setdefault(pr.name, []).append(pr)
        num_nts = sorted(nt for nt, prs in by_nt.items() if all(len(pr.rhs) == 1 and pr.rhs[0] in num_tokens for pr in prs))
        ctx.need(len(num_nts) >= 2, f'{d}: the number nonterminals (one numeric token each) were not found: {num_nts}')
        for nt in num_nts:
            kinds = set(ak.nt[nt].kinds) if nt in ak.nt else {'?'}
            ctx.need('?' not in kinds, f'{d}: the kind of value the number rule `{nt}` produces is not known ({sorted(kinds)})')
            foreign = sorted(k for k in kinds if k not in ('int', 'float', 'ext:Decimal'))
            ctx.ob('C07.number-printer', f'{d}:{nt}:value-kinds', not foreign,
                   f'{d}: the number rule `{nt}` can put a value of kind {foreign} into the tree; the literal printers are defined (and checked) for int, float and Decimal values',
                   file=g.file if hasattr(g, 'file') else site[0], line=by_nt[nt][0].func.lineno if by_nt[nt][0].func is not None else 1)
            if 'ext:Decimal' in kinds:
                # exact decimals: many digits, and magnitudes where str(Decimal) switches to exponent notation
                for v in (Decimal('0.12345678901234567890'), Decimal('12345678901234567.25'), Decimal('0.00000012345678901234567'), Decimal('1E-7'),
                          Decimal('0.0000000000001234567890123456'), Decimal('1.5')):
                    if not any(v is x or (type(x) is type(v) and x == v) for x in values):
                        values.append(v)
    ctx.setcount('number_probes', len(values))
    for v in values:
        text = enc(v)
        body = text[1:].lstrip() if text.startswith('-') else text
        toks = master.types(body)
        ok = False
        if isinstance(v, bool):
            ok = toks in (['TRUE'], ['FALSE']) and (body.upper() == 'TRUE') == v
        elif toks in (['INTEGER'], ['FLOAT']):
            try:
                back = (int(body) if toks == ['INTEGER'] else (Decimal(body) if isinstance(v, Decimal) else float(body))) * (-1 if text.startswith('-') else 1)
                ok = back == v
            except ValueError:
                ok = False
        ctx.ob('C07.number-printer', repr(v), ok,
               f'Constant({v!r}) prints `{text}`, which the library\'s lexer reads as {toks} - not one numeric literal denoting the value (e.g. exponent notation is '
               f'an integer, an identifier and a subtraction)', file=site[0], line=site[1], witness=f'Constant({v!r}).to_string()')


def check_value_gateway(ctx, tree, cls):
    """Every constant of the tree reaches SQLAlchemy as sa.literal(<its value>) - one typed bind/literal per value - whatever the value is and wherever the constant
    stands.  to_expression is interpreted on constants and on comparisons / IN lists / BETWEEN over constants, with stand-ins for SQLAlchemy elements that record
    what they are combined with: a raw Python value handed to an operator method (SQLAlchemy then types the whole list by its first element) or a special element
    chosen by value (sa.null(): `= NULL` silently becomes IS NULL) is a violation."""
    from ..interp import Interp, Obj, Raised, Env
    te = next((m for m in cls.body if isinstance(m, ast.FunctionDef) and m.name == 'to_expression'), None)
    ctx.need(te is not None, 'to_expression not found')

    class Elem:
        _interp_safe = True

        def __init__(self, kind, value=None, args=()):
            self.kind, self.value, self.args = kind, value, list(args)

        def label(self, a):
            return self

        def _op(self, name, *others):
            return Elem('op:' + name, None, [self] + list(others))

        def leaves(self):
            out = []
            for a in self.args:
                if isinstance(a, Elem):
                    out.extend(a.leaves() if a.args else [a])
                elif isinstance(a, (list, tuple)):
                    for x in a:
                        out.extend(x.leaves() if isinstance(x, Elem) and x.args else [x])
                else:
                    out.append(a)
            return out if self.args else [self]
    for nm in ('__eq__', '__ne__', '__gt__', '__lt__', '__ge__', '__le__', '__add__', '__sub__', '__mul__', '__truediv__', '__mod__', 'is_', 'is_not', 'isnot', 'like',
               'notlike', 'not_like', 'in_', 'notin_', 'not_in', 'concat'):
        setattr(Elem, nm, (lambda n_: (lambda self, *o: self._op(n_, *o)))(nm))
    Elem.__hash__ = lambda self: id(self)

    def const(v):
        return Obj('Constant', value=v, alias=None, parentheses=False)
    col = Obj('Identifier', parts=['a'], alias=None, parentheses=False)
    values = [None, 1, 2.5, 'x', True, False, "it's", 0, '']
    probes = [(f'Constant({v!r})', const(v), [v]) for v in values]
    for op in ('=', '!=', '<>', '>', 'is', 'is not', 'like'):
        for v in (None, 1, 'x%', 2.5, True, False):
            probes.append((f'a {op} {v!r}', Obj('BinaryOperation', op=op, args=[col, const(v)], alias=None, parentheses=False), [v]))
    for op in ('in', 'not in', 'IN'):
        for vs in ([1, 2.5], [1], ['x', 1], [2.5, True, 1], [1, None]):
            tup = Obj('Tuple', items=[const(v) for v in vs], alias=None, parentheses=False)
            probes.append((f'a {op} {tuple(vs)!r}', Obj('BinaryOperation', op=op, args=[col, tup], alias=None, parentheses=False), list(vs)))
    probes.append(('a between 1 and 2.5', Obj('BetweenOperation', op='between', args=[col, const(1), const(2.5)], alias=None, parentheses=False), [1, 2.5]))
    n = 0
    for label, node, vals in probes:
        stubs = {'sa.literal': lambda it, x, *a, **k: Elem('literal', x), 'self.get_alias': lambda it, a: a, 'self.to_column': lambda it, parts: Elem('column', tuple(parts)),
                 'sa.between': lambda it, a, b, c: Elem('op:between', None, [a, b, c]), 'sa.and_': lambda it, *a: Elem('op:and', None, a), 'sa.or_': lambda it, *a: Elem('op:or', None, a),
                 'sa.null': lambda it: Elem('null'), 'sa.true': lambda it: Elem('true'), 'sa.false': lambda it: Elem('false'),
                 'sa.literal_column': lambda it, x, *a: Elem('literal_column', x), 'sa.text': lambda it, x: Elem('text', x), 'sa.bindparam': lambda it, *a, **k: Elem('bindparam', a)}
        it = Interp.for_file(ctx.src, RENDER, {'UnaryOperation': {'Operation'}, 'BinaryOperation': {'Operation'}, 'BetweenOperation': {'Operation'}, 'Constant': set(),
                                               'Identifier': set(), 'Tuple': set()}, stubs)
        it.stubs['getattr'] = lambda itp, o, name, *d: (getattr(o, name) if isinstance(o, Elem) else (o.attrs[name] if isinstance(o, Obj) and name in o.attrs else d[0]))
        n += 1
        try:
            res = it.call_function(te, [Obj('SqlalchemyRender', dialect=Obj('Dialect', name='postgresql')), node], {}, Env())
        except Raised as r:
            # a refusal is the fallback's business (C17); only NotImplementedError is a refusal
            ctx.ob('C07.value-gateway', label, r.exc_name == 'NotImplementedError', f'to_expression raises {r.exc_name} on `{label}`', file=RENDER, line=te.lineno)
            continue
        leaves = res.leaves() if isinstance(res, Elem) else [res]
        lits = [x for x in leaves if isinstance(x, Elem) and x.kind == 'literal']
        raw = [x for x in leaves if not isinstance(x, Elem)]
        special = [x.kind for x in leaves if isinstance(x, Elem) and x.kind in ('null', 'true', 'false', 'literal_column', 'text', 'bindparam')]
        same = len(lits) == len(vals) and all(type(a.value) is type(b) and a.value == b for a, b in zip(lits, vals))
        if label.startswith(('a is ', 'a is not ')) and vals and (vals[0] is None or vals[0] is True or vals[0] is False):
            # IS [NOT] NULL / TRUE / FALSE: the operand is the SQL keyword element, not a bound value (SQLAlchemy cannot negate `x IS <bound value>`: C06.is-operand)
            kw = {None: 'null', True: 'true', False: 'false'}[vals[0]]
            same = same or (not lits and special == [kw])
            special = [] if special == [kw] else special
        ctx.ob('C07.value-gateway', label, not raw and not special and same,
               f'`{label}`: the constants reach SQLAlchemy as literals {[x.value for x in lits]}, raw operands {raw}, special elements {special}; every constant must be '
               f'sa.literal(<its value>), in order: raw values in a list are typed by the first one (`x IN (1, 2.5)` renders `IN (1, 2)`), a NULL element turns '
               f'`= NULL` into IS NULL', file=RENDER, line=te.lineno, witness='select * from t where x in (1, 2.5)')
    ctx.setcount('value_gateway_probes', n)


def check_negative_operand(ctx, tree, cls):
    """`-` applied to a literal: the rendered text must not put two minus signs next to each other (`--` starts a comment).  The UnaryOperation branch of
    to_expression is interpreted with stand-ins for SQLAlchemy elements that record how a negative literal is combined with the sign."""
    from ..interp import Interp, Obj, Raised, Env
    te = next((m for m in cls.body if isinstance(m, ast.FunctionDef) and m.name == 'to_expression'), None)
    ctx.need(te is not None, 'to_expression not found')
    from ..interp import class_members
    methods = {'SqlalchemyRender': class_members(cls)}

    class Elem:
        _interp_safe = True

        def __init__(self, text, grouped=False):
            self.text, self.grouped = text, grouped

        def __neg__(self):
            return Elem('-' + self.text)

        def __invert__(self):
            return Elem('NOT ' + self.text)

        def label(self, a):
            return Elem(self.text, self.grouped)
    for v in (-1, -2.5, 3):
        node = Obj('UnaryOperation', op='-', args=[Obj('Constant', value=v, alias=None, parentheses=False)], alias=None, parentheses=False)
        stubs = {'sa.literal': lambda it, x: Elem(repr(x)), 'sa.sql.elements.Grouping': lambda it, x: Elem('(' + x.text + ')', True), 'Grouping': lambda it, x: Elem('(' + x.text + ')', True),
                 'self.get_alias': lambda it, a: a, 'sa.literal_column': lambda it, x: Elem(str(x)), 'sa.text': lambda it, x: Elem(str(x))}
        it = Interp.for_file(ctx.src, RENDER, {'UnaryOperation': {'Operation'}, 'Constant': set()}, stubs, methods=methods)
        # python operators on the stand-in element
        it.stubs['getattr'] = lambda itp, o, name, *d: (getattr(o, name) if isinstance(o, Elem) else (o.attrs[name] if isinstance(o, Obj) and name in o.attrs else d[0]))
        try:
            res = it.call_function(te, [Obj('SqlalchemyRender', dialect=Obj('Dialect', name='postgresql')), node], {}, Env())
        except Raised as r:
            if r.exc_name == 'NotImplementedError':
                ctx.ob('C07.negative-operand', repr(v), True)
                continue
            raise AnalysisError(f'to_expression raises {r.exc_name} on -({v})')
        text = res.text if isinstance(res, Elem) else str(res)
        ctx.ob('C07.negative-operand', repr(v), '--' not in text,
               f'`-({v})` is rendered as `{text}`: two adjacent minus signs start a comment in postgres / sqlite / standard SQL, the rest of the statement disappears',
               file=RENDER, line=te.lineno, witness='select -(-1) from t')

