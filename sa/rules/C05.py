"""C05 - a statement is accepted only if its whole token stream is one grammar sentence.

An LR driver accepts exactly the sentences of the grammar unless error recovery resumes parsing.
Reading sly/yacc.py Parser.parse gives the complete list of ways a parse can continue after the
first error: (a) the error callback returns a truthy token, (b) a production containing `error`
shifts the synthetic error token, (c) when the stack is rolled back to the start state the
offending look-ahead is discarded and parsing restarts from state 0 on whatever the token iterator
still yields.  The rules below decide the structural conditions that close (a), (b), (c).
"""
import ast
import itertools

from ..source import AnalysisError, norm, dotted, walk_no_nested, const_str
from ..grammar import load_dialect, DIALECTS
from ..lalr import tables_for
from ..cfg import Flow
from .. import peval
from ..lexmodel import sre_parse, sre_c


# ---- (b) no error productions; accept only at end ------------------------------------------------

def check_grammar(ctx, d):
    g = load_dialect(ctx.src, d)
    t = tables_for(ctx.src, d)
    P = g.productions
    bad = [p for p in P[1:] if 'error' in p.rhs]
    ctx.ob('C05.no-error-productions', d, not bad,
           f'{d}: production(s) mention the `error` symbol, so sly resynchronises after a syntax error: '
           + '; '.join(str(p) for p in bad[:3]), file=g.file, line=bad[0].line if bad else None,
           witness='x y ; select 1')
    ctx.count('grammars')
    # accept action only on $end and only in goto(0, start)
    acc_state = t.goto(0, g.start)
    n_accept = 0
    for st, act in enumerate(t.action):
        for a, v in act.items():
            if v == 0:
                n_accept += 1
                ctx.ob('C05.accept-only-at-end', f'{d}:state{st}:{a}', st == acc_state and a == '$end',
                       f'{d}: accept action on {a} in state {st} ({t.items_str(st)}); only $end after the start symbol may accept',
                       file=g.file)
    ctx.ob('C05.accept-only-at-end', f'{d}:exists', n_accept == 1, f'{d}: {n_accept} accept entries in the table', file=g.file)
    ctx.ob('C05.accept-not-defaulted', d, acc_state not in t.defaulted,
           f'{d}: the accepting state is a defaulted state (would accept without looking at the next token)', file=g.file)
    ctx.count('accept_checks')
    # exactly one statement: the start symbol has only unit productions, and occurs on a RHS only in parentheses
    for p in g.prods_of(g.start):
        ok = len(p.rhs) == 1 and p.rhs[0] in g.nonterminals
        ctx.ob('C05.one-statement', f'{d}:{p}', ok,
               f'{d}: start production `{p}` is not a unit production to a statement nonterminal '
               f'(a start rule that concatenates or skips tokens accepts more than one statement)',
               file=g.file, line=p.line)
        ctx.count('start_productions')
    for p in P[1:]:
        for i, s in enumerate(p.rhs):
            if s == g.start:
                ok = 0 < i < len(p.rhs) - 1 and p.rhs[i - 1] == 'LPAREN' and p.rhs[i + 1] == 'RPAREN'
                ctx.ob('C05.one-statement', f'{d}:{p}', ok,
                       f'{d}: `{p}` embeds the start symbol outside parentheses (statements can be concatenated)',
                       file=g.file, line=p.line)
    return g


# ---- (a)+(c) the error callback --------------------------------------------------------------------

DRAIN_CALLS = ('list', 'tuple', 'set', 'sorted', 'sum', 'len')


def _mentions_tokens(n):
    return any(isinstance(x, ast.Attribute) and x.attr == 'tokens' and isinstance(x.value, ast.Name)
               and x.value.id == 'self' for x in ast.walk(n))


def _is_self_tokens(n):
    return isinstance(n, ast.Attribute) and n.attr == 'tokens' and isinstance(n.value, ast.Name) and n.value.id == 'self'


_DRAINING_METHODS = {}       # name -> FunctionDef of the methods of the parser class at hand whose every path exhausts self.tokens (set per class by check_error_callback)


def _stmt_drains(s):
    """True if executing the simple statement exhausts self.tokens; None if it uses self.tokens in an
    unmodelled way; False if it does not touch it."""
    # `self._whole_token_stream()`: a method of the class whose (straight-line) body drains the iterator
    for n in ast.walk(s):
        if isinstance(n, ast.Call) and isinstance(n.func, ast.Attribute) and isinstance(n.func.value, ast.Name) and n.func.value.id == 'self' \
                and n.func.attr in _DRAINING_METHODS and not _mentions_tokens(s):
            return True
    if not _mentions_tokens(s):
        return False
    verdict = None
    for n in ast.walk(s):
        if isinstance(n, ast.Call):
            f = dotted(n.func)
            if f in ('list', 'tuple', 'sorted') and len(n.args) == 1 and _is_self_tokens(n.args[0]):
                verdict = True
            elif f in ('deque', 'collections.deque') and n.args and _is_self_tokens(n.args[0]) and any(
                    k.arg == 'maxlen' and isinstance(k.value, ast.Constant) and k.value.value == 0 for k in n.keywords):
                verdict = True
        if isinstance(n, (ast.ListComp, ast.SetComp, ast.GeneratorExp, ast.DictComp)):
            gens = n.generators
            if _is_self_tokens(gens[0].iter) and not isinstance(n, ast.GeneratorExp):
                verdict = True
    return verdict


def check_error_callback(ctx, d, g):
    ef = g.error_func
    ctx.need(ef is not None, f'{d}: no error method resolvable for {g.cls}')
    file, cls, fn = ef
    if file == 'sly/yacc.py':
        ctx.ob('C05.error-callback-is-final', f'{d}:{cls}.error', False,
               f'{d}: {g.cls} does not override error(); sly\'s default callback prints and lets panic-mode recovery '
               f'skip tokens', file=g.file, witness='x y ; select 1')
        return
    ctx.count('error_callbacks')
    cons = f'{d}:{cls}.error'
    # helper methods of the same class that drain on every path: a body of simple statements (no branching), one of which drains
    _DRAINING_METHODS.clear()
    cnode = next((c for c in ast.walk(ctx.src.tree(file)) if isinstance(c, ast.ClassDef) and c.name == cls), None)
    for m in (cnode.body if cnode is not None else []):
        if isinstance(m, ast.FunctionDef) and m is not fn and m.name != 'error':
            body_ = [x for x in m.body if not (isinstance(x, ast.Expr) and isinstance(x.value, ast.Constant))]
            if body_ and all(isinstance(x, (ast.Assign, ast.Expr, ast.Return, ast.AugAssign)) for x in body_) and any(_mentions_tokens(x) and _stmt_drains(x) for x in body_):
                _DRAINING_METHODS[m.name] = m

    def transfer(s, st):
        if isinstance(s, (ast.For, ast.While, ast.If, ast.With)):
            if isinstance(s, ast.For) and _is_self_tokens(s.iter):
                has_break = any(isinstance(x, (ast.Break, ast.Return)) for x in ast.walk(s))
                if not has_break and not s.orelse:
                    return ('after-loop-drain', st[1])
                return st
            hdr = s.test if isinstance(s, (ast.While, ast.If)) else None
            if hdr is not None and _mentions_tokens(hdr):
                raise AnalysisError(f'{file}:{s.lineno}: {cls}.error uses self.tokens in a condition - unmodelled')
            return st
        if isinstance(s, (ast.FunctionDef, ast.ClassDef)):
            return st
        dr = _stmt_drains(s)
        if dr is None:
            raise AnalysisError(f'{file}:{s.lineno}: {cls}.error uses the token iterator self.tokens in a way the '
                                f'analysis does not model: `{norm(s)}`')
        if dr:
            return ('drained', st[1])
        return st

    def join(a, b):
        dr = 'drained' if (a[0] == 'drained' and b[0] == 'drained') else 'live'
        return (dr, a[1] and b[1])

    class F(Flow):
        pass

    flow = Flow(transfer, join)
    # a `for tok in self.tokens:` without break drains at loop exit: model by post-processing
    orig_loop = flow._loop

    def loop(s, st, loops):
        out = orig_loop(s, st, loops)
        if isinstance(s, ast.For) and _is_self_tokens(s.iter) and out is not None:
            has_break = any(isinstance(x, (ast.Break, ast.Return, ast.Raise)) for x in ast.walk(s))
            if not has_break:
                return ('drained', out[1])
        return out
    flow._loop = loop
    res = flow.run(fn, ('live', True))
    exits = [(r, stt, r.value) for r, stt in res.returns]
    if res.end is not None:
        exits.append((None, res.end, None))
    n_paths = len(exits) + len(res.raises)
    ctx.count('error_exits', n_paths)
    for r, stt, val in exits:
        line = r.lineno if r is not None else fn.end_lineno
        falsy = val is None or (isinstance(val, ast.Constant) and not val.value)
        ctx.ob('C05.error-callback-is-final', f'{cons}:return({norm(val) if val is not None else "None"})', falsy,
               f'{d}: {cls}.error can return `{norm(val) if val is not None else None}`; a truthy return value is used by '
               f'sly as the next look-ahead and parsing continues after the syntax error',
               file=file, line=line, witness='x y ; select 1')
        ctx.ob('C05.error-callback-drains', f'{cons}:return@{"end" if r is None else norm(r)}', stt[0] == 'drained',
               f'{d}: {cls}.error can return without having exhausted the token iterator self.tokens; sly then rolls the '
               f'stack back to state 0, discards the offending token and restarts on the remaining tokens, so a later '
               f'statement is accepted', file=file, line=line, witness='x y ; select 1')
    for r, stt in res.raises:
        ctx.ob('C05.error-callback-is-final', f'{cons}:raise({norm(r.exc) if r.exc else ""})'[:120], True)


# ---- parse_sql ---------------------------------------------------------------------------------------

def _strip_pattern_ok(pat):
    """The pattern may only match a suffix made of whitespace and semicolons."""
    try:
        tree = sre_parse.parse(pat)
    except Exception:
        return False
    items = list(tree)
    if not items or items[-1][0] != sre_c.AT or items[-1][1] not in (sre_c.AT_END, sre_c.AT_END_STRING):
        return False

    def ok_item(op, av):
        if op == sre_c.LITERAL:
            return chr(av) in ' \t\r\n;'
        if op == sre_c.IN:
            for o, a in av:
                if o == sre_c.LITERAL and chr(a) in ' \t\r\n\f\v;':
                    continue
                if o == sre_c.CATEGORY and a == sre_c.CATEGORY_SPACE:
                    continue
                return False
            return True
        if op in (sre_c.MAX_REPEAT, sre_c.MIN_REPEAT):
            return all(ok_item(o, a) for o, a in av[2])
        if op == sre_c.SUBPATTERN:
            return all(ok_item(o, a) for o, a in av[3])
        return False
    return all(ok_item(o, a) for o, a in items[:-1])


def parse_sql_contract(ctx):
    """parse_sql interpreted (sa/interp.py) with recording stand-ins for the lexer and the parser: the lexer gets the text with nothing but white space / semicolons
    taken off its end, the parser gets exactly the lexer's tokens, once; the parser's tree is returned as it is, and `None` (= not a sentence) ends in
    ParsingException.  -> [(label, ok, message)]; raises AnalysisError when the function cannot be interpreted."""
    from ..interp import Interp, Obj, Raised, Env
    file = 'mindsdb_sql/__init__.py'
    fn = next((n for n in ctx.src.tree(file).body if isinstance(n, ast.FunctionDef) and n.name == 'parse_sql'), None)
    if fn is None:
        raise AnalysisError('parse_sql not found')
    out = []
    for text, result in itertools.product(('select 1', 'select 1;', ' select 1 ;;\n', "select ';' ; ", 'select 1 -- c;'), ('tree', None)):
        toks = [Obj('Token', type=f'T{i}', value=f'v{i}', index=i, end=i + 1, lineno=1) for i in range(3)]
        seen = {'text': [], 'parsed': []}
        tree = Obj('Select', _the_tree=True)

        class Lex:
            _interp_safe = True
            text = None

            def tokenize(self, t, *a, **k):
                seen['text'].append(t)
                self.text = t
                return iter(list(toks))

        class Par:
            _interp_safe = True
            error_info = None

            def parse(self, tokens):
                seen['parsed'].append(list(tokens))
                return tree if result == 'tree' else None
        stubs = {'get_lexer_parser': lambda *a, **k: (Lex(), Par()), 'ErrorHandling': lambda it_, *a, **k: Obj('ErrorHandling', process=lambda *a2, **k2: 'MSG')}
        it = Interp.for_file(ctx.src, file, {}, stubs)
        raised, ret = None, None
        try:
            ret = it.call_function(fn, [text, 'mindsdb'], {}, Env())
        except Raised as r:
            raised = r.exc_name
        label = f'{text!r} -> parser gives {"a tree" if result else "None"}'
        got_text = seen['text'][0] if len(seen['text']) == 1 else None
        text_ok = isinstance(got_text, str) and text.startswith(got_text) and not text[len(got_text):].strip(' \t\r\n\f\v;') and got_text.strip() != '' \
            and got_text.rstrip(' \t\r\n\f\v;') == got_text.rstrip() and text.rstrip(' \t\r\n\f\v;').startswith(got_text.rstrip())
        parsed_ok = len(seen['parsed']) == 1 and len(seen['parsed'][0]) == len(toks) and all(a is b for a, b in zip(seen['parsed'][0], toks))
        if result == 'tree':
            end_ok = raised is None and ret is tree
        else:
            end_ok = raised == 'ParsingException'
        out.append((label, text_ok and parsed_ok and end_ok,
                    f'[{label}] the lexer received {seen["text"]!r}, the parser was run {len(seen["parsed"])}x on '
                    f'{"the lexer\'s tokens" if parsed_ok else "something other than exactly the lexer\'s tokens"}, parse_sql '
                    f'{"raised " + raised if raised else "returned " + ("the parser\'s tree" if ret is tree else repr(ret)[:40])}: the text may lose only white space / '
                    f'semicolons at its end, the parser must see every token once, its tree is the result and None means ParsingException'))
    return out


def check_parse_sql(ctx):
    # the dataflow below reads the usual shape of parse_sql (and catches what a behavioural table on stand-in tokens cannot: a filter between lexer and parser);
    # when the function is written in a shape the dataflow does not follow, the contract is decided by interpretation instead
    from ..core import Ctx as _Ctx
    trial = _Ctx(ctx.prop, ctx.src, ctx.tier)
    try:
        _check_parse_sql_dataflow(trial)
        shape_ok = not [f for f in trial.findings if 'cannot prove' in f.msg or 'rebinds the input text' in f.msg or 'without a None test' in f.msg
                        or 'is not the tree parser.parse returned' in f.msg]
    except AnalysisError:
        shape_ok = False
    if shape_ok:
        return _check_parse_sql_dataflow(ctx)
    try:
        rows = parse_sql_contract(ctx)
    except AnalysisError:
        return _check_parse_sql_dataflow(ctx)       # not interpretable either: the dataflow's own verdict stands
    ctx.note('parse_sql is not written in the shape the dataflow rule reads: decided by the interpreted contract table')
    for label, ok, msg in rows:
        ctx.ob('C05.none-is-rejection', f'contract:{label}', ok, msg, file='mindsdb_sql/__init__.py', witness='select 1 1')
    ctx.count('parse_sql_returns', len(rows))
    ctx.count('pre_lex_edits', 1)


def _check_parse_sql_dataflow(ctx):
    file = 'mindsdb_sql/__init__.py'
    tree = ctx.src.tree(file)
    fn = None
    for n in tree.body:
        if isinstance(n, ast.FunctionDef) and n.name == 'parse_sql':
            fn = n
    ctx.need(fn is not None, 'parse_sql not found in mindsdb_sql/__init__.py')
    args = [a.arg for a in fn.args.args]
    ctx.need(len(args) >= 1, 'parse_sql has no parameter')
    sqlvar = args[0]
    mod_funcs = {n.name: n for n in tree.body if isinstance(n, ast.FunctionDef)}
    mod_consts = {n.targets[0].id: n.value for n in tree.body if isinstance(n, ast.Assign) and len(n.targets) == 1 and isinstance(n.targets[0], ast.Name)}
    inlining = set()
    # state: dict var -> tag ; tags: 'sql', 'tokens', 'result?', 'result', 'none', other
    def expr_tag(e, st):
        if isinstance(e, ast.Name):
            return st.get(e.id)
        if isinstance(e, ast.Call):
            f = e.func
            if isinstance(f, ast.Attribute) and f.attr == 'tokenize' and len(e.args) >= 1 and expr_tag(e.args[0], st) == 'sql':
                return 'tokens'
            if isinstance(f, ast.Attribute) and f.attr == 'parse' and len(e.args) == 1:
                t = expr_tag(e.args[0], st)
                if t == 'tokens':
                    return 'result?'
                return 'result-of-other-tokens?'
            # a one-expression module helper (`def _prepare_text(sql): return <expr>`) is read as its expression
            if isinstance(f, ast.Name) and f.id in mod_funcs and not e.keywords:
                callee = mod_funcs[f.id]
                body_ = [x for x in callee.body if not (isinstance(x, ast.Expr) and isinstance(x.value, ast.Constant))]
                if len(body_) == 1 and isinstance(body_[0], ast.Return) and body_[0].value is not None and len(callee.args.args) == len(e.args) and id(callee) not in inlining:
                    inlining.add(id(callee))
                    try:
                        return expr_tag(body_[0].value, {a.arg: expr_tag(v, st) for a, v in zip(callee.args.args, e.args)})
                    finally:
                        inlining.discard(id(callee))
            # <compiled pattern>.sub(rep, text) with the pattern compiled once at module level
            if isinstance(f, ast.Attribute) and f.attr == 'sub' and len(e.args) == 2 and isinstance(f.value, ast.Name) and f.value.id in mod_consts \
                    and expr_tag(e.args[1], st) == 'sql':
                cv = mod_consts[f.value.id]
                if isinstance(cv, ast.Call) and dotted(cv.func) == 're.compile' and cv.args:
                    pat, rep = const_str(cv.args[0]), const_str(e.args[0])
                    ok = pat is not None and rep == '' and _strip_pattern_ok(pat) and len(cv.args) == 1 and not cv.keywords
                    ctx.ob('C05.strip-is-outside-tokens', f're.sub({pat!r}, {rep!r})', ok,
                           f'parse_sql edits the text before lexing with re.compile({pat!r}).sub({rep!r}, ...): only an anchored suffix of '
                           f'whitespace/semicolons may be removed', file=file, line=e.lineno, witness='select 1 ; x')
                    ctx.count('pre_lex_edits')
                    return 'sql'
            if dotted(f) == 're.sub' and len(e.args) == 3 and expr_tag(e.args[2], st) == 'sql':
                pat, rep = const_str(e.args[0]), const_str(e.args[1])
                ok = pat is not None and rep == '' and _strip_pattern_ok(pat)
                ctx.ob('C05.strip-is-outside-tokens', f're.sub({pat!r}, {rep!r})', ok,
                       f'parse_sql edits the text before lexing with re.sub({pat!r}, {rep!r}, ...): only an anchored suffix of '
                       f'whitespace/semicolons may be removed', file=file, line=e.lineno, witness='select 1 ; x')
                ctx.count('pre_lex_edits')
                return 'sql'
        return None

    def transfer(s, st):
        st = dict(st)
        if isinstance(s, ast.Assign):
            tag = expr_tag(s.value, st)
            for tg in s.targets:
                if isinstance(tg, ast.Name):
                    if st.get(tg.id) == 'sql' and tag != 'sql':
                        ctx.ob('C05.strip-is-outside-tokens', f'{tg.id}={norm(s.value)}'[:100], False,
                               f'parse_sql rebinds the input text `{tg.id}` to `{norm(s.value)}` before lexing - an edit the '
                               f'analysis cannot prove to be outside the token stream', file=file, line=s.lineno)
                    st[tg.id] = tag
                elif isinstance(tg, ast.Tuple):
                    for e in tg.elts:
                        if isinstance(e, ast.Name):
                            st[e.id] = None
        elif isinstance(s, (ast.AugAssign, ast.AnnAssign)) and isinstance(s.target, ast.Name):
            if st.get(s.target.id) == 'sql':
                ctx.ob('C05.strip-is-outside-tokens', f'{norm(s)}'[:100], False,
                       f'parse_sql modifies the input text before lexing: `{norm(s)}`', file=file, line=s.lineno)
            st[s.target.id] = None
        elif isinstance(s, ast.Return):
            pass
        return st

    def cond(test, st, branch):
        st = dict(st)
        t = test
        neg = False
        while isinstance(t, ast.UnaryOp) and isinstance(t.op, ast.Not):
            t = t.operand
            neg = not neg
        var = None
        kind = None
        if isinstance(t, ast.Compare) and len(t.ops) == 1 and isinstance(t.left, ast.Name) and \
                isinstance(t.comparators[0], ast.Constant) and t.comparators[0].value is None:
            var = t.left.id
            if isinstance(t.ops[0], (ast.Is, ast.Eq)):
                kind = 'isnone'
            elif isinstance(t.ops[0], (ast.IsNot, ast.NotEq)):
                kind = 'notnone'
        elif isinstance(t, ast.Name):
            var, kind = t.id, 'truthy'
        if var and st.get(var) in ('result?',):
            is_true = branch != neg
            if kind == 'isnone':
                st[var] = 'none' if is_true else 'result'
            elif kind == 'notnone':
                st[var] = 'result' if is_true else 'none'
            elif kind == 'truthy':
                st[var] = 'result' if is_true else 'none-or-falsy'
        return st

    def join(a, b):
        out = {}
        for k in set(a) | set(b):
            va, vb = a.get(k), b.get(k)
            if va == vb:
                out[k] = va
            elif {va, vb} <= {'result', 'none', 'result?', 'none-or-falsy'}:
                out[k] = 'result?'
            else:
                out[k] = None
        return out

    res = Flow(transfer, join, cond).run(fn, {sqlvar: 'sql'})
    parse_calls = [n for n in walk_no_nested(fn) if isinstance(n, ast.Call) and isinstance(n.func, ast.Attribute)
                   and n.func.attr == 'parse']
    ctx.need(len(parse_calls) >= 1, 'parse_sql no longer calls parser.parse')
    ctx.count('parse_sql_returns', len(res.returns) + (1 if res.end is not None else 0))
    for r, st in res.returns:
        tag = expr_tag(r.value, st) if r.value is not None else None
        ok = tag == 'result'
        why = {'result?': 'the value returned by parser.parse without a None test on this path (None means "syntax error")',
               'none': 'None', 'none-or-falsy': 'a falsy parse result',
               'result-of-other-tokens?': 'the parse of something other than the tokens of the whole input'}.get(
            tag, f'`{norm(r.value) if r.value is not None else None}`, which is not the tree parser.parse returned for the tokens of the whole input')
        ctx.ob('C05.none-is-rejection', f'return {norm(r.value) if r.value is not None else ""}'[:100], ok,
               f'parse_sql can return {why}; every path on which the parse result is None must raise ParsingException',
               file=file, line=r.lineno, witness='select 1 1')
    if res.end is not None:
        ctx.ob('C05.none-is-rejection', 'fall-through', False,
               'parse_sql can fall off its end and return None instead of raising', file=file, line=fn.end_lineno)
    # the parser/lexer come from get_lexer_parser(dialect) - checked under C20.fresh-instances


# ---- sly: defaulted states ---------------------------------------------------------------------------

def check_sly_defaulted(ctx):
    file = 'sly/yacc.py'
    tree = ctx.src.tree(file)
    init = None
    for n in ast.walk(tree):
        if isinstance(n, ast.ClassDef) and n.name == 'LRTable':
            for f in n.body:
                if isinstance(f, ast.FunctionDef) and f.name == '__init__':
                    init = f
    ctx.need(init is not None, 'sly/yacc.py: LRTable.__init__ not found')
    # the tail of __init__ that computes defaulted_states (from the first statement that mentions it) is interpreted on hand-made action tables
    from ..interp import Interp, Obj, Raised, Env
    first = next((k for k, st in enumerate(init.body) if any((isinstance(x, ast.Name) and 'defaulted' in x.id) or (isinstance(x, ast.Attribute) and 'defaulted' in x.attr)
                                                              for x in ast.walk(st))), None)
    ctx.need(first is not None, 'sly/yacc.py: LRTable.__init__ does not compute defaulted_states')
    tail = ast.FunctionDef(name='defaulted_states_tail', args=ast.arguments(posonlyargs=[], args=[ast.arg(arg='self')], kwonlyargs=[], kw_defaults=[], defaults=[]),
                           body=list(init.body[first:]), decorator_list=[], lineno=init.body[first].lineno, col_offset=0)
    ast.fix_missing_locations(tail)

    def defaulted(actions):
        self_ = Obj('LRTable', lr_action={7: dict(actions), 8: {'A': 3, 'B': -2}})
        try:
            Interp.for_file(ctx.src, file, {}, {}).call_function(tail, [self_], {}, Env())
        except Raised as r:
            return f'raises {r.exc_name}'
        ds = self_.attrs.get('defaulted_states')
        if not isinstance(ds, dict) or 8 in ds:
            return 'no table'
        return 7 in ds and ds[7] == list(actions.values())[0]
    ifs = [init.body[first]]
    cases = [({'$end': 0}, False, 'accept'), ({'X': -3}, True, 'single reduce'), ({'X': 5}, False, 'single shift'),
             ({'X': -1, 'Y': -2}, False, 'two reduces'), ({'X': -1, 'Y': 4}, False, 'reduce+shift'), ({}, False, 'empty')]
    for acts, exp, label in cases:
        got = defaulted(acts)
        ctx.ob('C05.sly-defaulted-states', label, got == exp,
               f'sly/yacc.py LRTable.__init__: a state whose action row is {acts} ({label}) is '
               f'{"" if got else "not "}treated as defaulted; Parser.parse takes the action of a defaulted state WITHOUT '
               f'looking at the next token, so only single-reduction states may be defaulted '
               f'(a defaulted accept state accepts a statement followed by garbage)',
               file=file, line=ifs[0].lineno, witness='COMMIT ) )')
    ctx.count('sly_defaulted_cases', len(cases))


def check_sly_recovery(ctx):
    """Panic-mode recovery of the vendored driver: once the stack is rolled back to the initial state the offending token and
    everything saved for re-reading must be thrown away (otherwise input that was part of a rejected statement is parsed
    again as a fresh statement).  Part of the reading of Parser.parse the structural argument rests on - checked, not trusted."""
    file = 'sly/yacc.py'
    tree = ctx.src.tree(file)
    cls = [n for n in tree.body if isinstance(n, ast.ClassDef) and n.name == 'Parser']
    ctx.need(cls, 'sly/yacc.py: class Parser not found')
    parse = [n for n in cls[0].body if isinstance(n, ast.FunctionDef) and n.name == 'parse']
    ctx.need(parse, 'sly/yacc.py: Parser.parse not found')
    parse = parse[0]
    # pending-input variables: the current look-ahead and every local list that tokens are pushed back on
    stacks = set()
    for n in ast.walk(parse):
        if isinstance(n, ast.Call) and isinstance(n.func, ast.Attribute) and n.func.attr == 'append' and isinstance(n.func.value, ast.Name) \
                and n.args and norm(n.args[0]) == 'lookahead':
            stacks.add(n.func.value.id)
    stacks.discard('symstack')
    ctx.need(stacks, 'Parser.parse: no push-back stack for the look-ahead found')
    case1 = [n for n in ast.walk(parse) if isinstance(n, ast.If) and 'len(statestack) <= 1' in norm(n.test)]
    ctx.need(len(case1) == 1, f'Parser.parse: the rolled-back-to-the-start case of error recovery was not found ({len(case1)} candidates)')
    body = case1[0].body
    clears_la = any(isinstance(st, ast.Assign) and norm(st.targets[0]) == 'lookahead' and isinstance(st.value, ast.Constant) and st.value.value is None for st in body)
    cleared = set()
    for st in body:
        if isinstance(st, ast.Delete):
            for t in st.targets:
                if isinstance(t, ast.Subscript) and isinstance(t.value, ast.Name) and isinstance(t.slice, ast.Slice) and t.slice.lower is None and t.slice.upper is None:
                    cleared.add(t.value.id)
        if isinstance(st, ast.Expr) and isinstance(st.value, ast.Call) and isinstance(st.value.func, ast.Attribute) and st.value.func.attr == 'clear' \
                and isinstance(st.value.func.value, ast.Name):
            cleared.add(st.value.func.value.id)
        if isinstance(st, ast.Assign) and isinstance(st.targets[0], ast.Name) and isinstance(st.value, ast.List) and not st.value.elts:
            cleared.add(st.targets[0].id)
    resets_state = any((isinstance(st, ast.Assign) and norm(st.targets[0]) == 'self.state' and norm(st.value) == '0')
                       or (isinstance(st, ast.Expr) and isinstance(st.value, ast.Call) and norm(st.value.func) == 'self.restart') for st in body)
    ctx.ob('C05.sly-recovery', 'discard-lookahead', clears_la,
           'sly Parser.parse, recovery with the stack rolled back to the start: the offending token must be discarded (lookahead = None)', file=file,
           line=case1[0].lineno)
    ctx.ob('C05.sly-recovery', 'discard-pushed-back-tokens', stacks <= cleared,
           f'sly Parser.parse, recovery with the stack rolled back to the start: the tokens pushed back for re-reading ({sorted(stacks - cleared)}) are not '
           f'thrown away, so the token that made the statement invalid is read again as the start of a fresh statement and a non-sentence is accepted',
           file=file, line=case1[0].lineno, witness='drop table a commit')
    ctx.ob('C05.sly-recovery', 'restart-state', resets_state and isinstance(body[-1], ast.Continue),
           'sly Parser.parse, recovery with the stack rolled back to the start: the driver must continue from state 0', file=file, line=case1[0].lineno)
    # at end of input the driver gives up (returns None), it never synthesises an accept
    eof = [n for n in ast.walk(parse) if isinstance(n, ast.If) and norm(n.test) == "lookahead.type == '$end'" and any(isinstance(x, ast.Return) and x.value is None for x in n.body)]
    ctx.ob('C05.sly-recovery', 'gives-up-at-end', len(eof) >= 1,
           'sly Parser.parse: during recovery at end of input the driver must return None (parse_sql turns it into ParsingException)', file=file, line=parse.lineno)
    ctx.count('sly_recovery_checks', 4)


def reentrant_parse_calls(cls):
    """calls of the driver on the parser object itself from inside its own methods (grammar actions, error callback, helpers)"""
    out = []
    for m in [x for x in cls.body if isinstance(x, ast.FunctionDef)]:
        selfname = m.args.args[0].arg if m.args.args else 'self'
        for n in ast.walk(m):
            if isinstance(n, ast.Call) and isinstance(n.func, ast.Attribute) and n.func.attr in ('parse', 'restart') and isinstance(n.func.value, ast.Name) \
                    and n.func.value.id == selfname:
                out.append((m, n))
            if isinstance(n, ast.Call) and isinstance(n.func, ast.Attribute) and n.func.attr == 'parse' and isinstance(n.func.value, ast.Call) \
                    and dotted(n.func.value.func) == 'super':
                out.append((m, n))
    return out


def check_no_reentrant_parse(ctx):
    """sly keeps the state of a parse (token stream, state / symbol stacks, tokens already used) in attributes of the parser object.  A grammar action or error
    callback that starts another parse on `self` replaces them under the running parse: the outer error callback then drains the wrong stream and panic-mode
    recovery goes on over the real one - a statement followed by garbage and a second statement is accepted."""
    from ..grammar import dialect_classes
    seen = set()
    n = 0
    for d in DIALECTS:
        _, (pmod, pcls) = dialect_classes(ctx.src)[d]
        todo = [(pmod.replace('.', '/') + '.py', pcls)]
        while todo:
            f, cn = todo.pop()
            if (f, cn) in seen or not ctx.src.exists(f):
                continue
            seen.add((f, cn))
            tree = ctx.src.tree(f)
            cls = next((x for x in tree.body if isinstance(x, ast.ClassDef) and x.name == cn), None)
            if cls is None:
                continue
            n += 1
            for b in cls.bases:
                bn = (dotted(b) or '').split('.')[-1]
                for st in ast.walk(tree):
                    if isinstance(st, ast.ImportFrom) and st.module and st.module.startswith('mindsdb_sql') and any((a.asname or a.name) == bn for a in st.names):
                        todo.append((st.module.replace('.', '/') + '.py', bn))
                todo.append((f, bn))
            for m, call in reentrant_parse_calls(cls):
                ctx.ob('C05.no-reentrant-parse', f'{cn}.{m.name}:{norm(call)[:50]}', False,
                       f'{cn}.{m.name} runs the driver on the parser object itself (`{norm(call)[:60]}`) while that object is parsing: the token stream and the stacks of the '
                       f'running parse are replaced, its error callback drains the wrong stream and the recovery accepts what follows the error', file=f, line=call.lineno,
                       witness='create view v as (select a from t)) ; drop table t')
    ctx.setcount('parser_classes', n)
    ctx.ob('C05.no-reentrant-parse', 'all', True, '')
    demo = ast.parse('class P:\n    def act(self, p):\n        if self.parse(iter(p.raw_query)) is None:\n            raise X()\n    def ok(self, p):\n        return p.parse(1)\n')
    ctx.need([m.name for m, _ in reentrant_parse_calls(demo.body[0])] == ['act'], 'self-test of the re-entrant parse rule failed')


def run(ctx):
    ctx.explanation = (
        'Structural argument + exhaustive table scan. For each of the three parser classes: no production mentions '
        '`error`; the accept action occurs only on $end in goto(0,start) and that state is not defaulted; the start symbol '
        'has only unit productions and is embedded only in parentheses; the error callback (resolved through the MRO), '
        'analysed by forward dataflow over its structured CFG, either raises or has exhausted self.tokens and returns a '
        'falsy value on every path; parse_sql returns only a parse result proven non-None and edits the text before '
        'lexing only by an anchored whitespace/semicolon suffix strip; sly computes defaulted states only for '
        'single-reduction rows (evaluated as a truth table from its source); the panic-mode recovery of sly\'s driver throws away the '
        'offending token and every pushed-back token once the stack is rolled back to the start, and gives up at end of input. '
        'NOT decided: that the shift/reduce loop of sly\'s Parser.parse implements LR parsing correctly (trusted driver).')
    ctx.not_decided = ['correctness of the LR driver loop in sly/yacc.py Parser.parse (trusted)']
    ctx.assumptions = ["sly's Parser.parse is an LR(1) driver with the panic-mode recovery read in DESIGN.md C05",
                       'sa/lalr.py tables equal sly\'s (development-time cross-check, C03 resolver conformance)']
    for d in DIALECTS:
        g = check_grammar(ctx, d)
        check_error_callback(ctx, d, g)
    check_parse_sql(ctx)
    check_sly_defaulted(ctx)
    check_sly_recovery(ctx)
    check_no_reentrant_parse(ctx)
    ctx.floor('parser_classes', 3)
    ctx.floor('grammars', 3)
    ctx.floor('error_callbacks', 3)
    ctx.floor('accept_checks', 3)
    ctx.floor('start_productions', 15 + 15 + 40)
    ctx.floor('parse_sql_returns', 1)
    ctx.floor('pre_lex_edits', 1)
