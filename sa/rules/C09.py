"""C09 - every emitted plan is a well-formed, forward-only dataflow program.

Decided by construction (who-may rules): a reference to step k can only be minted from a step whose step_num
is set; step_num is only set when the step is appended; steps are only appended at the end; a container of
sub-steps is closed before any later top-level step is added.  Therefore any step constructed from such a
reference lies after position k.
"""
import ast
import itertools

from ..source import AnalysisError, norm, dotted, walk_no_nested, enclosing_class, enclosing_function
from ..cfg import Flow, class_named, function_named
from ..pymodel import model_for

PLANNER = 'mindsdb_sql/planner'
ALLOWED_EXC = {'PlanningException', 'NotImplementedError'}
MUTATORS = {'append', 'extend', 'insert', 'pop', 'remove', 'clear', 'sort', 'reverse', '__setitem__', '__delitem__'}


def planner_files(ctx):
    return ctx.src.py_files(PLANNER)


def fn_label(n):
    fn = enclosing_function(n)
    cls = enclosing_class(fn) if fn is not None else None
    return (f'{cls.name}.' if cls is not None else '') + (fn.name if fn is not None else '<module>')


def check_nested_from_step(ctx):
    """`SELECT ... FROM (sub-select)`: the step the outer query is evaluated over is the step the FROM sub-select was planned into - whatever else the outer query makes
    the planner add (sub-selects of its own targets / conditions).  plan_mdb_nested_select interpreted on an outer query with sub-selects in targets and WHERE."""
    from ..interp import Interp, Obj, Raised, Env
    from .C08 import traverse, ident, binop, ISA
    QP = 'mindsdb_sql/planner/query_planner.py'
    cls = class_named(ctx.src.tree(QP), 'QueryPlanner')
    fn = function_named(cls, 'plan_mdb_nested_select') if cls is not None else None
    ctx.need(fn is not None, 'QueryPlanner.plan_mdb_nested_select not found')
    n = 0
    for label, with_t, with_w in (('plain outer query', False, False), ('sub-select in the outer WHERE', False, True), ('sub-select in the outer targets', True, False),
                                  ('sub-selects in outer targets and WHERE', True, True)):
        def sub(tag):
            return Obj('Select', targets=[ident('b')], from_table=ident(f'int2.{tag}'), where=None, alias=None, parentheses=True, cte=None, _tag=tag)
        inner = Obj('Select', targets=[Obj('Star')], from_table=ident('int1.t'), where=None, alias=ident('x'), parentheses=True, cte=None, _tag='from')
        outer = Obj('Select', targets=[ident('x.a')] + ([sub('target')] if with_t else []), from_table=inner,
                    where=binop('in', ident('x.a'), sub('where')) if with_w else binop('=', ident('x.a'), Obj('Constant', value=1, alias=None)), alias=None,
                    parentheses=False, cte=None, group_by=None, having=None, order_by=None, limit=None, offset=None, distinct=False, using=None, mode=None)
        plan = Obj('QueryPlan', steps=[])
        self_ = Obj('QueryPlanner', plan=plan, default_namespace='mindsdb')
        seen = {}

        def plan_select(it, node, *a, **k):
            st = Obj('Step', result=Obj('Result'), _of=node.attrs.get('_tag'))
            plan.steps.append(st)
            return st

        def nested_fnc(it, *a, **k):
            def cb(node, **kw):
                if isinstance(node, Obj) and node.kind == 'Select':
                    st = plan_select(it, node)
                    return Obj('Parameter', value=st.result, alias=None)
                return None
            return cb

        def sub_select(it, q, step, *a, **k):
            seen['step'] = step
            return step
        stubs = {'self.plan_select': plan_select, 'self.get_nested_selects_plan_fnc': nested_fnc, 'self.plan_sub_select': sub_select,
                 'copy.deepcopy': lambda it, x: x.clone() if isinstance(x, Obj) else x, 'query_traversal': lambda it, node, cb, *a, **k: traverse(it, node, cb),
                 'utils.query_traversal': lambda it, node, cb, *a, **k: traverse(it, node, cb)}
        it = Interp.for_file(ctx.src, QP, dict(ISA), stubs)
        try:
            it.call_function(fn, [self_, outer], {}, Env())
        except Raised as r:
            ctx.ob('C09.nested-from-step', label, r.exc_name in ALLOWED_EXC, f'plan_mdb_nested_select raises {r.exc_name} on {label}', file=QP, line=fn.lineno)
            continue
        n += 1
        st = seen.get('step')
        of = st.attrs.get('_of') if isinstance(st, Obj) else None
        ctx.ob('C09.nested-from-step', label, of == 'from',
               f'[{label}] the outer query of `FROM (sub-select)` is evaluated over the step planned for {("the sub-select in the outer " + of) if of else repr(st)}, expected '
               f'the step of the FROM sub-select: the rows of another sub-select are taken for the table', file=QP, line=fn.lineno,
               witness='select * from (select * from int1.t) x where x.a in (select b from int2.t2)')
    ctx.setcount('nested_from_rows', n)
    ctx.floor('nested_from_rows', 4)


def run(ctx):
    ctx.explanation = (
        'Who-may rules, exhaustive over all planner modules: (1) Result(...) is constructed only in PlanStep.result, which '
        'raises when step_num is None; (2) step_num is stored only by PlanStep.__init__ (its parameter), QueryPlan.add_step '
        '(len(self.steps), immediately followed by the append) and the sub-step namer; no Step constructor call passes a '
        'step_num; (3) QueryPlan.steps is mutated only by append inside add_step and the planner rebinds its plan only at the '
        'entry of from_query; (4) container typestate: in PlanJoinTablesQuery every top-level add happens with the map-reduce '
        'partition closed (forward dataflow over add_plan_step and over every method that adds steps directly); (5) explicit '
        'raises in the planner are PlanningException/NotImplementedError, asserts and partial conversions (int/float) of '
        'query-derived values are reported. NOT decided: "the last step produces the answer"; implicit exceptions of the '
        'planner on arbitrary trees x catalogs (the flow domain is too coarse to discharge the .parts[0]/info[key] sites).')
    ctx.not_decided = ['the last step produces the answer', 'implicit internal errors (AttributeError/KeyError/IndexError) of the planner']
    ctx.assumptions = ['steps are executed in list order; sub-steps of a container run when the container runs']
    model = model_for(ctx.src)
    steps_file = f'{PLANNER}/steps.py'
    ps = model.get('PlanStep')
    step_classes = {c.name for c in model.subclasses('PlanStep')}
    ctx.setcount('step_classes', len(step_classes))

    # (0) a step container that is a default argument is one list for every plan of the process: sub-steps of one plan land in the steps of another (C20's rule,
    # over the planner's files)
    from . import C20
    C20.check_mutable_defaults(ctx, [f for f in ctx.src.py_files('mindsdb_sql') if f.startswith(PLANNER)], 'C09.fresh-step-containers')
    # (0b) a planner object plans many statements: results registered for one plan (CTE results) may not be visible to the next - a step would read a result of
    # another plan (C20's rule)
    C20.check_planner_reuse(ctx, 'C09.plan-state-reset')
    # (0c) planning never fails with an internal error: the time-series join planner writes its fetch queries FROM the data side of the join, so anything but a
    # table reference / native query there must be refused, not passed on (C15's table, re-run)
    from . import C15
    from ..interp import class_members as _cm
    from ..cfg import class_named as _cn
    _ts = _cn(ctx.src.tree(C15.TS), 'PlanJoinTSPredictorQuery')
    if _ts is not None and 'plan' in _cm(_ts):
        C15._CTX.update(tree=ctx.src.tree(C15.TS), src=ctx.src)
        ctx.setcount('ts_table_kind_rows', C15.table_kind_rows(ctx, _cm(_ts), rule='C09.exceptions'))
    else:
        ctx.note('PlanJoinTSPredictorQuery.plan not found: the time-series join is planned elsewhere')
    # (0b) a CTE's result is referenced by the steps that read it: the table that maps CTE names to results is written (plan_cte) and read
    # (get_integration_select_step) under the same spelling (C08's table, re-run)
    from . import C08
    C08._CTX.clear()
    C08._CTX.update(tree=ctx.src.tree(C08.PJ), src=ctx.src, ctx=ctx)
    for label, ok, msg, line in C08.cte_roundtrip_rows(ctx):
        ctx.ob('C09.cte-result-reference', label, ok, msg, file='mindsdb_sql/planner/query_planner.py', line=line,
               witness='with Tab as (select * from int1.t) select * from Tab a join int2.u b on a.id = b.id')
    # (1) result-mint --------------------------------------------------------------------------------------------
    mints = []
    for f in ctx.src.py_files('mindsdb_sql'):
        for n in ast.walk(ctx.src.tree(f)):
            if isinstance(n, ast.Call) and (dotted(n.func) or '').split('.')[-1] == 'Result' and f.startswith(PLANNER):
                mints.append((f, n))
    ctx.setcount('result_mints', len(mints))
    for f, n in mints:
        lab = fn_label(n)
        ok = lab == 'PlanStep.result' and len(n.args) == 1 and norm(n.args[0]) == 'self.step_num'
        ctx.ob('C09.result-mint', f'{lab}:{norm(n)}', ok,
               f'{lab} constructs `{norm(n)}`: a reference to a step result may only be minted by PlanStep.result from the '
               f'step\'s own assigned number (anything else can point at a step that does not exist yet)', file=f, line=n.lineno)
    rp = ps.methods.get('result')
    ctx.need(rp is not None, 'PlanStep.result not found')

    def cond(test, st, branch):
        if norm(test) in ('self.step_num is None',):
            return 'none' if branch else 'set'
        if norm(test) in ('self.step_num is not None',):
            return 'set' if branch else 'none'
        return st
    res = Flow(lambda s, st: st, lambda a, b: a if a == b else 'unknown', cond).run(rp, 'unknown')
    for r, st in res.returns:
        ctx.ob('C09.result-mint', 'PlanStep.result:guard', st == 'set',
               'PlanStep.result can return a Result while step_num is None (a reference to an unnumbered step)',
               file=steps_file, line=r.lineno)

    # (2) numbering ---------------------------------------------------------------------------------------------------
    stores = []
    for f in ctx.src.py_files('mindsdb_sql'):
        for n in ast.walk(ctx.src.tree(f)):
            if isinstance(n, ast.Attribute) and n.attr == 'step_num' and isinstance(n.ctx, (ast.Store, ast.Del)):
                stores.append((f, n))
            if isinstance(n, ast.Call) and dotted(n.func) == 'setattr' and len(n.args) >= 2 and isinstance(n.args[1], ast.Constant) \
                    and n.args[1].value == 'step_num':
                stores.append((f, n))
    ctx.setcount('step_num_stores', len(stores))
    for f, n in stores:
        lab = fn_label(n)
        st = getattr(n, '_parent', None)
        ok = False
        why = 'is not one of the three numbering sites'
        if lab in ('PlanStep.__init__', 'Result.__init__') and isinstance(st, ast.Assign) and norm(st.value) == 'step_num':
            ok = True
        elif lab.startswith('QueryPlan.') and isinstance(st, ast.Assign) and (norm(st.value) == 'len(self.steps)' or lab == 'QueryPlan.add_step'):
            ok = True           # what add_step does with it - however the number is computed - is decided by the interpreted add_step table below
        elif isinstance(st, ast.Assign) and 'partition.step_num' in norm(st.value) and 'len(' in norm(st.value):
            # sub-step namer: '<container>_<index>' followed by the append to the container
            fn = enclosing_function(n)
            aliases_ = {a_.targets[0].id for a_ in ast.walk(fn) if isinstance(a_, ast.Assign) and len(a_.targets) == 1 and isinstance(a_.targets[0], ast.Name)
                        and norm(a_.value).endswith('partition.step')}
            ok = any(isinstance(x, ast.Call) and isinstance(x.func, ast.Attribute) and x.func.attr == 'append'
                     and (norm(x.func.value).endswith('partition.step') or norm(x.func.value) in aliases_) for x in ast.walk(fn))
            why = 'names a sub-step without appending it to its container'
        ctx.ob('C09.numbering', f'{lab}:{norm(st)[:70]}', ok,
               f'{lab} writes a step number (`{norm(st)[:80]}`) and {why}: steps must be numbered by their position when appended',
               file=f, line=n.lineno)
    qp = model.get('QueryPlan')
    add = qp.methods.get('add_step')
    ctx.need(add is not None, 'QueryPlan.add_step not found')
    body = [s for s in add.body if not (isinstance(s, ast.Expr) and isinstance(s.value, ast.Constant))]
    appends = [n for n in ast.walk(add) if isinstance(n, ast.Call) and norm(n.func) == 'self.steps.append']
    others = [n for n in ast.walk(add) if isinstance(n, ast.Call) and isinstance(n.func, ast.Attribute) and n.func.attr in MUTATORS
              and norm(n.func.value) == 'self.steps' and n.func.attr != 'append']
    ctx.ob('C09.append-only', 'QueryPlan.add_step', len(appends) == 1 and not others and norm(appends[0].args[0]) == add.args.args[1].arg,
           'QueryPlan.add_step does not simply append the step at the end of self.steps', file=qp.file, line=add.lineno)
    # add_step interpreted (sa/interp.py) on plans of 0 / 1 / 3 steps and steps without a number, with number 0 and with a number: the step is appended at the
    # end, it is what is returned, and it is numbered by its position unless it already carried a (truthy) number
    from ..interp import Interp, Obj, Raised, Env
    for k_, num in itertools.product((0, 1, 3), (None, 0, 5)):
        old_steps = [Obj('PlanStep', step_num=i) for i in range(k_)]
        plan_ = Obj('QueryPlan', steps=list(old_steps))
        step_ = Obj('PlanStep', step_num=num)
        try:
            ret = Interp.for_file(ctx.src, qp.file, {}, {}).call_function(add, [plan_, step_], {}, Env())
        except Raised as r:
            ret = f'<{r.exc_name}>'
        want_num = num if num else k_
        ok_ = ret is step_ and len(plan_.steps) == k_ + 1 and all(a is b for a, b in zip(plan_.steps, old_steps + [step_])) and step_.step_num == want_num
        ctx.ob('C09.numbering', f'add_step:plan of {k_} steps:step_num={num}', ok_,
               f'QueryPlan.add_step on a plan of {k_} steps and a step with step_num={num}: returned {ret!r:.60}, plan has {len(plan_.steps)} steps, the step is numbered '
               f'{step_.step_num!r} (expected: appended at the end, returned, numbered {want_num})', file=qp.file, line=add.lineno)
    # constructor calls never pass step_num
    nctor = 0
    for f in planner_files(ctx):
        for n in ast.walk(ctx.src.tree(f)):
            if isinstance(n, ast.Call) and (dotted(n.func) or '').split('.')[-1] in step_classes:
                nctor += 1
                cn = (dotted(n.func) or '').split('.')[-1]
                ci = model.get(cn)
                own = [p for p, d in model.init_params(ci)]
                npos = len([a for a in n.args if not isinstance(a, ast.Starred)])
                declared = []
                c, init = model.method(ci, '__init__')
                if init is not None:
                    declared = [a.arg for a in init.args.args][1:]
                bad = any(k.arg == 'step_num' for k in n.keywords) or (declared and npos > len(declared)) or \
                    (cn == 'PlanStep' and npos >= 1)
                ctx.ob('C09.numbering', f'ctor:{fn_label(n)}:{norm(n)[:50]}', not bad,
                       f'{fn_label(n)} constructs {cn} with an explicit step number: numbers must come from the position in the plan',
                       file=f, line=n.lineno)
    ctx.setcount('step_constructions', nctor)

    # (3) append-only / plan rebinding -----------------------------------------------------------------------------------
    nmut = 0
    for f in ctx.src.py_files('mindsdb_sql'):
        for n in ast.walk(ctx.src.tree(f)):
            tgt = None
            if isinstance(n, ast.Call) and isinstance(n.func, ast.Attribute) and n.func.attr in MUTATORS \
                    and isinstance(n.func.value, ast.Attribute) and n.func.value.attr == 'steps':
                tgt = n.func.value
                what = f'.{n.func.attr}()'
            elif isinstance(n, (ast.Subscript,)) and isinstance(n.ctx, (ast.Store, ast.Del)) and isinstance(n.value, ast.Attribute) \
                    and n.value.attr == 'steps':
                tgt = n.value
                what = 'item store'
            elif isinstance(n, ast.Attribute) and n.attr == 'steps' and isinstance(n.ctx, (ast.Store, ast.Del)):
                tgt = n
                what = 'rebind'
            if tgt is None:
                continue
            nmut += 1
            lab = fn_label(n)
            ok = (lab == 'QueryPlan.add_step' and what == '.append()') or lab in ('QueryPlan.__init__', 'MultipleSteps.__init__')
            ctx.ob('C09.append-only', f'{lab}:{norm(tgt)}:{what}', ok,
                   f'{lab} changes a step list (`{norm(tgt)}` {what}) outside QueryPlan.add_step: inserting, removing or '
                   f'reordering steps breaks "numbered consecutively in list order" and can move a consumer before its producer',
                   file=f, line=n.lineno)
    ctx.setcount('step_list_mutations', nmut)
    fq = None
    qpl = model.get('QueryPlanner')
    for f, n in [(qpl.file, x) for x in ast.walk(qpl.node)]:
        if isinstance(n, ast.Attribute) and n.attr == 'plan' and isinstance(n.ctx, ast.Store) and norm(n.value) == 'self':
            lab = fn_label(n)
            st = getattr(n, '_parent', None)
            fn = enclosing_function(n)
            first = [s for s in fn.body if not (isinstance(s, ast.Expr) and isinstance(s.value, ast.Constant))][0]
            ok = lab == 'QueryPlanner.__init__' or (lab == 'QueryPlanner.from_query' and st is first)
            if not ok:
                # ... or among the resets from_query performs before anything else, possibly through a reset helper (C20.entry_prelude_resets)
                from . import C20 as _C20
                entry_ = next((m for m in qpl.node.body if isinstance(m, ast.FunctionDef) and m.name == 'from_query'), None)
                ok = entry_ is not None and any(st is s_ for _a, s_ in _C20.entry_prelude_resets(qpl.node, entry_))
            ctx.ob('C09.append-only', f'{lab}:self.plan-rebind', ok and norm(st.value) == 'QueryPlan()',
                   f'{lab} replaces the plan object in the middle of planning: references minted for the old plan point nowhere',
                   file=qpl.file, line=n.lineno)

    # (4) container typestate ---------------------------------------------------------------------------------------------
    check_partition(ctx, model)

    # (5) exceptions ----------------------------------------------------------------------------------------------------------
    nraise = 0
    for f in planner_files(ctx):
        tree = ctx.src.tree(f)
        for n in ast.walk(tree):
            if isinstance(n, ast.Raise) and n.exc is not None:
                nraise += 1
                nm = ((dotted(n.exc.func) if isinstance(n.exc, ast.Call) else dotted(n.exc)) or '?').split('.')[-1]
                ctx.ob('C09.exceptions', f'{f.split("/")[-1]}:{fn_label(n)}:raise {nm}', nm in ALLOWED_EXC,
                       f'{fn_label(n)} raises {nm}; planning may only fail with PlanningException (or NotImplementedError for '
                       f'documented unsupported shapes)', file=f, line=n.lineno)
            if isinstance(n, ast.Assert):
                nraise += 1
                ctx.ob('C09.exceptions', f'{f.split("/")[-1]}:{fn_label(n)}:assert', False,
                       f'{fn_label(n)} uses `assert {norm(n.test)[:60]}` on planning input: it surfaces as AssertionError',
                       file=f, line=n.lineno)
            if isinstance(n, ast.Call) and isinstance(n.func, ast.Name) and n.func.id in ('int', 'float') and n.args \
                    and not isinstance(n.args[0], ast.Constant):
                nraise += 1
                arg = n.args[0]
                guarded = False
                p = getattr(n, '_parent', None)
                while p is not None:
                    if isinstance(p, ast.Try) and any(n is x for b in p.body for x in ast.walk(b)):
                        guarded = True
                    if isinstance(p, ast.If) and ('isdigit' in norm(p.test) or 'isinstance' in norm(p.test)) and any(
                            n is x for b in p.body for x in ast.walk(b)):
                        guarded = True
                    p = getattr(p, '_parent', None)
                ctx.ob('C09.exceptions', f'{f.split("/")[-1]}:{fn_label(n)}:{norm(n)[:40]}', guarded,
                       f'{fn_label(n)} converts a query-derived value with `{norm(n)}` without a guard: a non-numeric value '
                       f'surfaces as ValueError/TypeError instead of PlanningException', file=f, line=n.lineno,
                       witness="... USING partition_size='auto'")
    ctx.setcount('explicit_raise_sites', nraise)
    ctx.sample({'result_mint_sites': [fn_label(n) for f, n in mints]})
    ctx.sample({'step_num_store_sites': sorted({fn_label(n) for f, n in stores})})
    ctx.floor('step_classes', 24)
    ctx.floor('result_mints', 1)
    ctx.floor('step_num_stores', 3)
    ctx.floor('step_constructions', 30)
    ctx.floor('step_list_mutations', 2)
    ctx.floor('explicit_raise_sites', 30)
    ctx.floor('partition_add_sites', 3)

    # (6) a step object enters the plan once: what is handed to an add function is freshly constructed on every path ------------------------
    ADDERS = {'add_step', 'add_plan_step', 'add_step_to_partition'}
    fresh_fns = set()
    all_fns = []
    for f in planner_files(ctx):
        for n in ast.walk(ctx.src.tree(f)):
            if isinstance(n, ast.FunctionDef):
                all_fns.append((f, n))

    def fresh_expr(e, st):
        if isinstance(e, ast.Call):
            last = (dotted(e.func) or (e.func.attr if isinstance(e.func, ast.Attribute) else '')).split('.')[-1]
            if last in step_classes:
                return True
            if last in fresh_fns:
                return True
        if isinstance(e, (ast.Name, ast.Attribute)):
            return st.get(norm(e)) == 'fresh'
        if isinstance(e, ast.Subscript) and isinstance(e.value, ast.Name):
            return st.get(e.value.id) == 'fresh-list'           # an element of a list of steps that were each constructed for it
        if isinstance(e, ast.IfExp):
            return fresh_expr(e.body, st) and fresh_expr(e.orelse, st)
        return False

    def fresh_list(e, st):
        if isinstance(e, ast.ListComp):
            return fresh_expr(e.elt, st)
        if isinstance(e, (ast.List, ast.Tuple)):
            return bool(e.elts) and all(fresh_expr(x, st) for x in e.elts)
        return False

    def analyse(fn):
        def transfer(s_, st):
            if isinstance(s_, ast.Assign):
                st = dict(st)
                for t in s_.targets:
                    if isinstance(t, (ast.Name, ast.Attribute)):
                        if fresh_expr(s_.value, st):
                            st[norm(t)] = 'fresh'
                        elif fresh_list(s_.value, st):
                            st[norm(t)] = 'fresh-list'
                        else:
                            st.pop(norm(t), None)
            elif isinstance(s_, (ast.For, ast.AugAssign)):
                st = dict(st)
                tg = s_.target
                for x in ast.walk(tg):
                    if isinstance(x, ast.Name):
                        st.pop(x.id, None)
            return st
        return Flow(transfer, lambda a, b: {k: v for k, v in a.items() if b.get(k) == v}).run(fn, {})
    for _ in range(4):
        before = set(fresh_fns)
        for f, fn in all_fns:
            if fn.name in ADDERS or fn.name.startswith('__'):
                continue
            res = analyse(fn)
            rets = [(r, st) for r, st in res.returns if r.value is not None and not (isinstance(r.value, ast.Constant) and r.value.value is None)]
            # `return None` next to fresh steps: "a fresh step or nothing" (the caller tests for None)
            if rets and all(fresh_expr(r.value, st) for r, st in rets):
                fresh_fns.add(fn.name)
        if fresh_fns == before:
            break
    nadd = 0
    for f, fn in all_fns:
        res = None
        for n in walk_no_nested(fn):
            if not (isinstance(n, ast.Call) and isinstance(n.func, ast.Attribute) and n.func.attr in ADDERS and n.args):
                continue
            arg = n.args[0]
            if fn.name in ADDERS and isinstance(arg, ast.Name) and arg.id in [a.arg for a in fn.args.args]:
                continue        # the adder hands its own parameter on
            if fn.name == '__init__' and fn_label(n) == 'QueryPlan.__init__':
                ctx.note('QueryPlan.__init__(steps=...) adds the steps its caller supplies (used to build expected plans): the caller owns their freshness')
                continue
            nadd += 1
            if res is None:
                res = analyse(fn)
            cur = n
            st = None
            while cur is not None:
                if isinstance(cur, ast.stmt) and id(cur) in res.at:
                    st = res.at[id(cur)]
                    break
                cur = getattr(cur, '_parent', None)
            ok = fresh_expr(arg, st or {})
            ctx.ob('C09.added-once', f'{fn_label(n)}:{norm(n)[:60]}', ok,
                   f'{fn_label(n)}: `{norm(arg)[:50]}` handed to {n.func.attr}() is not a step constructed on every path that reaches the call (it may come '
                   f'from a cache / an earlier add): the same step object would sit in the plan twice, keeping its first number, so the steps are no longer '
                   f'numbered consecutively in list order', file=f, line=n.lineno)
    ctx.setcount('add_sites', nadd)
    ctx.floor('add_sites', 20)
    # (6b) "the last step produces the answer": a step that a planning function hands back as ITS result is the step added to the plan last.  Typestate per
    #      variable: cur = "is plan.steps[-1] right now".  Adding a step (directly or through a callee) ends the cur-ness of everything else.
    by_name = {}
    for f, fn in all_fns:
        by_name.setdefault(fn.name, []).append((f, fn))

    def callee_name(c):
        if isinstance(c.func, ast.Attribute):
            return c.func.attr
        if isinstance(c.func, ast.Name):
            return c.func.id
        return None
    may_add = set(ADDERS)
    for _ in range(8):
        before = set(may_add)
        for f, fn in all_fns:
            if any(isinstance(n, ast.Call) and callee_name(n) in may_add for n in walk_no_nested(fn)):
                may_add.add(fn.name)
        if may_add == before:
            break
    ret_cur = set()
    passthrough = {}         # function -> parameters it hands back unchanged (the result is current iff the argument is)

    def is_last_index(e):
        return isinstance(e, ast.Subscript) and norm(e.value).endswith('plan.steps') and norm(e.slice) == '-1'

    def cur_expr(e, st):
        if isinstance(e, ast.Name):
            return e.id in st
        if is_last_index(e):
            return True
        if isinstance(e, ast.Call):
            nm = callee_name(e)
            return nm in ADDERS or nm in ret_cur
        if isinstance(e, ast.IfExp):
            return cur_expr(e.body, st) and cur_expr(e.orelse, st)
        return False

    def cur_flow(fn):
        params = [a.arg for a in fn.args.args if a.arg != 'self']

        def calls_in(s_):
            if isinstance(s_, (ast.If, ast.While)):
                return [n for n in ast.walk(s_.test) if isinstance(n, ast.Call)]
            if isinstance(s_, ast.For):
                return [n for n in ast.walk(s_.iter) if isinstance(n, ast.Call)]
            if isinstance(s_, (ast.With, ast.Try)):
                return []
            return [n for n in ast.walk(s_) if isinstance(n, ast.Call)]

        def transfer(s_, st):
            st = set(st)
            adds = [c for c in calls_in(s_) if callee_name(c) in may_add]
            if isinstance(s_, ast.Assign) and len(s_.targets) == 1 and isinstance(s_.targets[0], ast.Name):
                t = s_.targets[0].id
                inner_adds = [c for c in adds if c is not s_.value]
                if inner_adds or (adds and not cur_expr(s_.value, st)):
                    st = set()
                elif adds:
                    st = set()          # a new step was added: it is the only current one
                if cur_expr(s_.value, st) or (adds and cur_expr(s_.value, set())):
                    st.add(t)
                else:
                    st.discard(t)
                return frozenset(st)
            if adds:
                # `self.plan.add_step(x)` as a statement: x is the current step now
                named = [c.args[0].id for c in adds if callee_name(c) in ADDERS and c.args and isinstance(c.args[0], ast.Name)]
                return frozenset(named[-1:]) if len(adds) == 1 else frozenset()
            if isinstance(s_, (ast.For, ast.AugAssign)):
                for x in ast.walk(s_.target):
                    if isinstance(x, ast.Name):
                        st.discard(x.id)
            return frozenset(st)
        return params, Flow(transfer, lambda a, b: a & b).run(fn, frozenset(params))
    flows = {}
    for _ in range(6):
        before = (set(ret_cur), {k: set(v) for k, v in passthrough.items()})
        for f, fn in all_fns:
            if fn.name in ADDERS or fn.name.startswith('__'):
                continue
            params, res = cur_flow(fn)
            flows[id(fn)] = res
            rets = [(r, st) for r, st in res.returns if r.value is not None and not (isinstance(r.value, ast.Constant) and r.value.value is None)]
            if not rets:
                continue
            pt = {r.value.id for r, st in rets if isinstance(r.value, ast.Name) and r.value.id in params and r.value.id in st}
            own = [(r, st) for r, st in rets if not (isinstance(r.value, ast.Name) and r.value.id in pt)]
            # a planning function: some result of its own is a step it (or a callee) has just added
            if fn.name in may_add and own and all(cur_expr(r.value, st) for r, st in rets):
                ret_cur.add(fn.name)
                if pt:
                    passthrough[fn.name] = pt
        if before == (ret_cur, passthrough):
            break
    ncur = 0
    for f, fn in all_fns:
        res = flows.get(id(fn))
        for n in walk_no_nested(fn):
            if not (isinstance(n, ast.Call) and callee_name(n) in passthrough and len(by_name.get(callee_name(n), [])) == 1):
                continue
            cf, cfn = by_name[callee_name(n)][0]
            cparams = [a.arg for a in cfn.args.args if a.arg != 'self']
            for pname in passthrough[callee_name(n)]:
                i = cparams.index(pname)
                arg = n.args[i] if i < len(n.args) else next((k.value for k in n.keywords if k.arg == pname), None)
                if arg is None:
                    continue
                ncur += 1
                cur = n
                st = None
                while cur is not None and res is not None:
                    if isinstance(cur, ast.stmt) and id(cur) in res.at:
                        st = res.at[id(cur)]
                        break
                    cur = getattr(cur, '_parent', None)
                ok = cur_expr(arg, st or frozenset())
                ctx.ob('C09.answer-is-last', f'{fn_label(n)}:{callee_name(n)}({pname}={norm(arg)[:40]})', ok,
                       f'{fn_label(n)}: {callee_name(n)}() hands its argument `{pname}` back as the result when it has nothing to add, and here it receives '
                       f'`{norm(arg)[:60]}`, which is not the step added to the plan last on every path: the planning result is then a step in the middle of the plan, '
                       f'while the executor and the nested-select planner take plan.steps[-1] as the answer', file=f, line=n.lineno,
                       witness='with a as (select * from int1.t), b as (select * from int2.u) select * from a')
    ctx.setcount('passthrough_call_sites', ncur)
    ctx.floor('passthrough_call_sites', 3)
    ctx.sample({'functions_returning_the_current_step': sorted(ret_cur)[:40], 'passthrough': {k: sorted(v) for k, v in passthrough.items()}})
    # (6c) "planning never fails with an internal error", one decidable part: the model planner only receives selects FROM a model (C10's route table)
    check_nested_from_step(ctx)
    from .C10 import select_route_table
    for label, ok, msg, line in select_route_table(ctx):
        ctx.ob('C09.exceptions', f'plan_select_identifier:{label}', ok, msg, file='mindsdb_sql/planner/query_planner.py', line=line,
               witness='with a as (select * from int1.t), b as (select * from a join mindsdb.pred) select * from a')
    # (7) steps remembered for later reference by top-level steps are never of a kind that can sit inside a map-reduce partition -------------------
    part_kinds = set()
    # ... in add_plan_step itself or in the methods of its class that it calls (`self.goes_to_partition(step, size)`)
    aps_ = [(f, fn) for f, fn in all_fns if fn.name == 'add_plan_step']
    for f, fn in list(aps_):
        called_ = {c.func.attr for c in ast.walk(fn) if isinstance(c, ast.Call) and isinstance(c.func, ast.Attribute) and norm(c.func.value) == 'self'}
        aps_ += [(f2, fn2) for f2, fn2 in all_fns if f2 == f and fn2.name in called_ and fn2.name != 'add_plan_step']
    for f, fn in aps_:
        if True:
            for n in ast.walk(fn):
                if isinstance(n, ast.Call) and dotted(n.func) == 'isinstance' and len(n.args) == 2:
                    cls_arg = n.args[1]
                    if isinstance(cls_arg, (ast.Name, ast.Attribute)):
                        # a tuple of classes kept in a module-level / class-level constant
                        cname = cls_arg.id if isinstance(cls_arg, ast.Name) else cls_arg.attr
                        for a_ in ast.walk(ctx.src.tree(f)):
                            if isinstance(a_, ast.Assign) and len(a_.targets) == 1 and isinstance(a_.targets[0], ast.Name) and a_.targets[0].id == cname \
                                    and isinstance(a_.value, ast.Tuple):
                                cls_arg = a_.value
                    ts = cls_arg.elts if isinstance(cls_arg, ast.Tuple) else [cls_arg]
                    part_kinds |= {(dotted(t) or '').split('.')[-1] for t in ts} & step_classes
    ctx.need(part_kinds, 'add_plan_step: the kinds of steps that go into a partition were not found')
    ret_kinds = {}          # function -> step classes it can return

    def kinds_of_expr(e, fn, depth=0):
        if depth > 6:
            return {'?'}
        if isinstance(e, ast.Call):
            last = (dotted(e.func) or (e.func.attr if isinstance(e.func, ast.Attribute) else '')).split('.')[-1]
            if last in step_classes:
                return {last}
            if last in ret_kinds:
                return set(ret_kinds[last])
            if last in ADDERS and e.args:
                return kinds_of_expr(e.args[0], fn, depth + 1)
            return {'?'}
        if isinstance(e, ast.Constant) and e.value is None:
            return set()            # "no step": what receives it tests for None before use (a missing test is a crash, not a renumbering)
        if isinstance(e, ast.Name):
            out, seen = set(), False
            for n in walk_no_nested(fn):
                if isinstance(n, ast.Assign) and any(isinstance(t, ast.Name) and t.id == e.id for t in n.targets):
                    seen = True
                    out |= kinds_of_expr(n.value, fn, depth + 1)
            return out if seen else {'?'}
        return {'?'}
    for _ in range(3):
        for f, fn in all_fns:
            ks = set()
            for r in [n for n in walk_no_nested(fn) if isinstance(n, ast.Return) and n.value is not None]:
                ks |= kinds_of_expr(r.value, fn)
            if ks and '?' not in ks:
                ret_kinds[fn.name] = ks
    nrem = 0
    for f, fn in all_fns:
        for n in walk_no_nested(fn):
            if isinstance(n, ast.Assign) and isinstance(n.targets[0], ast.Subscript) and norm(n.targets[0].value).endswith('tables_fetch_step'):
                nrem += 1
                ks = kinds_of_expr(n.value, fn)
                bad = ks & part_kinds
                ctx.ob('C09.remembered-step-is-top-level', f'{fn_label(n)}:{norm(n.value)[:40]}', not bad and '?' not in ks,
                       f'{fn_label(n)} remembers a step of kind {sorted(ks)} as the fetch of a table; later top-level steps (the DISTINCT sub-select of the semi-join '
                       f'filter) read its result, but a {sorted(bad) or "step of unknown kind"} can be a sub-step of a map-reduce partition, whose result is not a '
                       f'step of the plan', file=f, line=n.lineno, witness='t JOIN model JOIN t2 ON t2.col = model.col USING partition_size=10')
    ctx.setcount('remembered_steps', nrem)
    ctx.floor('remembered_steps', 1)


def check_partition(ctx, model):
    """In PlanJoinTablesQuery, a MapReduceStep is added to the plan while still open (sub-steps are appended to it
    later).  Forward-only therefore requires: whenever another step is added to the *plan*, the partition is closed."""
    f = f'{PLANNER}/plan_join.py'
    ci = model.get('PlanJoinTablesQuery')
    ctx.need('add_plan_step' in ci.methods and 'close_partition' in ci.methods, 'add_plan_step / close_partition not found')
    cp = ci.methods['close_partition']
    resets = any(isinstance(n, ast.Assign) and norm(n.targets[0]) == 'self.partition' and norm(n.value) == 'None' for n in ast.walk(cp))
    ctx.ob('C09.container-closed', 'close_partition:resets', resets,
           'close_partition does not reset self.partition', file=f, line=cp.lineno)
    # which methods close the partition on every path to their end (summaries)
    closing = {'close_partition'}

    def transfer_factory(fnname):
        def transfer(s, st):
            for n in (ast.walk(s) if not isinstance(s, (ast.If, ast.For, ast.While, ast.Try, ast.With)) else
                      ast.walk(getattr(s, 'test', None) or getattr(s, 'iter', None) or ast.Pass())):
                if isinstance(n, ast.Call):
                    d = norm(n.func)
                    if d.startswith('self.') and d[5:] in closing:
                        st = 'closed'
                    elif d in ('self.planner.plan.add_step', 'self.planner.plan_select', 'self.planner.plan_integration_select',
                               'self.planner.plan_sub_select', 'self.planner.plan_nested_select', 'self.planner.plan_union',
                               'self.planner.plan_project'):
                        arg0 = norm(n.args[0]) if n.args else ''
                        ctx.count('partition_add_sites')
                        # adding the partition step itself: `self.partition`, or the local that was just stored there (`self.partition = partition`)
                        fn_here = enclosing_function(n)
                        same_obj = {norm(a_.value) for a_ in ast.walk(fn_here) if isinstance(a_, ast.Assign) and norm(a_.targets[0]) == 'self.partition'
                                    and isinstance(a_.value, ast.Name)} if fn_here is not None else set()
                        ctx.ob('C09.container-closed', f'{fnname}:{d}({arg0[:30]})', st == 'closed' or arg0 == 'self.partition' or arg0 in same_obj,
                               f'PlanJoinTablesQuery.{fnname} adds a step to the plan (`{norm(n)[:60]}`) on a path where the open '
                               f'map-reduce partition may not have been closed: sub-steps appended to the partition afterwards would '
                               f'consume results of later steps', file=f, line=n.lineno,
                               witness='select * from t1 join model m join t2 ... using partition_size=10')
            if isinstance(s, ast.Assign) and norm(s.targets[0]) == 'self.partition':
                st = 'closed' if norm(s.value) == 'None' else 'open'
            return st
        return transfer

    def cond(test, st, branch):
        t = norm(test)
        if t == 'self.partition':
            return st if branch else 'closed'
        if t in ('not self.partition', 'self.partition is None'):
            return 'closed' if branch else st
        if t == 'self.partition is not None':
            return st if branch else 'closed'
        return st

    def join(a, b):
        return a if a == b else 'maybe-open'
    # fixpoint on the set of closing methods (methods whose every normal exit has state closed)
    for _ in range(3):
        for name, fn in ci.methods.items():
            if name in closing:
                continue
            res = Flow(lambda s, st: transfer_quiet(s, st, closing), join, cond).run(fn, 'maybe-open')
            exits = [st for _, st in res.returns] + ([res.end] if res.end is not None else [])
            if exits and all(e == 'closed' for e in exits):
                closing.add(name)
    ctx.extra['partition_closing_methods'] = sorted(closing)
    for name, fn in ci.methods.items():
        init = 'closed' if name in ('__init__', 'plan') else 'maybe-open'
        Flow(transfer_factory(name), join, cond).run(fn, init)
    check_stale_reference(ctx, ci, f)


def check_stale_reference(ctx, ci, f):
    """JoinStep / ApplyPredictorStep objects are built from the top of step_stack (`.result` of its last element), and
    close_partition() rewrites that top from the last sub-step to the container.  So on a path of add_plan_step that
    really closes an open partition, the step being added must not be of a partitionable kind: it would carry a
    reference to a sub-step ('1_1') of the closed container into a later top-level position."""
    fn = ci.methods['add_plan_step']
    stepvar = fn.args.args[1].arg
    # premise: who builds partitionable steps from the stack top
    premise = []
    for m in ci.methods.values():
        for n in ast.walk(m):
            if isinstance(n, ast.Call) and (dotted(n.func) or '') in ('JoinStep', 'ApplyPredictorStep'):
                txt = norm(n)
                if '.result' in txt:
                    premise.append(f'{m.name}:{dotted(n.func)}')
    ctx.setcount('stack_built_steps', len(premise))

    # decided by interpretation: add_plan_step (with the real add_step_to_partition / close_partition) on partition open / closed x kind of the step x partition_size
    from ..interp import Interp, Obj, Raised, Env
    from ..pymodel import model_for as _mf
    isa = _mf(ctx.src).isa_table()
    rows = 0
    for is_open, kind, psize in itertools.product((False, True), ('JoinStep', 'ApplyPredictorStep', 'FetchDataframeStep', 'SubSelectStep'), (None, 10)):
        inner = Obj('JoinStep', step_num='1_0', result=Obj('Result'))
        part = Obj('MapReduceStep', step=[inner], step_num=1, result=Obj('Result'), partition=5, values=Obj('Result'), reduce='union') if is_open else None
        added = []
        plan = Obj('QueryPlan', steps=[], add_step=lambda st: (added.append(st), st)[1])
        step = Obj(kind, dataframe=Obj('Result'), result=Obj('Result'), step_num=None)
        self_ = Obj(ci.name, partition=part, step_stack=[inner] if is_open else [Obj('FetchDataframeStep', result=Obj('Result'))], planner=Obj('QueryPlanner', plan=plan))
        stubs = {'self.planner.plan.add_step': lambda it, st: (added.append(st), st)[1], 'Result': lambda it, *a, **k: Obj('Result')}
        it = Interp.for_file(ctx.src, f, isa, stubs, also=('mindsdb_sql/planner/steps.py',))          # the step classes' own constructors
        label = f'partition {"open" if is_open else "closed"}, {kind}, partition_size={psize}'
        try:
            it.call_function(fn, [self_, step], {'partition_size': psize} if psize is not None else {}, Env())
        except Raised as r:
            ctx.ob('C09.no-stale-substep-reference', f'add_plan_step:{label}', r.exc_name in ALLOWED_EXC, f'add_plan_step raises {r.exc_name} [{label}]', file=f, line=fn.lineno)
            continue
        rows += 1
        closed_here = is_open and self_.attrs.get('partition') is not part
        newp = self_.attrs.get('partition')
        to_plan = any(x is step for x in added) or (isinstance(newp, Obj) and newp is not part and any(x is step for x in (newp.attrs.get('step') or [])))
        ctx.ob('C09.no-stale-substep-reference', f'add_plan_step:{label}', not (closed_here and to_plan and kind in ('JoinStep', 'ApplyPredictorStep')),
               f'add_plan_step closes the open partition and then adds the {kind} to the plan / to a new partition [{label}]: such steps are built from the top of step_stack before the '
               f'call, i.e. they hold a reference to the last SUB-step of the container that was just closed, not to the container', file=f, line=fn.lineno,
               witness='... JOIN proj.pred1 p1 JOIN proj.pred2 p2 USING p1.partition_size=10, p2.partition_size=20')
    ctx.setcount('add_plan_step_rows', rows)
    ctx.floor('add_plan_step_rows', 12)


def transfer_quiet(s, st, closing):
    for n in (ast.walk(s) if not isinstance(s, (ast.If, ast.For, ast.While, ast.Try, ast.With)) else
              ast.walk(getattr(s, 'test', None) or getattr(s, 'iter', None) or ast.Pass())):
        if isinstance(n, ast.Call):
            d = norm(n.func)
            if d.startswith('self.') and d[5:] in closing:
                st = 'closed'
    if isinstance(s, ast.Assign) and norm(s.targets[0]) == 'self.partition':
        st = 'closed' if norm(s.value) == 'None' else 'open'
    return st
