"""C14 - in a table-model join the model gets the right rows and arguments, only those.

Decided: the argument / filter split and the shape of the apply step, as truth tables of process_predictor,
join_condition_to_columns_map and the alias attribution (get_table_for_column), interpreted on abstract stand-ins; the
conjunct-only and registered-comparison clauses are C08's analysis re-run.  NOT decided: which rows reach the model for data.
"""
import ast
import itertools

from ..source import AnalysisError, norm
from ..cfg import class_named, function_named
from ..interp import class_members, Interp, Obj, Raised, Env
from .. import core
from .C08 import ISA, ident, const, binop, base_stubs, select_ctor, _show, new_pjt

PJ = 'mindsdb_sql/planner/plan_join.py'


def registered(orig):
    """what check_node_condition stores for a model condition: a copy with the bare column name that remembers the original"""
    c = orig.clone()
    for a in c.args:
        if a.kind == 'Identifier':
            a.parts = [a.parts[-1]]
    c._orig_node = orig
    return c


_METHODS = {}
_CTX = {}


def interp_for(stubs, file=None, **kw):
    """an interpreter that resolves methods and class constants of the planner classes and the module-level names of `file`"""
    return Interp.for_file(_CTX['src'], file or PJ, ISA, stubs, also=('mindsdb_sql/planner/plan_join.py', 'mindsdb_sql/planner/query_planner.py', 'mindsdb_sql/planner/ts_utils.py', 'mindsdb_sql/planner/utils.py'), **kw)


def run(ctx):
    ctx.explanation = (
        'process_predictor is interpreted (fail-closed AST interpreter, abstract stand-ins) on every subset of a family of model conditions '
        '{m.a = 1, 2 = m.b, m.c > 3, m.d = :param, m.<target> = 5, m.e BETWEEN 1 AND 2, m.f != 1} x to_predict metadata forms x USING forms: the '
        'row_dict must hold exactly the equalities with a constant/parameter (either side) except the predict target, a condition is '
        'neutralised in the outer query iff it was consumed, exactly one ApplyPredictorStep is built on the step on top of the stack with '
        'the model\'s own namespace/identifier and pushed once (through the partition when partition_size is given), USING keys are only '
        'lower-cased and stripped of this model\'s alias (any letter case), other models\' options are not taken, values are untouched; '
        'join_condition_to_columns_map maps only equalities between a model column and another table\'s column; the alias attribution is '
        'case-insensitive; conjunct-only / registered comparison = C08\'s tables.')
    ctx.not_decided = ['which rows reach the model for given data', 'QueryPlanner.plan_predictor.split_filters (unreachable from from_query: dead code)']
    tree = ctx.src.tree(PJ)
    cls = class_named(tree, 'PlanJoinTablesQuery')
    ctx.need(cls is not None, 'PlanJoinTablesQuery not found')
    fn = class_members(cls)
    _CTX.update(tree=tree, src=ctx.src)
    from . import C08 as _C08
    _C08._CTX.clear()
    _C08._CTX.update(tree=tree, src=ctx.src, ctx=ctx, pjt_init=fn.get('__init__'))
    for need in ('process_predictor', 'join_condition_to_columns_map', 'get_table_for_column', 'add_plan_step'):
        ctx.need(need in fn, f'PlanJoinTablesQuery.{need} not found')
    pp = fn['process_predictor']
    rows = 0
    # ---- arguments ------------------------------------------------------------------------------------------------------------------------
    def family():
        return {
            'm.a = 1': binop('=', ident('m.a'), const(1)),
            '2 = m.b': binop('=', const(2), ident('m.b')),
            'm.c > 3': binop('>', ident('m.c'), const(3)),
            'm.d = :p': binop('=', ident('m.d'), Obj('Parameter', value='P', alias=None)),
            'm.Price = 5': binop('=', ident('m.Price'), const(5)),
            'm.e BETWEEN': Obj('BetweenOperation', op='between', args=[ident('m.e'), const(1), const(2)], alias=None),
            'm.f != 1': binop('!=', ident('m.f'), const(1)),
            'm.ric = 7': binop('=', ident('m.ric'), const(7)),          # the name is a substring of the target's name
            # the same model column constrained twice (a generated WHERE repeats conjuncts): each conjunct is an argument and none stays a filter
            'm.a = 1 (again)': binop('=', ident('m.a'), const(1)),
            '1 = m.a': binop('=', const(1), ident('m.a')),
        }
    expected_args = {'m.a = 1': ('a', 1), '2 = m.b': ('b', 2), 'm.d = :p': ('d', 'P'), 'm.ric = 7': ('ric', 7), 'm.a = 1 (again)': ('a', 1), '1 = m.a': ('a', 1)}
    names = list(family())
    subsets = [c for r in range(0, 4) for c in itertools.combinations(names, r)] + [tuple(names)]
    for target_form, subset in itertools.product(('price', ['Price'], ['Price', 'ric2'], None, []), subsets):
        fam = family()
        origs = [fam[n] for n in subset]
        item = Obj('TableInfo', integration='proj', table=ident('model'), aliases=[('m',)], conditions=[registered(o) for o in origs],
                   predictor_info={'to_predict': target_form} if target_form is not None else {}, join_condition=None, index=1)
        res = _run_pp(ctx, pp, item, select_ctor(None, using=None), fn)
        rows += 1
        label = f'to_predict={target_form!r} conditions=[{", ".join(subset)}]'
        step = res['apply']
        want = {}
        consumed = set()
        for n in subset:
            if n in expected_args:
                want[expected_args[n][0]] = expected_args[n][1]
                consumed.add(n)
            if n == 'm.Price = 5':
                if target_form in ('price', ['Price'], ['Price', 'ric2']):
                    pass                      # the predict target is neither an argument nor removed from the outer filter
                else:
                    want['Price'] = 5
                    consumed.add(n)
        got = step.row_dict if step is not None else None
        ctx.ob('C14.args', 'row_dict', (got or {}) == want,
               f'[{label}] model arguments are {got}, expected {want}: exactly the equalities between a model column and a constant / parameter '
               f'(either side), except the predict target, become arguments', file=PJ, line=pp.lineno,
               witness='select * from int1.t join proj.model m where m.a = 1 and 2 = m.b and m.c > 3')
        for n, o in zip(subset, origs):
            neutral = len(o.args) == 2 and all(a.kind == 'Constant' and a.value == 0 for a in o.args)
            ctx.ob('C14.consumed-iff-neutralised', n, neutral == (n in consumed),
                   f'[{label}] condition `{n}` is {"" if n in consumed else "not "}passed to the model but is {"" if neutral else "not "}removed from the '
                   f'outer filter: a condition must be either a model argument or a filter of the result, never both or neither', file=PJ, line=pp.lineno)
        _check_apply(ctx, res, item, label, pp)
    # ---- USING ---------------------------------------------------------------------------------------------------------------------------
    using_cases = [
        ({'a': 1}, {'a': 1}, None), ({'A': 1}, {'a': 1}, None), ({'m.b': 2}, {'b': 2}, None), ({'M.B': 2}, {'b': 2}, None),
        ({'other.c': 3}, {}, None), ({'m.x.y': 4}, {'x.y': 4}, None), ({'partition_size': 10, 'a': 1}, {'a': 1}, 10),
        ({'a': {'K': 'V'}, 'b': 'MiXed'}, {'a': {'K': 'V'}, 'b': 'MiXed'}, None), ({}, {}, None), (None, None, None),
    ]
    for using, want, part in using_cases:
        item = Obj('TableInfo', integration='proj', table=ident('model'), aliases=[('m',)], conditions=[], predictor_info={}, join_condition=None, index=1)
        res = _run_pp(ctx, pp, item, select_ctor(None, using=using), fn)
        rows += 1
        step = res['apply']
        got = step.params if step is not None else '<no step>'
        ctx.ob('C14.using', repr(using), got == want,
               f'USING {using}: the model receives params {got}, expected {want} (keys lower-cased, the alias of this model stripped in any letter case, '
               f'options addressed to other models not taken, values untouched, partition_size removed)', file=PJ, line=pp.lineno,
               witness='select * from int1.t join proj.model M using M.b = 2')
        ctx.ob('C14.using', f'{using!r}:partition', res['partition_size'] == part,
               f'USING {using}: partition_size handed to add_plan_step is {res["partition_size"]}, expected {part}', file=PJ, line=pp.lineno)
    # ---- refusals ---------------------------------------------------------------------------------------------------------------------------
    item = Obj('TableInfo', integration='proj', table=ident('model'), aliases=[('m',)], conditions=[], predictor_info={}, join_condition=None, index=0)
    res = _run_pp(ctx, pp, item, select_ctor(None, using=None), fn, stack=[])
    ctx.ob('C14.apply-shape', 'model-first', res['raised'] is not None, 'a model that is the first element of the join has no data to be applied to: must be refused',
           file=PJ, line=pp.lineno)
    item = Obj('TableInfo', integration='proj', table=ident('model'), aliases=[('m',)], conditions=[], predictor_info={'timeseries': True}, join_condition=None, index=1)
    res = _run_pp(ctx, pp, item, select_ctor(None, using=None), fn)
    ctx.ob('C14.apply-shape', 'timeseries-refused', res['raised'] is not None, 'a time-series model must not be planned by the plain model path', file=PJ, line=pp.lineno)
    # ---- columns map ----------------------------------------------------------------------------------------------------------------------
    cm = fn['join_condition_to_columns_map']
    model = Obj('TableInfo', table=ident('model'), aliases=[('m',)], index=1)
    tab = Obj('TableInfo', table=ident('t'), aliases=[('t',)], index=0)
    tab2 = Obj('TableInfo', table=ident('u'), aliases=[('u',)], index=2)
    on_cases = [
        ('t.a = m.x', binop('=', ident('t.a', tab), ident('m.x', model)), {'x': 't.a'}, True),
        ('m.y = t.b', binop('=', ident('m.y', model), ident('t.b', tab)), {'y': 't.b'}, True),
        ('t.a < m.x', binop('<', ident('t.a', tab), ident('m.x', model)), {}, False),
        ('m.y != t.b', binop('!=', ident('m.y', model), ident('t.b', tab)), {}, False),
        ('t.a = u.c', binop('=', ident('t.a', tab), ident('u.c', tab2)), {}, False),
        ('m.x = 1', binop('=', ident('m.x', model), const(1)), {}, False),
        ('NOT (m.x = t.a)', Obj('UnaryOperation', op='not', args=[binop('=', ident('m.x', model), ident('t.a', tab))], alias=None), {}, False),
        ('m.x = t.a OR m.y = t.b', binop('or', binop('=', ident('m.x', model), ident('t.a', tab)), binop('=', ident('m.y', model), ident('t.b', tab))), {}, False),
        ('t.a = m.x AND m.y = t.b', binop('and', binop('=', ident('t.a', tab), ident('m.x', model)), binop('=', ident('m.y', model), ident('t.b', tab))),
         {'x': 't.a', 'y': 't.b'}, True),
    ]
    for label, on, want, consumed in on_cases:
        model.attrs['join_condition'] = on
        stubs = base_stubs()
        stubs['self.get_table_for_column'] = lambda it, c: c.attrs.get('_table') if isinstance(c, Obj) and c.kind == 'Identifier' else None
        it = interp_for(stubs)
        try:
            got = it.call_function(cm, [new_pjt(), model], {}, Env())
        except Raised as r:
            raise AnalysisError(f'join_condition_to_columns_map raises {r.exc_name} on ON {label}')
        rows += 1
        got_txt = {k: _show(v) for k, v in (got or {}).items()}
        ctx.ob('C14.columns-map', label, got_txt == want,
               f'ON {label}: the model\'s column mapping is {got_txt}, expected {want}: only an equality between a model column and a column of another '
               f'table maps one to the other', file=PJ, line=cm.lineno, witness='select * from int1.t join proj.model m on t.a < m.x')
        leaves = [on] if str(on.op) != 'and' else on.args
        if str(on.op) in ('not', 'or'):
            leaves = [x for a_ in on.args for x in ([a_] if a_.kind == 'BinaryOperation' and str(a_.op) == '=' else [])]
        for lf in leaves:
            neutral = all(a.kind == 'Constant' and a.value == 0 for a in lf.args)
            ctx.ob('C14.columns-map', f'{label}:neutralised', neutral == consumed,
                   f'ON {label}: the condition is {"" if neutral else "not "}removed from the join although it is {"" if consumed else "not "}used as column mapping',
                   file=PJ, line=cm.lineno)
    # ---- alias attribution ----------------------------------------------------------------------------------------------------------------------
    gt = fn['get_table_for_column']
    t_m, t_t = Obj('TableInfo', name='m'), Obj('TableInfo', name='t')
    idx = {('m',): t_m, ('t',): t_t, ('proj', 'model'): t_m, ('model',): t_m}
    for parts, want in ((['m', 'a'], t_m), (['M', 'a'], t_m), (['t', 'x'], t_t), (['PROJ', 'Model', 'a'], t_m), (['a'], None), (['zz', 'a'], None)):
        it = interp_for(base_stubs())
        got = it.call_function(gt, [new_pjt(tables_idx=idx), Obj('Identifier', parts=parts, alias=None)], {}, Env())
        rows += 1
        ctx.ob('C14.attribution', '.'.join(parts), got is want,
               f'column {".".join(parts)} is attributed to {got!r}, expected {want!r}: a condition is attributed to a table / model by the alias in front of the '
               f'column, in any letter case', file=PJ, line=gt.lineno)
    got = interp_for(base_stubs()).call_function(gt, [new_pjt(tables_idx=idx), const(1)], {}, Env())
    ctx.ob('C14.attribution', 'constant', got is None, 'a constant belongs to no table', file=PJ, line=gt.lineno)
    # ---- the scope the join planner builds: get_join_sequence + resolve_table interpreted on join members, then get_table_for_column -------------------
    gjs = fn.get('get_join_sequence')
    ctx.need(gjs is not None, 'PlanJoinTablesQuery.get_join_sequence not found')
    for order in ('model first', 'model last'):
        m = Obj('Identifier', parts=['mindsdb', 'sales'], alias=None)                                          # an un-aliased model
        t = Obj('Identifier', parts=['int1', 'sales'], alias=Obj('Identifier', parts=['s'], alias=None))      # a table with the same name, aliased
        u = Obj('Identifier', parts=['int2', 'Orders'], alias=None)
        members = [m, t, u] if order == 'model first' else [t, u, m]
        j = Obj('Join', left=Obj('Join', left=members[0], right=members[1], condition=None, join_type='join', implicit=False, alias=None),
                right=members[2], condition=None, join_type='join', implicit=False, alias=None)
        from .C10 import real_planner
        planner = real_planner(ctx, ['int1', 'int2'], [], default_namespace='mindsdb')
        self_ = new_pjt(planner=planner, tables_idx={}, tables=[])
        stubs = base_stubs()
        stubs['self.planner.get_predictor'] = lambda it, n: ({'name': 'sales'} if n.parts[0].lower() == 'mindsdb' else None)
        stubs['copy.deepcopy'] = lambda it, x: x.clone() if isinstance(x, Obj) else x
        it = interp_for(stubs)
        it.isa.update({'Join': set(), 'Identifier': set()})
        try:
            it.call_function(gjs, [self_, j], {}, Env())
        except Raised as r:
            ctx.ob('C14.attribution', f'scope:{order}', False, f'get_join_sequence raises {r.exc_name} on model JOIN aliased table JOIN table', file=PJ, line=gjs.lineno)
            continue
        infos = {'model mindsdb.sales': None, 'table int1.sales AS s': None, 'table int2.Orders': None}
        for ti in self_.tables:
            key = 'model mindsdb.sales' if ti.attrs.get('predictor_info') else ('table int1.sales AS s' if ti.table.alias is not None else 'table int2.Orders')
            infos[key] = ti
        for col, want in (('sales.horizon', 'model mindsdb.sales'), ('SALES.horizon', 'model mindsdb.sales'), ('mindsdb.sales.horizon', 'model mindsdb.sales'),
                          ('s.x', 'table int1.sales AS s'), ('S.x', 'table int1.sales AS s'), ('orders.y', 'table int2.Orders'), ('int2.orders.y', 'table int2.Orders'),
                          ('x', None), ('zz.x', None)):
            got = interp_for(base_stubs()).call_function(gt, [self_, Obj('Identifier', parts=col.split('.'), alias=None)], {}, Env())
            gname = next((k for k, v in infos.items() if v is got and got is not None), None if got is None else repr(got)[:40])
            rows += 1
            ctx.ob('C14.attribution', f'scope:{order}:{col}', gname == want,
                   f'in `mindsdb.sales JOIN int1.sales AS s JOIN int2.Orders` ({order}) the column {col} is attributed to {gname}, expected {want}: an aliased table is '
                   f'known by its alias, an un-aliased one by the suffixes of its name; a member never takes over the qualifier of another member (a condition on the '
                   f'model would be pushed into the table fetch and the model would lose its argument)', file=PJ, line=gjs.lineno,
                   witness='select * from mindsdb.sales join int1.sales s on ... where sales.horizon = 7')
    check_partition_stack(ctx, fn)
    from .C08 import check_condition_scope
    check_condition_scope(ctx, fn, 'C14.attribution')
    # ---- ... and the scope survives plan_join_tables: a column written with the full name of its table is still that table's after the planner has normalised the
    # identifiers of the query (a table and a model with the same last name, neither aliased)
    pjt_fn = fn.get('plan_join_tables')
    ctx.need(pjt_fn is not None, 'PlanJoinTablesQuery.plan_join_tables not found')
    for order, written in itertools.product(('table first', 'model first'), ('int1.sales.a', 'mindsdb.sales.a', 'INT1.Sales.a')):
        ti_t = Obj('TableInfo', integration='int1', table=ident('sales'), aliases=[('int1', 'sales'), ('sales',)], conditions=[], sub_select=None, predictor_info=None,
                   join_condition=None, join_type=None, index=0)
        ti_m = Obj('TableInfo', integration='mindsdb', table=ident('sales'), aliases=[('mindsdb', 'sales'), ('sales',)], conditions=[], sub_select=None,
                   predictor_info={'name': 'sales'}, join_condition=None, join_type='join', index=1)
        members = [ti_t, ti_m] if order == 'table first' else [ti_m, ti_t]
        idx2 = {}
        for ti in members:
            for al in ti.aliases:
                idx2[al] = ti            # as get_join_sequence registers them: a later member takes over a shared short name
        seq = [members[0], members[1], Obj('Join', join_type='join', condition=None, left=None, right=None, implicit=False)]
        q = select_ctor(None, targets=[Obj('Star')], from_table=Obj('Join'), where=binop('=', ident(written), const(1)))
        stubs = base_stubs()
        stubs['self.planner.get_nested_selects_plan_fnc'] = lambda it, *a, **k: (lambda node, **kw: None)
        stubs['self.get_join_sequence'] = lambda it, node, *a, **k: list(seq)
        holder = {}
        for nm in ('process_table', 'process_predictor', 'process_subselect'):
            stubs[f'self.{nm}'] = lambda it, *a, **k: holder['self'].attrs['step_stack'].append(Obj('Step', result=Obj('Result')))
        stubs['self.close_partition'] = lambda it: None
        stubs['self.check_use_limit'] = lambda it, *a, **k: None
        stubs['self.add_plan_step'] = lambda it, s_, *a, **k: s_
        stubs['JoinStep'] = lambda it, **k: Obj('JoinStep', result=Obj('Result'), **k)
        self_ = holder['self'] = new_pjt(planner=Obj('QueryPlanner', default_namespace='mindsdb'), tables_idx=idx2, tables=list(members), query_context={}, tables_fetch_step={},
                        step_stack=[Obj('Step', result=Obj('Result'))], partition=None)
        it = interp_for(stubs)
        try:
            it.call_function(pjt_fn, [self_, q], {}, Env())
        except Raised as r:
            if r.exc_name not in ('PlanningException', 'IndexError'):
                raise AnalysisError(f'plan_join_tables raises {r.exc_name} on a table and a model of the same name')
        rows += 1
        owner = 'table' if written.lower().startswith('int1') else 'model'
        got_t, got_m = len(ti_t.conditions), len(ti_m.conditions)
        ok = (got_t, got_m) == ((1, 0) if owner == 'table' else (0, 1)) or (got_t, got_m) == (0, 0)
        ctx.ob('C14.attribution', f'normalised:{order}:{written}', ok,
               f'`int1.sales JOIN mindsdb.sales` ({order}), WHERE {written} = 1: after plan_join_tables the condition is registered for the table {got_t}x and for the model '
               f'{got_m}x; it names the {owner} with its full name and may only be attributed to it (or to nobody): normalising the column to a short name both members '
               f'share hands a table filter to the model as an argument', file=PJ, line=pjt_fn.lineno,
               witness='select * from int1.pred join mindsdb.pred where int1.pred.a = 1')
    # ---- conjunct-only / registered comparison: C08's tables ---------------------------------------------------------------------------------------
    from . import C08
    sub = core.Ctx('C08', ctx.src, ctx.tier)
    C08.run(sub)
    rel = ('C08.conjunct-only', 'C08.pushable-shape', 'C08.fetch-filters', 'C08.on-clause-side', 'C08.subselect-kept')
    ctx.setcount('c08_obligations', sum(v[0] for k, v in sub.rules.items() if k in rel))
    ctx.ob('C14.filter-split', 'all', True, '')
    for f in sub.findings:
        if f.rule in rel:
            ctx.ob('C14.filter-split', f'{f.rule}:{f.construct}', False,
                   f'the same collector decides what becomes a model argument and what is pushed into a table fetch: {f.msg}', file=f.file, line=f.line, witness=f.witness)
    # ---- a model is joined as a model only if the planner recognises it: the catalog (projects / models stored lower-cased, looked up case-insensitively, version
    # suffix kept) is C10's - its catalog and model-resolution rules are re-run
    from . import C10
    sub10 = core.Ctx('C10', ctx.src, ctx.tier)
    C10.run(sub10)
    rel10 = ('C10.catalog-store', 'C10.model-resolution', 'C10.lookup', 'C10.compare', 'C10.model-never-fetched', 'C10.version-kept', 'C10.model-identifier')
    ctx.setcount('c10_obligations', sum(v[0] for k, v in sub10.rules.items() if k in rel10))
    ctx.floor('c10_obligations', 30)
    ctx.ob('C14.model-recognised', 'all', True, '')
    for f in sub10.findings:
        if f.rule in rel10:
            ctx.ob('C14.model-recognised', f'{f.rule}:{f.construct}', False,
                   f'a model that is not recognised as a model is joined like a table (no apply-predictor step, its conditions sent to an integration): {f.msg}',
                   file=f.file, line=f.line, witness=f.witness)
    ctx.setcount('truth_table_rows', rows)
    ctx.floor('truth_table_rows', 400)
    ctx.floor('c08_obligations', 60)


def check_partition_stack(ctx, fn):
    """A model with USING partition_size opens a partition (MapReduceStep) whose inner steps stay OUT of the plan; the step stack then holds the partition's last inner
    step.  When the next member of the join is a table / sub-select the partition is complete: afterwards the stack must hold the partition itself (in the place
    of its inner step) and, above it, the step of the new member - so that the next join joins the model's output with the new table.  process_table /
    process_subselect interpreted with the real add_plan_step / close_partition on that state."""
    n = 0
    for meth in ('process_table', 'process_subselect'):
        pt = fn.get(meth)
        if pt is None:
            continue
        inner = Obj('JoinStep', step_num='1_1', result=Obj('Result'))
        partition = Obj('MapReduceStep', step=[inner], step_num=1, result=Obj('Result'))
        added = []
        planner = Obj('QueryPlanner', default_namespace='mindsdb', plan=Obj('QueryPlan', steps=[], add_step=lambda st: (added.append(st), st)[1]))
        fetch = Obj('FetchDataframeStep', result=Obj('Result'))
        stubs = base_stubs()
        stubs['self.get_filters_from_join_conditions'] = lambda it, item: []
        stubs['self.planner.get_integration_select_step'] = lambda it, s_: fetch
        stubs['self.planner.plan_select'] = lambda it, s_, *a, **k: fetch
        stubs['self.planner.plan.add_step'] = lambda it, st: (added.append(st), st)[1]
        stubs['SubSelectStep'] = lambda it, *a, **k: Obj('SubSelectStep', result=Obj('Result'))
        stubs['copy.deepcopy'] = lambda it, x: x.clone() if isinstance(x, Obj) else x
        item = Obj('TableInfo', integration='int2', table=Obj('Identifier', parts=['u'], alias=Obj('Identifier', parts=['b'], alias=None)), aliases=[('b',)], conditions=[],
                   sub_select=Obj('Select', from_table=Obj('Identifier', parts=['x'], alias=None), alias=None, parentheses=True), predictor_info=None, join_condition=None,
                   join_type='join', index=2)
        self_ = new_pjt(planner=planner, query_context={}, tables_fetch_step={}, step_stack=[inner], partition=partition, tables_idx={}, tables=[item])
        q = select_ctor(None, targets=[Obj('Star')], from_table=Obj('Join'))
        it = interp_for(stubs)
        # the bookkeeping entries the method reads are the ones check_query_conditions itself creates (for a query without WHERE)
        cqc = fn.get('check_query_conditions')
        if cqc is not None:
            st0 = base_stubs()
            st0['self.check_node_condition'] = lambda it_, n_: None
            try:
                interp_for(st0).call_function(cqc, [self_, q], {}, Env())
            except Raised as r:
                raise AnalysisError(f'check_query_conditions raises {r.exc_name}')
        self_.attrs['query_context']['use_limit'] = False
        try:
            it.call_function(pt, [self_, item, q][:len(pt.args.args)], {}, Env())
        except Raised as r:
            ctx.ob('C14.partition-stack', meth, False, f'{meth} raises {r.exc_name} when a partition is open', file=PJ, line=pt.lineno)
            continue
        n += 1
        stack = self_.attrs.get('step_stack')
        ok = isinstance(stack, list) and len(stack) == 2 and stack[0] is partition and stack[1] is not partition and stack[1] is not inner \
            and self_.attrs.get('partition') is None
        ctx.ob('C14.partition-stack', meth, ok,
               f'{meth} with an open partition leaves the step stack {[getattr(x, "kind", x) for x in (stack or [])]} (partition '
               f'{"closed" if self_.attrs.get("partition") is None else "still open"}), expected [MapReduceStep, <step of the new member>]: the next join must take the '
               f'output of the partition (all batches of the model) as its left side, not an inner step of the partition', file=PJ, line=pt.lineno,
               witness='select * from int1.t a join proj.model m using partition_size=100 join int2.u b on ...')
    ctx.setcount('partition_stack_rows', n)
    ctx.floor('partition_stack_rows', 2)


def _run_pp(ctx, pp, item, query_in, fn, stack=None):
    data_step = Obj('FetchDataframeStep', result='R-data')
    applied = []
    out = {'apply': None, 'partition_size': None, 'raised': None, 'stack': None, 'n_apply': 0, 'data_step': data_step, 'added': []}

    def apply_ctor(it, **k):
        o = Obj('ApplyPredictorStep', **k)
        applied.append(o)
        return o

    def add_plan_step(it, step, partition_size=None):
        out['added'].append(step)
        out['partition_size'] = partition_size
        return step
    stubs = base_stubs()
    stubs['ApplyPredictorStep'] = apply_ctor
    stubs['self.add_plan_step'] = add_plan_step
    stubs['self.join_condition_to_columns_map'] = lambda it, i: {'mapped': True}
    self_ = new_pjt(step_stack=[Obj('FetchDataframeStep', result='R-older'), data_step] if stack is None else stack,
                planner=Obj('QueryPlanner', default_namespace='mindsdb', predictor_namespace='mindsdb'))
    it = interp_for(stubs)
    try:
        it.call_function(pp, [self_, item, query_in], {}, Env())
    except Raised as r:
        out['raised'] = r.exc_name
    out['n_apply'] = len(applied)
    out['apply'] = applied[0] if applied else None
    out['stack'] = self_.step_stack
    return out


def _check_apply(ctx, res, item, label, pp):
    step = res['apply']
    ok = res['raised'] is None and res['n_apply'] == 1 and step is not None
    ctx.ob('C14.apply-shape', 'one-apply', ok, f'[{label}] expected exactly one ApplyPredictorStep, built {res["n_apply"]} (raised: {res["raised"]})', file=PJ, line=pp.lineno)
    if not ok:
        return
    a = step.attrs
    ctx.ob('C14.apply-shape', 'dataframe', a.get('dataframe') == 'R-data',
           f'[{label}] the model is applied to {a.get("dataframe")!r} instead of the result of the step it is joined to (top of the step stack)', file=PJ, line=pp.lineno)
    ctx.ob('C14.apply-shape', 'namespace', a.get('namespace') == 'proj' and a.get('predictor') is item.table,
           f'[{label}] namespace/predictor of the apply step are not the model\'s own project and identifier', file=PJ, line=pp.lineno)
    ctx.ob('C14.apply-shape', 'pushed-once', res['added'] == [step] and res['stack'][-1] is step and len(res['stack']) == 3,
           f'[{label}] the apply step must be added to the plan once and pushed on the step stack once', file=PJ, line=pp.lineno)
