"""C12 - prepared statements bind placeholders in textual order, like inline literals.

Binding order IS the visiting order of query_traversal (get_query_params and fill_query_params are
thin callbacks over it), so order/once/complete reduce to the walker rules of C13, plus local rules on
the two callbacks and on the count check in PreparedStatementPlanner.
"""
import ast

from ..source import AnalysisError, norm, dotted, walk_no_nested
from ..core import Ctx
from ..cfg import Flow
from ..pymodel import model_for
from . import C13

UTILS = 'mindsdb_sql/planner/utils.py'
PREP = 'mindsdb_sql/planner/query_prepare.py'

INHERIT = {'C13.visit-order': 'C12.textual-order', 'C13.field-unvisited': 'C12.complete',
           'C13.class-dispatched': 'C12.complete', 'C13.visit-once': 'C12.bound-once',
           'C13.replace-exact': 'C12.replaced-in-place', 'C13.callback-first': 'C12.walker-protocol',
           'C13.callback-once': 'C12.walker-protocol', 'C13.guarded-optional': None, 'C13.flags': None}


def _fn(tree, name):
    for n in tree.body:
        if isinstance(n, ast.FunctionDef) and n.name == name:
            return n
    return None


def _traversal_calls(fn):
    return [n for n in ast.walk(fn) if isinstance(n, ast.Call) and dotted(n.func) in ('query_traversal', 'utils.query_traversal')]


def _is_parameter_test(t):
    return isinstance(t, ast.Call) and dotted(t.func) == 'isinstance' and len(t.args) == 2 and \
        (dotted(t.args[1]) or '').split('.')[-1] == 'Parameter'


def check_callback(ctx, fn, role):
    """fn = get_query_params / fill_query_params, interpreted (fail-closed AST interpreter) on a statement whose traversal visits a fixed sequence of
    stand-in nodes: which nodes the callback keeps / replaces, which values go where, what happens to the caller's list."""
    from ..interp import Interp, Obj, Raised, Env
    file = UTILS
    cons = fn.name
    qparam = fn.args.args[0].arg
    calls = _traversal_calls(fn)
    ok = len(calls) == 1 and len(calls[0].args) >= 2 and isinstance(calls[0].args[0], ast.Name) and calls[0].args[0].id == qparam
    ctx.ob('C12.same-walker', f'{cons}:whole-statement', ok,
           f'{cons} does not run exactly one query_traversal over its whole statement argument `{qparam}` '
           f'({[norm(c) for c in calls]}): placeholders outside the traversed part are not {role}',
           file=file, line=fn.lineno)
    if not ok:
        return
    ctx.count('callbacks')
    p1, p2, p3 = Obj('Parameter', value='?', alias=None), Obj('Parameter', value='?', alias=None), Obj('Parameter', value='?', alias=None)
    visits = [Obj('Select'), Obj('Identifier', parts=['a']), p1, Obj('BinaryOperation', op='=', args=[]), p2, Obj('Constant', value=5), Obj('Function', op='f'), p3]
    log = []

    def traverse(it, query, callback, **kw):
        for n in query.attrs['_visits']:
            r = callback(n, is_table=False, is_target=False, parent_query=None, callstack=[])
            log.append((n, r))
        return None
    query = Obj('Select', _visits=visits)
    stubs = {'query_traversal': traverse, 'utils.query_traversal': traverse, 'copy.deepcopy': lambda it, x: list(x) if isinstance(x, list) else x,
             'deepcopy': lambda it, x: list(x) if isinstance(x, list) else x, 'copy.copy': lambda it, x: list(x) if isinstance(x, list) else x,
             'ast.Constant': lambda it, v, *a, **k: Obj('Constant', value=v), 'Constant': lambda it, v, *a, **k: Obj('Constant', value=v)}
    it = Interp({'Parameter': set(), 'Constant': set()}, stubs)
    values = ["O'Brien", 5, 'a\\b "q" %s']
    caller_values = list(values)
    try:
        res = it.call_function(fn, [query] + ([caller_values] if role == 'bound' else []), {}, Env())
    except Raised as r:
        ctx.ob('C12.same-walker', f'{cons}:runs', False, f'{cons} raises {r.exc_name} on a statement with three placeholders', file=file, line=fn.lineno)
        return
    params = [p1, p2, p3]
    pruned_other = [(n, r) for n, r in log if r is not None and not any(n is p for p in params)]
    ctx.ob('C12.same-walker', f'{cons}:prunes-only-at-Parameter', not pruned_other,
           f'{cons}: the callback returns a value for {[n.kind for n, _ in pruned_other]} nodes, which are not placeholders; a non-None return stops the descent '
           f'(and replaces the node), so placeholders below that node are not {role}', file=file, line=fn.lineno)
    # ... and syntactically: every return of a value in the callback is dominated by the isinstance(node, Parameter) test (whatever the node looks like)
    from ..cfg import dominating_conditions
    cbname = calls[0].args[1].id if isinstance(calls[0].args[1], ast.Name) else None
    cb = next((n for n in fn.body if isinstance(n, ast.FunctionDef) and n.name == cbname), None)
    if cb is not None:
        for r in [n for n in walk_no_nested(cb) if isinstance(n, ast.Return)]:
            if r.value is None or (isinstance(r.value, ast.Constant) and r.value.value is None):
                continue
            dom = any(pol and _is_parameter_test(t) for t, pol in dominating_conditions(r, cb))
            ctx.ob('C12.same-walker', f'{cons}:{cbname}:value-only-under-Parameter-test', dom,
                   f'{cons}: the callback returns `{norm(r.value)}` on a path that is not restricted to Parameter nodes; a non-None return stops the descent, so '
                   f'placeholders below that node are not {role}', file=file, line=r.lineno)
    handled = [r for n, r in log if any(n is p for p in params)]
    ctx.ob('C12.same-walker', f'{cons}:handles-Parameter', len(handled) == 3 and all(r is not None for r in handled),
           f'{cons}: the callback does not handle every Parameter node it is shown', file=file, line=fn.lineno)
    if role == 'bound':
        got = [r.value if isinstance(r, Obj) and r.kind == 'Constant' else r for r in handled]
        ctx.ob('C12.fifo', cons, got == values,
               f'{cons}: the placeholders receive {got} for the values {values}: the i-th value must go to the i-th placeholder as a Constant', file=file,
               line=fn.lineno, witness='select ?, ? -- with values [1, 2]')
        ctx.ob('C12.same-walker', f'{cons}:replaces-by-Constant', all(isinstance(r, Obj) and r.kind == 'Constant' for r in handled),
               f'{cons}: a placeholder is not replaced by Constant(<value>)', file=file, line=fn.lineno)
        ctx.ob('C12.private-values', cons, caller_values == values,
               f'{cons} consumes the caller\'s value list (left: {caller_values}): a second execution (or the caller) sees a consumed list', file=file, line=fn.lineno)
        ctx.ob('C12.same-walker', f'{cons}:returns-statement', res is query, f'{cons} must return the statement it filled', file=file, line=fn.lineno)
    else:
        same = isinstance(res, list) and len(res) == 3 and all(a is b for a, b in zip(res, params))
        ctx.ob('C12.same-walker', f'{cons}:returns-collected', same,
               f'{cons} must return the placeholders of the statement in visit order; got {res!r}', file=file, line=fn.lineno)


def check_count(ctx):
    tree = ctx.src.tree(PREP)
    cls = None
    for n in tree.body:
        if isinstance(n, ast.ClassDef) and n.name == 'PreparedStatementPlanner':
            cls = n
    ctx.need(cls is not None, 'PreparedStatementPlanner not found')
    meths = {m.name: m for m in cls.body if isinstance(m, ast.FunctionDef)}
    for need in ('execute_steps', 'prepare_steps', 'get_statement_info'):
        ctx.need(need in meths, f'PreparedStatementPlanner.{need} not found')
    ex = meths['execute_steps']

    def is_count_test(t):
        if isinstance(t, ast.Compare) and len(t.ops) == 1 and isinstance(t.ops[0], (ast.NotEq, ast.Eq)):
            sides = [norm(t.left), norm(t.comparators[0])]
            if all(s.startswith('len(') for s in sides) and any('stmt.params' in s or '.params' in s for s in sides) \
                    and any(s == 'len(params)' for s in sides):
                return 'ne' if isinstance(t.ops[0], ast.NotEq) else 'eq'
        return None

    def transfer(s, st):
        for n in ast.walk(s) if not isinstance(s, (ast.If, ast.For, ast.While, ast.With, ast.Try)) else []:
            if isinstance(n, ast.Call) and (dotted(n.func) or '').split('.')[-1] == 'fill_query_params':
                ctx.count('fill_sites')
                ctx.ob('C12.count-check', 'execute_steps:fill_query_params', st == 'checked',
                       'execute_steps can reach fill_query_params without the test len(params) != len(stmt.params) having '
                       'passed on that path: a wrong number of values is not rejected with PlanningException',
                       file=PREP, line=n.lineno, witness='prepare "select ?, ?" then execute with [1]')
        return st

    def cond(test, st, branch):
        k = is_count_test(test)
        if k:
            equal_branch = (branch is False) if k == 'ne' else (branch is True)
            return 'checked' if equal_branch else 'mismatch'
        return st

    def join(a, b):
        return a if a == b else 'unchecked'
    res = Flow(transfer, join, cond).run(ex, 'unchecked')
    # the mismatch branch must raise PlanningException
    tests = [n for n in ast.walk(ex) if isinstance(n, ast.If) and is_count_test(n.test)]
    ctx.ob('C12.count-check', 'execute_steps:test-exists', len(tests) >= 1,
           'execute_steps has no comparison of len(params) with len(stmt.params)', file=PREP, line=ex.lineno)
    for t in tests:
        k = is_count_test(t.test)
        body = t.body if k == 'ne' else t.orelse
        raises = [s for s in body if isinstance(s, ast.Raise)]
        okr = bool(raises) and isinstance(raises[0].exc, ast.Call) and dotted(raises[0].exc.func) == 'PlanningException'
        ctx.ob('C12.count-check', 'execute_steps:mismatch-raises', okr,
               'the value-count mismatch branch of execute_steps does not raise PlanningException', file=PREP, line=t.lineno)
    # no returns/exits in state 'mismatch'
    for r, st in res.returns:
        ctx.ob('C12.count-check', f'execute_steps:return@{r.lineno - ex.lineno}', st != 'mismatch',
               'execute_steps returns on the path where the number of values does not match', file=PREP, line=r.lineno)
    # the statement filled is the statement prepared
    pr = meths['prepare_steps']
    qp = pr.args.args[1].arg
    stored_query = [n for n in ast.walk(pr) if isinstance(n, ast.Assign) and norm(n.targets[0]) == 'self.planner.query']
    ok1 = bool(stored_query) and all(norm(a.value) == qp for a in stored_query)
    ctx.ob('C12.same-statement', 'prepare_steps:stores-query', ok1,
           f'prepare_steps does not store its statement argument in self.planner.query ({[norm(a) for a in stored_query]})',
           file=PREP, line=pr.lineno)
    gp = [n for n in ast.walk(pr) if isinstance(n, ast.Call) and (dotted(n.func) or '').split('.')[-1] == 'get_query_params']
    ok2 = len(gp) == 1 and len(gp[0].args) == 1 and norm(gp[0].args[0]) == qp
    # ... and the name still denotes the whole statement there: every rebinding of it before the call is a copy of itself
    if ok2:
        rebinds = [n for n in ast.walk(pr) if isinstance(n, ast.Assign) and any(isinstance(t, ast.Name) and t.id == qp for t in n.targets) and n.lineno <= gp[0].lineno]
        rebinds += [n for n in ast.walk(pr) if isinstance(n, (ast.For, ast.AugAssign)) and any(isinstance(x, ast.Name) and x.id == qp for x in ast.walk(n.target))]
        whole = all(isinstance(n, ast.Assign) and norm(n.value) in (f'copy.deepcopy({qp})', f'{qp}.copy()', f'copy.copy({qp})', f'deepcopy({qp})') for n in rebinds)
        ctx.ob('C12.same-statement', 'prepare_steps:collects-from-whole-statement', whole,
               f'prepare_steps rebinds `{qp}` to a part of the statement ({[norm(n)[:50] for n in rebinds if not (isinstance(n, ast.Assign) and "copy" in norm(n.value))]}) before '
               f'collecting the placeholders: placeholders outside that part are neither counted nor bound', file=PREP, line=gp[0].lineno,
               witness='select a from t where b = ? union select a from u where c = ?')
    ctx.ob('C12.same-statement', 'prepare_steps:collects-from-query', ok2,
           f'prepare_steps does not collect placeholders from the statement it was given ({[norm(c) for c in gp]})',
           file=PREP, line=pr.lineno)
    if ok2:
        par = getattr(gp[0], '_parent', None)
        tgt = norm(par.targets[0]) if isinstance(par, ast.Assign) else None
        flows = tgt is not None and any(isinstance(n, ast.Assign) and norm(n.targets[0]) == 'stmt.params' and norm(n.value) == tgt
                                        for n in ast.walk(pr)) or tgt == 'stmt.params'
        ctx.ob('C12.same-statement', 'prepare_steps:stmt.params', bool(flows),
               'prepare_steps does not store the collected placeholders in stmt.params', file=PREP, line=gp[0].lineno)
    # deepcopy between storing and collecting keeps planner.query unbound: accepted either way
    fills = [n for n in ast.walk(ex) if isinstance(n, ast.Call) and (dotted(n.func) or '').split('.')[-1] == 'fill_query_params']
    for c in fills:
        a0 = c.args[0] if c.args else None
        src_ok = False
        if isinstance(a0, ast.Name):
            for n in ast.walk(ex):
                if isinstance(n, ast.Assign) and norm(n.targets[0]) == a0.id and norm(n.value) == 'self.planner.query' \
                        and n.lineno < c.lineno:
                    src_ok = True
        elif a0 is not None and norm(a0) == 'self.planner.query':
            src_ok = True
        ctx.ob('C12.same-statement', 'execute_steps:fills-planner.query', src_ok and len(c.args) == 2 and norm(c.args[1]) == 'params',
               f'execute_steps fills `{norm(a0) if a0 is not None else None}` with `{norm(c.args[1]) if len(c.args) > 1 else None}` '
               f'instead of the prepared statement (self.planner.query) with the caller\'s values', file=PREP, line=c.lineno)
    # get_statement_info: one entry per placeholder
    gi = meths['get_statement_info']
    loops = [n for n in ast.walk(gi) if isinstance(n, ast.For) and norm(n.iter).endswith('.params')]
    ok3 = len(loops) == 1 and not any(isinstance(x, (ast.If, ast.Break, ast.Continue)) for x in ast.walk(loops[0])) and any(
        isinstance(x, ast.Call) and isinstance(x.func, ast.Attribute) and x.func.attr == 'append' for x in ast.walk(loops[0]))
    ctx.ob('C12.reports-n', 'get_statement_info', ok3,
           'get_statement_info does not report exactly one parameter entry per collected placeholder', file=PREP, line=gi.lineno)


def run(ctx):
    ctx.explanation = (
        'Binding order is the visiting order of query_traversal, so the order / exactly-once / completeness clauses are '
        'decided by the walker analysis of C13 (re-run here; its order, completeness, once and store-back findings are '
        'reported as C12 findings), restricted to nothing: every child-carrying field can hold a placeholder. Local rules: '
        'get_query_params and fill_query_params each run one traversal over the whole statement, prune only at Parameter '
        'leaves, fill consumes values first-in-first-out from a private copy and substitutes Constant(value); in '
        'PreparedStatementPlanner the count test dominates fill_query_params (forward dataflow) and its mismatch branch raises '
        'PlanningException; prepare and execute use the same stored statement; get_statement_info reports one entry per '
        'placeholder. NOT decided: that planning the filled statement equals planning the statement with inline literals '
        '(planner behaviour), and call sequences beyond prepare->execute.')
    ctx.not_decided = ['plan equality between filled and inline-literal statements', 're-execution histories']
    ctx.assumptions = ['C13 assumptions (child-carrying fields derived from printers)']
    sub = Ctx('C13', ctx.src, ctx.tier)
    C13.run(sub)
    inherited = 0
    for key in sorted(sub.constructs):
        rule, cons = key.split(':', 1)
        m = INHERIT.get(rule)
        if m is None:
            continue
        failed = [f for f in sub.findings if f.key == key]
        inherited += 1
        if failed:
            f = failed[0]
            ctx.ob(m, cons, False, f.msg + ' - placeholders are bound in visiting order', file=f.file, line=f.line,
                   witness=f.witness)
        else:
            ctx.ob(m, cons, True)
    ctx.setcount('walker_obligations', inherited)
    tree = ctx.src.tree(UTILS)
    g, f = _fn(tree, 'get_query_params'), _fn(tree, 'fill_query_params')
    ctx.need(g is not None and f is not None, 'get_query_params / fill_query_params not found in planner/utils.py')
    check_callback(ctx, g, 'found')
    check_callback(ctx, f, 'bound')
    # Parameter is a leaf
    model = model_for(ctx.src)
    pc = model.get('Parameter')
    ctx.ob('C12.parameter-is-leaf', 'Parameter', not C13.child_fields(model, pc),
           'Parameter has child fields; pruning at a Parameter would skip them', file=pc.file, line=pc.node.lineno)
    check_count(ctx)
    ctx.sample({'collect': norm(_traversal_calls(g)[0]), 'fill': norm(_traversal_calls(f)[0])})
    for k in sorted(sub.constructs):
        if k.startswith('C13.visit-order'):
            ctx.sample({'order_obligation': k.split(':', 1)[1]}, limit=12)
    ctx.floor('walker_obligations', 150)
    ctx.floor('callbacks', 2)
    ctx.floor('fill_sites', 1)
