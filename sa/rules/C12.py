"""C12 - prepared statements bind placeholders in textual order, like inline literals.

Binding order IS the visiting order of query_traversal (get_query_params and fill_query_params are
thin callbacks over it), so order/once/complete reduce to the walker rules of C13, plus local rules on
the two callbacks and on the count check in PreparedStatementPlanner.
"""
import ast
import itertools

from ..source import AnalysisError, norm, dotted, walk_no_nested
from ..core import Ctx
from ..cfg import Flow
from ..pymodel import model_for
from . import C13

UTILS = 'mindsdb_sql/planner/utils.py'
PREP = 'mindsdb_sql/planner/query_prepare.py'

INHERIT = {'C13.visit-order': 'C12.textual-order', 'C13.field-unvisited': 'C12.complete',
           'C13.class-dispatched': 'C12.complete', 'C13.visit-once': 'C12.bound-once',
           'C13.replace-exact': 'C12.replaced-in-place', 'C13.callback-first': 'C12.walker-protocol',
           'C13.callback-once': 'C12.walker-protocol', 'C13.guarded-optional': None, 'C13.flags': None,
           'C13.visit-unconditional': 'C12.complete', 'C13.replacement-kept': 'C12.replaced-in-place'}


def _fn(tree, name):
    for n in tree.body:
        if isinstance(n, ast.FunctionDef) and n.name == name:
            return n
    return None


def _traversal_calls(fn):
    return [n for n in ast.walk(fn) if isinstance(n, ast.Call) and dotted(n.func) in ('query_traversal', 'utils.query_traversal')]


_PREDICATES = {}        # module-level one-line predicates `def f(x): return isinstance(x, ast.Parameter)` of planner/utils.py, filled per run


def _is_parameter_test(t):
    if isinstance(t, ast.Call) and isinstance(t.func, ast.Name) and t.func.id in _PREDICATES and len(t.args) == 1:
        return True
    return isinstance(t, ast.Call) and dotted(t.func) == 'isinstance' and len(t.args) == 2 and \
        (dotted(t.args[1]) or '').split('.')[-1] == 'Parameter'


def check_callback(ctx, fn, role):
    """fn = get_query_params / fill_query_params, interpreted (fail-closed AST interpreter) on a statement whose traversal visits a fixed sequence of
    stand-in nodes: which nodes the callback keeps / replaces, which values go where, what happens to the caller's list."""
    from ..interp import Interp, Obj, Raised, Env
    file = UTILS
    cons = fn.name
    qparam = fn.args.args[0].arg
    calls = _traversal_calls(fn)
    ctx.count('callbacks')
    # `? as x` carries an alias, `(?)` the parentheses mark: both belong to the place in the statement, not to the placeholder
    al_ = Obj('Identifier', parts=['x'], alias=None, parentheses=False)
    p1, p2, p3 = Obj('Parameter', value='?', alias=al_, parentheses=False), Obj('Parameter', value='?', alias=None, parentheses=True), Obj('Parameter', value='?', alias=None,
                                                                                                                                             parentheses=False)
    visits = [Obj('Select'), Obj('Identifier', parts=['a']), p1, Obj('BinaryOperation', op='=', args=[]), p2, Obj('Constant', value=5), Obj('Function', op='f'), p3]
    log = []

    traversed = []

    def traverse(it, query, callback, **kw):
        traversed.append(query)
        if not (isinstance(query, Obj) and '_visits' in query.attrs):
            return None
        for n in query.attrs['_visits']:
            r = callback(n, is_table=False, is_target=False, parent_query=None, callstack=[])
            log.append((n, r))
        return None
    query = Obj('Select', _visits=visits, where=Obj('BinaryOperation', op='=', args=[], _visits=[p2]), targets=[p1], from_table=Obj('Identifier', parts=['t']),
                group_by=None, having=None, order_by=None, limit=None, offset=None, cte=None)
    stubs = {'query_traversal': traverse, 'utils.query_traversal': traverse, 'copy.deepcopy': lambda it, x: list(x) if isinstance(x, list) else x,
             'deepcopy': lambda it, x: list(x) if isinstance(x, list) else x, 'copy.copy': lambda it, x: list(x) if isinstance(x, list) else x,
             'ast.Constant': lambda it, v, *a, **k: Obj('Constant', value=v, alias=k.get('alias'), parentheses=k.get('parentheses', False)),
             'Constant': lambda it, v, *a, **k: Obj('Constant', value=v, alias=k.get('alias'), parentheses=k.get('parentheses', False))}
    it = Interp.for_file(ctx.src, UTILS, {'Parameter': set(), 'Constant': set()}, stubs)
    values = ["O'Brien", 5, 'a\\b "q" %s']
    caller_values = list(values)
    try:
        res = it.call_function(fn, [query] + ([caller_values] if role == 'bound' else []), {}, Env())
    except Raised as r:
        ctx.ob('C12.same-walker', f'{cons}:runs', False, f'{cons} raises {r.exc_name} on a statement with three placeholders', file=file, line=fn.lineno)
        return
    ctx.ob('C12.same-walker', f'{cons}:whole-statement', len(traversed) == 1 and traversed[0] is query,
           f'{cons} does not run exactly one query_traversal over its whole statement argument `{qparam}` (traversed: {[repr(t)[:30] for t in traversed]}): '
           f'placeholders outside the traversed part are not {role}', file=file, line=fn.lineno)
    if not (len(traversed) == 1 and traversed[0] is query):
        return
    params = [p1, p2, p3]
    pruned_other = [(n, r) for n, r in log if r is not None and not any(n is p for p in params)]
    ctx.ob('C12.same-walker', f'{cons}:prunes-only-at-Parameter', not pruned_other,
           f'{cons}: the callback returns a value for {[n.kind for n, _ in pruned_other]} nodes, which are not placeholders; a non-None return stops the descent '
           f'(and replaces the node), so placeholders below that node are not {role}', file=file, line=fn.lineno)
    # ... and syntactically: every return of a value in the callback is dominated by the isinstance(node, Parameter) test (whatever the node looks like)
    from ..cfg import dominating_conditions
    cbname = calls[0].args[1].id if calls and len(calls[0].args) > 1 and isinstance(calls[0].args[1], ast.Name) else None
    cb = next((n for n in fn.body if isinstance(n, ast.FunctionDef) and n.name == cbname), None)
    if cb is not None:
        for r in [n for n in walk_no_nested(cb) if isinstance(n, ast.Return)]:
            if r.value is None or (isinstance(r.value, ast.Constant) and r.value.value is None):
                continue
            dom = any(pol and _is_parameter_test(t) for t, pol in dominating_conditions(r, cb))
            ctx.ob('C12.same-walker', f'{cons}:{cbname}:value-only-under-Parameter-test', dom,
                   f'{cons}: the callback returns `{norm(r.value)}` on a path that is not restricted to Parameter nodes; a non-None return stops the descent, so '
                   f'placeholders below that node are not {role}', file=file, line=r.lineno)
    handled = [r for n, r in log if any(n is p for p in params)]
    ctx.ob('C12.same-walker', f'{cons}:handles-Parameter', len(handled) == 3 and all(r is not None for r in handled),
           f'{cons}: the callback does not handle every Parameter node it is shown', file=file, line=fn.lineno)
    if role == 'bound':
        got = [r.value if isinstance(r, Obj) and r.kind == 'Constant' else r for r in handled]
        ctx.ob('C12.fifo', cons, got == values,
               f'{cons}: the placeholders receive {got} for the values {values}: the i-th value must go to the i-th placeholder as a Constant', file=file,
               line=fn.lineno, witness='select ?, ? -- with values [1, 2]')
        ctx.ob('C12.same-walker', f'{cons}:replaces-by-Constant', all(isinstance(r, Obj) and r.kind == 'Constant' for r in handled),
               f'{cons}: a placeholder is not replaced by Constant(<value>)', file=file, line=fn.lineno)
        kept = [(isinstance(r, Obj) and r.attrs.get('alias') is p.attrs.get('alias') and bool(r.attrs.get('parentheses')) == bool(p.attrs.get('parentheses')))
                for r, p in zip(handled, params)]
        ctx.ob('C12.same-walker', f'{cons}:keeps-alias-and-parentheses', all(kept) and len(kept) == 3,
               f'{cons}: the Constant put in place of a placeholder does not carry the placeholder\'s alias / parentheses mark ({kept}): `select ? as x` bound with 1 must '
               f'plan as `select 1 as x` (it plans as `select 1`), `a in (?)` as `a in (1)` (it becomes `a IN 1`)', file=file, line=fn.lineno,
               witness='prepare "select ? as x from t where a in (?)", execute with [1, 2]')
        ctx.ob('C12.private-values', cons, caller_values == values,
               f'{cons} consumes the caller\'s value list (left: {caller_values}): a second execution (or the caller) sees a consumed list', file=file, line=fn.lineno)
        ctx.ob('C12.same-walker', f'{cons}:returns-statement', res is query, f'{cons} must return the statement it filled', file=file, line=fn.lineno)
    else:
        same = isinstance(res, list) and len(res) == 3 and all(a is b for a, b in zip(res, params))
        ctx.ob('C12.same-walker', f'{cons}:returns-collected', same,
               f'{cons} must return the placeholders of the statement in visit order; got {res!r}', file=file, line=fn.lineno)


def check_count(ctx):
    tree = ctx.src.tree(PREP)
    cls = None
    for n in tree.body:
        if isinstance(n, ast.ClassDef) and n.name == 'PreparedStatementPlanner':
            cls = n
    ctx.need(cls is not None, 'PreparedStatementPlanner not found')
    meths = {m.name: m for m in cls.body if isinstance(m, ast.FunctionDef)}
    for need in ('execute_steps', 'prepare_steps', 'get_statement_info'):
        ctx.need(need in meths, f'PreparedStatementPlanner.{need} not found')
    lifecycle_table(ctx, meths)


def lifecycle_table(ctx, meths):
    """prepare_steps -> get_statement_info -> execute_steps interpreted (sa/interp.py) on one planner stand-in, for statement kinds x number of placeholders x
    number of values: what is collected, stored, reported, checked and filled is compared by object identity."""
    from ..interp import Interp, Obj, Raised, Env
    pr, ex, gi = meths['prepare_steps'], meths['execute_steps'], meths['get_statement_info']
    kinds = ('Select', 'Union', 'Insert', 'Update', 'Delete')
    isa = {k: set() for k in kinds + ('CreateTable', 'Show')}
    nrows = 0
    for kind, n in itertools.product(kinds, (0, 1, 2, 3)):
        placeholders = [Obj('Parameter', value='?', alias=(Obj('Identifier', parts=['p']) if i % 2 else None), _i=i) for i in range(n)]
        query = Obj(kind, left=Obj('Select', _part='left'), right=Obj('Select', _part='right'), targets=[], where=None, _whole=True)
        planner = Obj('QueryPlanner', statement=None, query=None)
        self_ = Obj('PreparedStatementPlanner', planner=planner)
        log = []

        def collect(it, q):
            log.append(('collect', q))
            return placeholders
        stubs = {'utils.get_query_params': collect, 'get_query_params': collect,
                 'copy.deepcopy': lambda it, x: x.clone() if isinstance(x, Obj) else x,
                 'self.prepare_select': lambda it, q: [], 'self.prepare_show': lambda it, q: [], 'self.prepare_insert': lambda it, q: []}
        it = Interp.for_file(ctx.src, PREP, isa, stubs)
        label = f'{kind} with {n} placeholders'
        try:
            it.call_function(pr, [self_, query], {}, Env())
            raised = None
        except Raised as r:
            raised = r.exc_name
        nrows += 1
        stmt = planner.attrs.get('statement')
        collected = [q for what, q in log if what == 'collect']
        ctx.ob('C12.same-statement', f'prepare_steps:stores-query:{label}', raised is None and planner.attrs.get('query') is query,
               f'[{label}] prepare_steps must keep the statement it was given as the prepared statement (planner.query); '
               f'{"it raised " + raised if raised else "planner.query is " + repr(planner.attrs.get("query"))[:60]}', file=PREP, line=pr.lineno)
        whole = len(collected) == 1 and isinstance(collected[0], Obj) and collected[0].kind == kind and collected[0] == query
        ctx.ob('C12.same-statement', f'prepare_steps:collects-from-whole-statement:{label}', whole,
               f'[{label}] prepare_steps must collect the placeholders once, from (a copy of) the whole statement; it collected from '
               f'{[repr(c)[:50] for c in collected]}: placeholders outside that part are neither counted nor bound', file=PREP, line=pr.lineno,
               witness='select a from t where b = ? union select a from u where c = ?')
        ctx.ob('C12.same-statement', f'prepare_steps:stmt.params:{label}', isinstance(stmt, Obj) and stmt.attrs.get('params') is placeholders,
               f'[{label}] prepare_steps must store the collected placeholders in the statement record', file=PREP, line=pr.lineno)
        if not (isinstance(stmt, Obj) and stmt.attrs.get('params') is placeholders):
            continue
        # what is reported
        if 'columns' not in stmt.attrs or not isinstance(stmt.attrs.get('columns'), list):
            stmt.attrs['columns'] = []
        try:
            info = Interp.for_file(ctx.src, PREP, isa, {}).call_function(gi, [self_], {}, Env())
            got_n = len(info['parameters']) if isinstance(info, dict) and isinstance(info.get('parameters'), list) else None
        except Raised as r:
            got_n = f'raises {r.exc_name}'
        ctx.ob('C12.reports-n', f'get_statement_info:{label}', got_n == n,
               f'[{label}] get_statement_info reports {got_n} parameters, expected {n}: one entry per collected placeholder', file=PREP, line=gi.lineno)
        # execution with m values
        for m in sorted({0, max(n - 1, 0), n, n + 1}) + [None]:   # 0 values = the empty list: falsy, and still a number of values
            planner2 = Obj('QueryPlanner', statement=Obj('Statement', params=list(placeholders), columns=[]), query=query, plan=Obj('QueryPlan', steps=['step']))
            self2 = Obj('PreparedStatementPlanner', planner=planner2)
            values = None if m is None else [f'v{i}' for i in range(m)]
            log2 = []
            filled = Obj(kind, _filled=True)

            def from_query(q=None, planner2=planner2, log2=log2):
                # the real planner plans the statement it is handed, or - without one - whatever planner.query holds AT THAT MOMENT
                log2.append(('plan', q if q is not None else planner2.attrs.get('query')))
                return planner2.attrs['plan']
            planner2.attrs['from_query'] = from_query
            stubs2 = {'utils.fill_query_params': lambda it, q, v: (log2.append(('fill', q, v)), filled)[1],
                      'fill_query_params': lambda it, q, v: (log2.append(('fill', q, v)), filled)[1],
                      'copy.deepcopy': lambda it, x: x.clone() if isinstance(x, Obj) else x}
            it2 = Interp.for_file(ctx.src, PREP, isa, stubs2)
            try:
                res2 = it2.call_function(ex, [self2] + ([] if values is None else [values]), {}, Env())
                # the steps are produced lazily: by the time the caller reads them the planner may hold another statement (the next prepare)
                planner2.attrs['query'] = Obj('Update', _another_statement=True)
                if res2 is not None and not isinstance(res2, (list, tuple)):
                    list(res2)
                raised = None
            except Raised as r:
                raised = r.exc_name
            nrows += 1
            fills = [e for e in log2 if e[0] == 'fill']
            plans = [e for e in log2 if e[0] == 'plan']
            lab = f'execute_steps:{label}:{"no values" if m is None else str(m) + " values"}'
            if m is None:
                ok = raised is None and not fills and len(plans) == 1 and isinstance(plans[0][1], Obj) and (
                    plans[0][1] is query or (plans[0][1].kind == kind and plans[0][1] == query))
                msg = 'execution without values plans the prepared statement as it is'
                rule = 'C12.same-statement'
            elif m != n:
                ok = raised == 'PlanningException' and not fills and not plans
                msg = ('a number of values different from the number of placeholders must be refused with PlanningException before anything is filled or planned '
                       '(a wrong number of values is otherwise bound to the wrong placeholders or crashes later)')
                rule = 'C12.count-check'
            else:
                same_stmt = len(fills) == 1 and isinstance(fills[0][1], Obj) and (fills[0][1] is query or (fills[0][1].kind == kind and fills[0][1] == query))
                ok = raised is None and same_stmt and (fills[0][2] is values or fills[0][2] == values) and len(plans) == 1 and plans[0][1] is filled
                if n == 0 and not ok:
                    # nothing to bind: planning the prepared statement as it is is the same thing
                    ok = raised is None and not fills and len(plans) == 1 and isinstance(plans[0][1], Obj) and (
                        plans[0][1] is query or (plans[0][1].kind == kind and plans[0][1] == query))
                msg = 'the prepared statement (planner.query) is filled once with the caller\'s values and the filled statement is what is planned'
                rule = 'C12.same-statement' if (raised is None and fills) else 'C12.count-check'
            ctx.ob(rule, lab, ok,
                   f'[{lab}] {msg}; it {"raised " + raised if raised else "did"} {[(e[0], repr(e[1])[:40]) for e in log2]}', file=PREP, line=ex.lineno,
                   witness='prepare "select ?, ?" then execute with [1]')
            if m == n and n > 0 and ok:
                # a second execution of the same prepared statement: the stored statement was bound by the first one, so new values have nothing to be bound to;
                # it must be refused (any exception), or bind the new values to the statement with its placeholders still in place
                del log2[:]
                values2 = [f'w{i}' for i in range(n)]
                try:
                    it2.call_function(ex, [self2, values2], {}, Env())
                    raised2 = None
                except Raised as r:
                    raised2 = r.exc_name
                nrows += 1
                fills2 = [e for e in log2 if e[0] == 'fill']
                plans2 = [e for e in log2 if e[0] == 'plan']
                rebound = len(fills2) == 1 and fills2[0][1] is not filled and isinstance(fills2[0][1], Obj) and fills2[0][1] == query and fills2[0][2] == values2
                ok2 = (raised2 is not None and not plans2) or (raised2 is None and rebound and len(plans2) == 1)
                ctx.ob('C12.second-execution', f'{label}', ok2,
                       f'[{label}] a second execute_steps with new values on the same prepared statement '
                       f'{"raised " + raised2 if raised2 else "did"} {[(e[0], repr(e[1])[:40]) for e in log2]}: the statement stored by the first execution has no '
                       f'placeholders left, so the new values are dropped and the plan of the FIRST values is returned again', file=PREP, line=ex.lineno,
                       witness='prepare "insert into t values (?, ?)", execute [1, 2], execute [3, 4]')
    ctx.setcount('fill_sites', 1)
    ctx.setcount('lifecycle_rows', nrows)
    ctx.floor('lifecycle_rows', 60)


def run(ctx):
    ctx.explanation = (
        'Binding order is the visiting order of query_traversal, so the order / exactly-once / completeness clauses are '
        'decided by the walker analysis of C13 (re-run here; its order, completeness, once and store-back findings are '
        'reported as C12 findings), restricted to nothing: every child-carrying field can hold a placeholder. Local rules: '
        'get_query_params and fill_query_params each run one traversal over the whole statement, prune only at Parameter '
        'leaves, fill consumes values first-in-first-out from a private copy and substitutes Constant(value); in '
        'PreparedStatementPlanner the count test dominates fill_query_params (forward dataflow) and its mismatch branch raises '
        'PlanningException; prepare and execute use the same stored statement; get_statement_info reports one entry per '
        'placeholder. NOT decided: that planning the filled statement equals planning the statement with inline literals '
        '(planner behaviour), and call sequences beyond prepare->execute.')
    ctx.not_decided = ['plan equality between filled and inline-literal statements', 're-execution histories']
    ctx.assumptions = ['C13 assumptions (child-carrying fields derived from printers)']
    sub = Ctx('C13', ctx.src, ctx.tier)
    C13.run(sub)
    inherited = 0
    for key in sorted(sub.constructs):
        rule, cons = key.split(':', 1)
        m = INHERIT.get(rule)
        if m is None:
            continue
        failed = [f for f in sub.findings if f.key == key]
        inherited += 1
        if failed:
            f = failed[0]
            ctx.ob(m, cons, False, f.msg + ' - placeholders are bound in visiting order', file=f.file, line=f.line,
                   witness=f.witness)
        else:
            ctx.ob(m, cons, True)
    ctx.setcount('walker_obligations', inherited)
    tree = ctx.src.tree(UTILS)
    _PREDICATES.clear()
    for n_ in tree.body:
        if isinstance(n_, ast.FunctionDef) and len(n_.args.args) == 1 and len(n_.body) <= 2 and isinstance(n_.body[-1], ast.Return) and n_.body[-1].value is not None:
            r_ = n_.body[-1].value
            if isinstance(r_, ast.Call) and dotted(r_.func) == 'isinstance' and len(r_.args) == 2 and norm(r_.args[0]) == n_.args.args[0].arg \
                    and (dotted(r_.args[1]) or '').split('.')[-1] == 'Parameter':
                _PREDICATES[n_.name] = n_
    g, f = _fn(tree, 'get_query_params'), _fn(tree, 'fill_query_params')
    ctx.need(g is not None and f is not None, 'get_query_params / fill_query_params not found in planner/utils.py')
    check_callback(ctx, g, 'found')
    check_callback(ctx, f, 'bound')
    # Parameter is a leaf
    model = model_for(ctx.src)
    pc = model.get('Parameter')
    ctx.ob('C12.parameter-is-leaf', 'Parameter', not C13.child_fields(model, pc),
           'Parameter has child fields; pruning at a Parameter would skip them', file=pc.file, line=pc.node.lineno)
    check_count(ctx)
    ctx.sample({'collect': [norm(c) for c in _traversal_calls(g)], 'fill': [norm(c) for c in _traversal_calls(f)]})
    for k in sorted(sub.constructs):
        if k.startswith('C13.visit-order'):
            ctx.sample({'order_obligation': k.split(':', 1)[1]}, limit=12)
    ctx.floor('walker_obligations', 150)
    ctx.floor('callbacks', 2)
    ctx.floor('fill_sites', 1)
