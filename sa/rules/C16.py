"""C16 - queries embedded in MindsDB commands are stored verbatim.

Decided: the stored text is assembled from ALL tokens between the parentheses, IN ORDER, and from the
characters the user wrote.  Not decided: the white-space reconstruction arithmetic (the statement allows
differences in whitespace and comments).
"""
import ast

from ..source import AnalysisError, norm, dotted, walk_no_nested
from ..grammar import load_dialect
from ..lexmodel import spelling
from .C19 import rewritten_value_tokens

UTILS = 'mindsdb_sql/parser/utils.py'
STORE_FIELDS = {'query_str', 'if_query_str', 'query'}
RAW = 'raw_query'


def local_bindings(fn, prod, pvar):
    """names bound to RHS positions by `a, b, c = p._slice` / `x = p._slice[i]` / `x = p[i]` in a raw_query action"""
    env = {}
    for st in fn.body:
        if isinstance(st, ast.Assign) and len(st.targets) == 1:
            t, v = st.targets[0], st.value
            if isinstance(t, (ast.Tuple, ast.List)) and norm(v) == f'{pvar}._slice' and len(t.elts) == len(prod.rhs) and all(isinstance(x, ast.Name) for x in t.elts):
                for i, x in enumerate(t.elts):
                    env[x.id] = ('sym', i)
            elif isinstance(t, ast.Name) and isinstance(v, ast.Subscript) and norm(v.value) == f'{pvar}._slice' and isinstance(v.slice, ast.Constant):
                env[t.id] = ('sym', v.slice.value)
            elif isinstance(t, ast.Name) and isinstance(v, ast.Subscript) and isinstance(v.value, ast.Name) and v.value.id == pvar and isinstance(v.slice, ast.Constant):
                env[t.id] = ('val', v.slice.value)
            elif isinstance(t, ast.Name) and isinstance(v, ast.Attribute) and isinstance(v.value, ast.Name) and v.value.id == pvar and v.attr in prod.names:
                env[t.id] = ('val', prod.names[v.attr])
    return env


def positions(e, prod, pvar='p', env=None):
    """Symbolic value of a raw_query action's return expression: the list of RHS positions it concatenates."""
    env = env or {}
    if isinstance(e, ast.Name) and e.id in env and env[e.id][0] == 'val':
        i = env[e.id][1]
        if prod.rhs[i] == prod.name:
            return [i]
        raise AnalysisError(f'raw_query action: `{e.id}` is the value of a token, not a token list')
    if isinstance(e, ast.Attribute) and e.attr == 'value' and isinstance(e.value, ast.Name) and e.value.id in env and env[e.value.id][0] == 'sym':
        i = env[e.value.id][1]
        if prod.rhs[i] == prod.name:
            return [i]          # the value of the nested raw_query symbol is its token list
        raise AnalysisError(f'raw_query action: `{norm(e)}` is the text of a token, not a token list')
    if isinstance(e, ast.BinOp) and isinstance(e.op, ast.Add):
        return positions(e.left, prod, pvar, env) + positions(e.right, prod, pvar, env)
    if isinstance(e, ast.List):
        out = []
        for x in e.elts:
            if isinstance(x, ast.Subscript) and norm(x.value) == f'{pvar}._slice' and isinstance(x.slice, ast.Constant):
                out.append(x.slice.value)
            elif isinstance(x, ast.Name) and x.id in env and env[x.id][0] == 'sym' and prod.rhs[env[x.id][1]] != prod.name:
                out.append(env[x.id][1])
            elif isinstance(x, ast.Starred):
                out.extend(positions(x.value, prod, pvar, env))         # [*head, *tail]: the elements of a token list, in place
            else:
                raise AnalysisError(f'raw_query action: unmodelled list element `{norm(x)}`')
        return out
    if isinstance(e, ast.Subscript) and isinstance(e.value, ast.Name) and e.value.id == pvar and isinstance(e.slice, ast.Constant):
        i = e.slice.value
        if i < len(prod.rhs) and prod.rhs[i] == prod.name:
            return [i]
        raise AnalysisError(f'raw_query action: `{norm(e)}` is the value of a token, not a token list')
    if isinstance(e, ast.Attribute) and norm(e) == f'{pvar}._slice':
        return list(range(len(prod.rhs)))
    if isinstance(e, ast.Subscript) and norm(e.value) == f'{pvar}._slice' and isinstance(e.slice, ast.Slice):
        # p._slice[a:b] for THIS production (its length is known)
        def bound(x):
            if x is None:
                return None
            if isinstance(x, ast.Constant) and isinstance(x.value, int):
                return x.value
            if isinstance(x, ast.UnaryOp) and isinstance(x.op, ast.USub) and isinstance(x.operand, ast.Constant):
                return -x.operand.value
            raise AnalysisError(f'raw_query action: unmodelled slice bound in `{norm(e)}`')
        if e.slice.step is not None:
            raise AnalysisError(f'raw_query action: slice step in `{norm(e)}`')
        idx = list(range(len(prod.rhs)))[bound(e.slice.lower):bound(e.slice.upper)]
        # positions that hold a nested raw_query are token LISTS inside _slice (symbols), not tokens: only terminals may be taken this way
        return idx
    if isinstance(e, ast.Call) and dotted(e.func) == 'getattr' and len(e.args) == 3 and norm(e.args[0]) == pvar and isinstance(e.args[1], ast.Constant) \
            and isinstance(e.args[2], ast.List) and not e.args[2].elts:
        # getattr(p, 'name', []): the nested list when this production has that symbol, else nothing
        nm = e.args[1].value
        if nm in prod.names and prod.rhs[prod.names[nm]] == prod.name:
            return [prod.names[nm]]
        if nm in prod.names:
            raise AnalysisError(f'raw_query action: `{norm(e)}` is the value of a token, not a token list')
        return []
    if isinstance(e, ast.Attribute) and isinstance(e.value, ast.Name) and e.value.id == pvar and e.attr in prod.names:
        i = prod.names[e.attr]
        if prod.rhs[i] == prod.name:
            return [i]
    raise AnalysisError(f'raw_query action: unmodelled expression `{norm(e)}`')


SENTINELS = ["select {{ a }}, '{{b}} ; x' from T where `Mixed Name` = 'It''s'  -- c", 'SELECT  1;\n\n select 2',
             # characters that mean something to the libraries the text is later handed to (bind-parameter colons, percent signs, backslashes): still the user's text
             "select ts::date, ' :b', 100 % 3 from t where at > '10:30' and n = :p and w like '50\\%'"]


def check_stored_as_rebuilt(ctx, g, embed):
    """Every action that embeds a raw query is interpreted (with the real constructors of the node classes) with tokens_to_string standing in as a function that
    returns a known text: the text the node then holds in query_str / if_query_str / query - and what its printer writes for it - must be that text, character
    for character.  A constructor or an action that `normalises` the text (case, white space, template markers) also rewrites the literals inside it."""
    from ..interp import Interp, Obj, Raised, Env
    from ..grammar import prod_record
    from . import C04
    ast_files = tuple(sorted(f for f in ctx.src.py_files('mindsdb_sql/parser') if '/ast/' in f or f.endswith('create_job.py') or '/dialects/mindsdb/' in f and not f.endswith('parser.py')
                             and not f.endswith('lexer.py')))
    tok_stubs = C04.lexer_token_stubs(ctx)
    n = nskip = 0
    for p_ in embed:
        fn = p_.func
        raws = [i for i, s_ in enumerate(p_.rhs) if s_ == RAW]
        for sent in SENTINELS:
            texts = {}
            values = []
            for i, s_ in enumerate(p_.rhs):
                if s_ == RAW:
                    # a token list as the raw_query rules deliver it: several tokens, the last one a semicolon; the stand-in of tokens_to_string joins the values it
                    # is handed, so a dropped, added or reordered token shows in the text
                    words = ['select', sent + ('' if i == raws[0] else ' /*2*/'), ';']
                    types = ['SELECT', 'QUOTE_STRING', 'SEMICOLON']
                    toks_ = [Obj('Token', type=t_, value=w_, index=k_ * 10, end=k_ * 10 + len(w_), lineno=1) for k_, (t_, w_) in enumerate(zip(types, words))]
                    texts[i] = ' '.join(words)
                    values.append(toks_)
                elif s_ in g.tokens:
                    values.append(spelling(g.lexer, s_) or s_)
                elif s_ == 'identifier':
                    values.append(Obj('Identifier', parts=['n' + str(i)], alias=None, parentheses=False))
                elif s_ in ('if_not_exists_or_empty', 'replace_or_empty'):
                    values.append(False)
                elif s_ == 'result_columns':
                    values.append([Obj('Identifier', parts=['c'], alias=None, parentheses=False)])
                elif s_ == 'column_list':
                    values.append(['c'])
                elif s_ == 'job_schedule':
                    values.append({})
                elif s_ == 'kw_parameter_list':
                    values.append({'k': 1})
                else:
                    values.append(None)
            stubs = dict(tok_stubs)
            given = {id(v): i for i, v in enumerate(values) if p_.rhs[i] == RAW}
            handed = []

            def tts(it, toks, given=given, handed=handed):
                handed.append(given.get(id(toks)))         # which raw token list this is (None: not one of them as it was given)
                return ' '.join(str(t_.attrs.get('value')) for t_ in toks) if isinstance(toks, (list, tuple)) and all(isinstance(t_, Obj) for t_ in toks) else '<not a token list>'
            stubs['tokens_to_string'] = tts
            stubs['utils.tokens_to_string'] = tts
            it = Interp.for_file(ctx.src, g.file, {}, stubs, also=ast_files)
            label = f'[{p_}]:{SENTINELS.index(sent)}'
            try:
                node = it.call_function(fn, [Obj('Parser'), prod_record(p_, values)], {}, Env())
            except Raised as r:
                if r.exc_name == 'ParsingException':
                    continue
                ctx.note(f'{label}: the action raises {r.exc_name} on stand-in values (skipped)')
                nskip += 1
                continue
            except (AnalysisError, TypeError, ValueError, AttributeError, KeyError, IndexError) as e:
                ctx.note(f'{label}: not interpretable on stand-in values ({type(e).__name__}: {str(e)[:90]})')
                nskip += 1
                continue
            if not isinstance(node, Obj):
                nskip += 1
                continue
            n += 1
            held = {k: v for k, v in node.attrs.items() if k in STORE_FIELDS and v is not None}
            ok = sorted(held.values()) == sorted(texts.values()) if all(isinstance(v, str) for v in held.values()) else False
            # every raw token list of the production is rebuilt, each exactly as the grammar delivered it (not sliced, filtered or joined with another one)
            ctx.ob('C16.order-preserving', f'rebuilt:{label}', sorted(x for x in handed if x is not None) == sorted(given.values()) and None not in handed,
                   f'{label}: tokens_to_string is handed {["raw query at position " + str(x) if x is not None else "another list" for x in handed]}; every raw_query of the '
                   f'production ({sorted(given.values())}) must be rebuilt from the unmodified token list', file=g.file, line=fn.lineno)
            if len(raws) == 2:
                first, second = texts[raws[0]], texts[raws[1]]
                ctx.ob('C16.order-preserving', f'two-queries:{label}', held.get('query_str') == first and held.get('if_query_str') == second,
                       f'{label}: the first raw query must be stored as query_str and the second as if_query_str (got {held})', file=g.file, line=fn.lineno,
                       witness='CREATE JOB j (select 1) IF (select 2)')
            ctx.ob('C16.text-is-token-values', f'stored:{label}', ok,
                   f'{label}: the rebuilt text(s) {list(texts.values())} are held by the {node.kind} node as {held}: the stored query is not the text tokens_to_string '
                   f'rebuilt (a rewrite of it also rewrites the string literals inside it)', file=g.file, line=fn.lineno,
                   witness="CREATE JOB j (select '{{a}}')")
    ctx.setcount('stored_text_rows', n)
    ctx.setcount('stored_text_skipped', nskip)
    ctx.floor('stored_text_rows', 60)


def run(ctx):
    ctx.explanation = (
        'Three structural rules on the mindsdb grammar and tokens_to_string. (1) raw-is-all-tokens: the terminals derivable '
        'from raw_query (the statically expanded @_(*all_tokens_list) rule) are all lexer tokens except the parentheses, which '
        'occur only balanced; every lexer rule name is a declared token. (2) order-preserving: each raw_query action returns, '
        'by symbolic evaluation, the concatenation of every RHS position exactly once in RHS order; every embedding action '
        'passes p.raw_query[N] unmodified to tokens_to_string and stores the result in query_str / if_query_str / query, '
        'raw_query0/1 in that order. (3) source-text: no token type admitted by raw_query has a lexer action that rewrites '
        'token.value (tokens_to_string rebuilds text from values); tokens_to_string appends every token value exactly once, '
        'unconditionally, and applies no transformation to the assembled text. NOT decided: the white-space reconstruction '
        'arithmetic from token.index / lineno.')
    ctx.not_decided = ['white-space reconstruction arithmetic of tokens_to_string (whitespace differences are allowed by the statement)']
    ctx.assumptions = ['sly passes the matched source text as token.value unless a lexer action rewrites it']
    g = load_dialect(ctx.src, 'mindsdb')
    lex = g.lexer
    RAW = 'raw_query'
    raw_prods = g.prods_of(RAW)
    ctx.need(raw_prods, 'nonterminal raw_query not found in the mindsdb grammar')
    # (1) -------------------------------------------------------------------------------------------------------------
    terms = set()
    for p in raw_prods:
        for s in p.rhs:
            if s in g.tokens:
                terms.add(s)
    ctx.setcount('raw_query_terminals', len(terms))
    missing = sorted(set(g.tokens) - terms)
    ctx.ob('C16.raw-is-all-tokens', 'tokens-minus-raw', not missing,
           f'token(s) {missing[:6]} cannot occur inside a raw query: an inner query that uses them is a syntax error',
           file=g.file, line=raw_prods[0].line, witness=f'CREATE VIEW v AS (select 1 {missing[0] if missing else ""} 2)')
    for p in raw_prods:
        n_l, n_r = p.rhs.count('LPAREN'), p.rhs.count('RPAREN')
        ok = n_l == n_r and (n_l == 0 or (p.rhs.index('LPAREN') < len(p.rhs) - 1 - p.rhs[::-1].index('RPAREN')))
        ctx.ob('C16.raw-is-all-tokens', f'balanced:{p}', ok,
               f'raw_query production `{p}` admits unbalanced parentheses: the embedded query can swallow the closing parenthesis '
               f'of the command', file=g.file, line=p.line)
    for r in lex.rules:
        nm = r.name[7:] if r.name.startswith('ignore_') else r.name
        if r.name.startswith('ignore_'):
            continue
        ctx.ob('C16.raw-is-all-tokens', f'lexer-rule:{nm}', nm in g.tokens,
               f'lexer rule {nm} is not in the token set of the parser', file=lex.file, line=r.line)
    # (2) -------------------------------------------------------------------------------------------------------------
    for p in raw_prods:
        fn = p.func
        pvar = fn.args.args[1].arg
        rets = [n for n in walk_no_nested(fn) if isinstance(n, ast.Return)]
        ctx.need(len(rets) == 1 and rets[0].value is not None, f'raw_query action at line {fn.lineno} has no single return')
        if p.from_star:
            ok = norm(rets[0].value) == f'{pvar}._slice'
            if not hasattr(ctx, '_star_done'):
                ctx._star_done = True
                ctx.ob('C16.order-preserving', 'raw_query -> <TOKEN>', ok,
                       f'the single-token raw_query action returns `{norm(rets[0].value)}` instead of the token itself',
                       file=g.file, line=fn.lineno)
            continue
        # the action interpreted (sa/interp.py) on a production record: terminals are token objects (p._slice[i] is the token, p[i] its text), a nested
        # raw_query is a list of two token objects; the result must be all of them, once, in RHS order
        from ..interp import Interp as _I, Obj as _O, Raised as _R, Env as _E
        from ..grammar import prod_record
        slice_, values, expected = [], [], []
        for i, s_ in enumerate(p.rhs):
            if s_ == p.name:
                inner = [_O('Token', type='ID', value=f'n{i}a', _pos=i), _O('Token', type='ID', value=f'n{i}b', _pos=i)]
                slice_.append(_O('YaccSymbol', type=s_, value=inner))
                values.append(inner)
                expected.extend(inner)
            else:
                tok = _O('Token', type=s_, value=s_.lower(), _pos=i)
                slice_.append(tok)
                values.append(tok.value)
                expected.append(tok)
        rec = prod_record(p, values)
        rec['_slice'] = slice_
        try:
            got = _I.for_file(ctx.src, g.file, {}, {}).call_function(fn, [_O('Parser'), rec], {}, _E())
            pos = [x.attrs.get('_pos') if isinstance(x, _O) else repr(x)[:20] for x in got] if isinstance(got, (list, tuple)) else repr(got)[:60]
            ok_ = isinstance(got, (list, tuple)) and len(got) == len(expected) and all(a_ is b_ for a_, b_ in zip(got, expected))
        except _R as r_:
            pos, ok_ = f'raises {r_.exc_name}', False
        ctx.ob('C16.order-preserving', f'{p}', ok_,
               f'raw_query action for `{p}` returns the tokens of RHS positions {pos} - every token must be kept exactly once, in order '
               f'(expected {[x.attrs["_pos"] for x in expected]})', file=g.file, line=fn.lineno, witness='CREATE VIEW v AS (select f(a) from t)')
        ctx.count('raw_query_actions')
    embed = [p for p in g.productions[1:] if p.name != RAW and RAW in p.rhs]
    ctx.setcount('embedding_productions', len(embed))
    seen_fn = set()
    for p in embed:
        fn = p.func
        if id(fn) in seen_fn:
            continue
        seen_fn.add(id(fn))
        pvar = fn.args.args[1].arg
        prods = g.prods_of_func(fn)
        ctx.count('embedding_actions')
    check_stored_as_rebuilt(ctx, g, embed)
    # the embedded query is rebuilt from the tokens of the text the LEXER was given: that text must be the caller's (C04's entry rules: parse_sql and any
    # `tokenize` override of the lexer classes hand the text on unchanged)
    from . import C04
    from ..core import Ctx as _Ctx
    sub = _Ctx('C04', ctx.src, ctx.tier)
    C04.check_entry_text(sub)
    C04.check_lexer_entry(sub)
    ctx.setcount('entry_text_rows', len(sub.constructs))
    ctx.floor('entry_text_rows', 1000)
    ctx.ob('C16.source-text', 'entry-text:all', True, '')
    for f_ in sub.findings:
        ctx.ob('C16.source-text', f'entry-text:{f_.construct}', False, f_.msg, file=f_.file, line=f_.line, witness=f_.witness)
    # (3) -------------------------------------------------------------------------------------------------------------
    M = rewritten_value_tokens(lex, ctx.src)
    tree = ctx.src.tree(UTILS)
    tts = None
    for n in tree.body:
        if isinstance(n, ast.FunctionDef) and n.name == 'tokens_to_string':
            tts = n
    ctx.need(tts is not None, 'tokens_to_string not found in mindsdb_sql/parser/utils.py')
    uses_value = any(isinstance(n, ast.Attribute) and n.attr == 'value' for n in ast.walk(tts))
    for tok, sites in sorted(M.items()):
        if tok in terms:
            ctx.ob('C16.source-text', tok, not uses_value,
                   f'the lexer action of {tok} rewrites token.value (`{norm(sites[0])[:70]}`) and tokens_to_string rebuilds the '
                   f'embedded query from token.value: the stored text of a {tok} token is the rewritten value, not what the '
                   f'user wrote', file=lex.file, line=sites[0].lineno,
                   witness="CREATE MODEL m FROM db (SELECT * FROM t WHERE name = '') PREDICT y")
    func_tokens = [r.name for r in lex.rules if r.func is not None and r.name in terms]
    for tok in func_tokens:
        if tok not in M:
            ctx.ob('C16.source-text', tok, True)
    ctx.setcount('function_rule_tokens', len(func_tokens))
    ctx.setcount('value_rewriting_tokens', len(M))
    # tokens_to_string interpreted (fail-closed AST interpreter) on token lists with known source positions: the text must contain every token value, once,
    # in order, separated by nothing but white space, and the gaps inside one line must be the source's
    from ..interp import Interp, Obj, Raised, Env

    from ..lexmodel import master_for
    _master = master_for(lex)

    def toks(spec):
        out_ = []
        for v, ln, ix in spec:
            try:
                ts = _master.types(v)
            except Exception:
                ts = []
            out_.append(Obj('Token', type=ts[0] if len(ts) == 1 else 'T', value=v, lineno=ln, index=ix, end=ix + len(v)))
        return out_
    source_cases = [
        ('one line', "select  a ,b", [('select', 1, 0), ('a', 1, 8), (',', 1, 10), ('b', 1, 11)]),
        ('offset start', "( select 'x  y' )", [('select', 1, 2), ("'x  y'", 1, 9)]),
        ('two lines', "select a\n   from t", [('select', 1, 0), ('a', 1, 7), ('from', 2, 12), ('t', 2, 17)]),
        ('string over lines', "select 'l1\n   l2' x", [('select', 1, 0), ("'l1\n   l2'", 1, 7), ('x', 2, 19)]),
        ('string with a blank line inside', "select 'a\n   \nb' x", [('select', 1, 0), ("'a\n   \nb'", 1, 7), ('x', 3, 16)]),
        ('three lines, blank between', "a\n\n  b", [('a', 1, 0), ('b', 3, 5)]),
        ('single token', "x", [('x', 4, 40)]),
        ('separators and keywords', "retrain p1; Select 1 ;", [('retrain', 1, 0), ('p1', 1, 8), (';', 1, 10), ('Select', 1, 12), ('1', 1, 19), (';', 1, 21)]),
        ('starts with ( and ends with ) - two groups', "(select 1) union (select 2)", [('(', 1, 0), ('select', 1, 1), ('1', 1, 8), (')', 1, 9), ('union', 1, 11),
                                                                                             ('(', 1, 17), ('select', 1, 18), ('2', 1, 25), (')', 1, 26)]),
        ('one group in parentheses', "(select 1)", [('(', 1, 0), ('select', 1, 1), ('1', 1, 8), (')', 1, 9)]),
        ('ends with a call', "select f(a)", [('select', 1, 0), ('f', 1, 7), ('(', 1, 8), ('a', 1, 9), (')', 1, 10)]),
        ('quotes and specials', "where n = '' and m = 'it''s' -- c", [('where', 1, 0), ('n', 1, 6), ('=', 1, 8), ("''", 1, 10), ('and', 1, 13), ('m', 1, 17), ('=', 1, 19),
                                                                       ("'it''s'", 1, 21)]),
    ]
    ctx.setcount('token_text_probes', len(source_cases))
    for label, src_text, spec in source_cases:
        it = Interp.for_file(ctx.src, UTILS, {}, {})
        tl = toks(spec)
        before = [t_.clone() for t_ in tl]
        try:
            out = it.call_function(tts, [tl], {}, Env())
            # the tokens are the parser's own objects (the error reporter reads their positions afterwards): rebuilding the text must not change them
            changed = [b_.attrs.get('value') for t_, b_ in zip(tl, before) if t_ != b_] + (['<list length>'] if len(tl) != len(before) else [])
            ctx.ob('C16.tokens-untouched', f'tokens_to_string:{label}', not changed,
                   f'tokens_to_string changes the tokens it is given ({changed[:3]}; e.g. {next((repr(t_) for t_, b_ in zip(tl, before) if t_ != b_), "")[:80]}): they are shared '
                   f'with the parser and the error reporter, whose echoed lines and caret positions are computed from them', file=UTILS, line=tts.lineno,
                   witness='create model m from db (select a,\n   b from t) predict y windo 5')
        except Raised as r:
            ctx.ob('C16.text-is-token-values', f'tokens_to_string:{label}', False, f'tokens_to_string raises {r.exc_name} on the token list of `{src_text}`', file=UTILS,
                   line=tts.lineno)
            continue
        ok = isinstance(out, str)
        rest = out if ok else ''
        pieces = []
        if ok:
            # consume the token values in order; what lies between them must be white space
            pos = 0
            for v, _, _ in spec:
                i = rest.find(v, pos)
                if i < 0 or rest[pos:i].strip() != '':
                    ok = False
                    break
                pieces.append(rest[pos:i])
                pos = i + len(v)
            if ok and rest[pos:].strip() != '':
                ok = False
        ctx.ob('C16.text-is-token-values', f'tokens_to_string:{label}', ok,
               f'tokens_to_string turns the tokens of `{src_text}` into `{out}`: the stored text must consist of every token value, once, in order, with only white '
               f'space between them (a token skipped, duplicated, re-ordered or edited changes the stored query)', file=UTILS, line=tts.lineno,
               witness="CREATE VIEW v AS (select 'a\n    b')")
        if ok:
            # inside one line the gaps are the source's (token values that contain a newline shift the rest; the statement allows white-space differences
            # between lines only)
            same_line_gaps_ok = True
            for k in range(1, len(spec)):
                (v0, l0, i0), (v1, l1, i1) = spec[k - 1], spec[k]
                if l0 == l1 and '\n' not in v0:
                    if pieces[k] != ' ' * (i1 - (i0 + len(v0))):
                        same_line_gaps_ok = False
            ctx.ob('C16.text-is-token-values', f'tokens_to_string:{label}:gaps', same_line_gaps_ok,
                   f'tokens_to_string does not reproduce the spacing inside a line of `{src_text}` (got `{out}`)', file=UTILS, line=tts.lineno)
    ctx.sample({'raw_query_productions': [str(p) for p in raw_prods if not p.from_star]})
    ctx.sample({'embedding_actions': sorted({p.func.name for p in embed})})
    ctx.floor('raw_query_terminals', 200)
    ctx.floor('raw_query_actions', 3)
    ctx.floor('embedding_actions', 9)
    ctx.floor('embedding_productions', 33)
    ctx.floor('function_rule_tokens', 7)
