"""C11 - a query on one SQL integration is pushed down whole and unchanged in meaning.

Decided: the shape clauses - the gate is the conjunction the statement names (truth table by partial evaluation of both
sibling gates), on acceptance exactly one fetch step is emitted for the gate's integration with the analysed query object
and planning stops, the rewrite callback writes nothing but the qualifier (a function of the identifier's own parts and the
integration name) and the output-name alias, and the walker the rewrite relies on reaches every identifier once (C13's
analysis re-run).  NOT decided: that stripping the qualifier preserves meaning for every query (SQL scope resolution).
"""
import ast
import itertools

from ..source import AnalysisError, norm, dotted, const_str, walk_no_nested
from ..cfg import class_named, function_named, Flow
from .. import peval, core
from ..interp import Interp, Obj, Raised, Env
from .C10 import guards_of, is_len_gt1

QP = 'mindsdb_sql/planner/query_planner.py'
PJ = 'mindsdb_sql/planner/plan_join.py'


def interpret_gate(ctx, fn, file, cls, facts, catalog):
    """Run the gate function (sa/interp.py, fail closed) on abstract facts: get_query_info answers `facts`, the catalog is `catalog`, the rewrite and add_step are
    recorded.  -> dict(result=value, effects=[(callee, args)], query=the analysed query stand-in)"""
    effects = []
    query = Obj('Select', _analysed=True, from_table=Obj('Join', left=Obj('Identifier', parts=['int1', 'a']), right=Obj('Identifier', parts=['int1', 'b'])),
                targets=[Obj('Star')], where=Obj('BinaryOperation', op='in', args=[]), cte=None)

    def add_step(step):
        effects.append(('add_step', [step]))
        return Obj('AddedStep', step=step)

    def info(q):
        effects.append(('get_query_info', [q]))
        return {k: (set(v) if isinstance(v, set) else list(v)) for k, v in facts.items()}
    # the stand-ins of what the gate consults are attributes of the planner stand-in itself, so it does not matter under which name the code reaches them
    planner = Obj('QueryPlanner', integrations=catalog, plan=Obj('QueryPlan', add_step=add_step), query=Obj('Select', _own=True), default_namespace='mindsdb',
                  get_query_info=info,
                  prepare_integration_select=lambda *a: effects.append(('prepare_integration_select', list(a))))
    stubs = {'FetchDataframeStep': lambda it, *a, **k: Obj('FetchDataframeStep', _pos=a, **k)}
    it = Interp.for_file(ctx.src, file, {}, stubs, also=(PJ, QP))
    self_ = planner if cls == 'QueryPlanner' else Obj('PlanJoin', planner=planner)
    try:
        res = it.call_function(fn, [self_, query], {}, Env())
    except Raised as r:
        effects.append(('raise', [r.exc_name]))
        res = f'<{r.exc_name}>'
    return dict(result=res, effects=effects, query=query)


def gate_rows(ctx):
    """the decision table of both single-integration gates (which cases are accepted, which integration is returned, that the whole query is classified)
    -> [(construct, ok, message, file, line)] - also used by C10 (a query sent as a whole must not mention a table that belongs elsewhere)"""
    tq = ctx.src.tree(QP)
    tj = ctx.src.tree(PJ)
    qp = class_named(tq, 'QueryPlanner')
    pj = class_named(tj, 'PlanJoin')
    out = []
    for name, fn, file in (('QueryPlanner.check_single_integration', function_named(qp, 'check_single_integration') if qp else None, QP),
                           ('PlanJoin.check_single_integration', function_named(pj, 'check_single_integration') if pj else None, PJ)):
        ctx.need(fn is not None, f'{name} not found')
        for facts, catalog, want, label in fact_space():
            r = interpret_gate(ctx, fn, file, name.split('.')[0], facts, catalog)
            accepted = bool(r['result']) and not (isinstance(r['result'], str) and r['result'].startswith('<'))
            out.append((f'{name}:{label}', accepted == want,
                        f'{name} {"accepts" if accepted else "refuses"} the case [{label}] but the whole-query pushdown is defined for exactly: no MindsDB entities, one '
                        f'integration that is not files/views, no user-defined functions, not an api-type integration', file, fn.lineno))
            asked = [e[1][0] for e in r['effects'] if e[0] == 'get_query_info']
            out.append((f'{name}:classifies-whole-query', len(asked) >= 1 and all(a is r['query'] for a in asked),
                        f'{name} classifies {[repr(a)[:40] for a in asked] or "nothing"} instead of the query it decides about: a table of another integration (or a model) '
                        f'in a part that is not looked at is sent along inside the single query', file, fn.lineno))
    return out


def _class_method_names(cls):
    return [m.name for m in cls.body if isinstance(m, ast.FunctionDef)]


def fact_space():
    for ent, ints, udf, ct, preds in itertools.product(
            ([], ['e']), (set(), {'int1'}, {'files'}, {'views'}, {'int1', 'int2'}, {'pg_views'}, {'datafiles'}), ([], ['f']), ('api', 'sql', 'no-class-type', 'not-in-catalog'), ([], ['p'])):
        facts = {'mdb_entities': ent, 'integrations': ints, 'predictors': preds, 'user_functions': udf}
        catalog = {}
        for n in ('int1', 'int2', 'files', 'views', 'pg_views', 'datafiles'):        # the last two: ordinary SQL databases whose names merely contain files / views
            catalog[n] = {'name': n}
        if ct == 'api':
            catalog['int1']['class_type'] = 'api'
        elif ct == 'sql':
            catalog['int1']['class_type'] = 'sql'
        elif ct == 'not-in-catalog':
            del catalog['int1']
        want = ent == [] and udf == [] and ((ints == {'int1'} and ct != 'api') or ints in ({'pg_views'}, {'datafiles'}))
        label = f"entities={len(ent)} integrations={sorted(ints)} udf={len(udf)} class_type={ct}" + (' table-named-like-a-model' if preds else '')
        yield facts, catalog, want, label


def run(ctx):
    ctx.explanation = (
        'C11.gate: both sibling gates (QueryPlanner.check_single_integration, PlanJoin.check_single_integration) are interpreted on '
        'the full space of abstract facts {MindsDB entities present, integration set in {none, one, files, views, two}, UDF present, '
        'class_type in {api, sql, absent, not in catalog}, a table whose name coincides with a model} (160 rows each) and must accept exactly the rows the statement names; '
        'C11.one-step: on every accepting row the effects are exactly prepare_integration_select(<gate integration>, <analysed query>) '
        'followed by one add_step(FetchDataframeStep(integration=<gate integration>, query=<analysed query>)) and the caller returns at '
        'once (from_query returns self.plan, PlanJoin.plan returns the step) - on refusing rows no effect at all; '
        'C11.rewrite-write-set: the rewrite callback stores nothing but node.parts and node.alias and returns None on every path; '
        'C11.rewrite-table: prepare_integration_select interpreted on ~480 probe identifiers (shape x position flags x alias x FROM kind x '
        'another table aliased like the integration) removes exactly the integration qualifier and adds exactly the output-name alias; '
        'C11.classification: get_query_info interpreted on 13 probe queries (CTE names, projects, integrations in any letter case); '
        'C11.walker: C13\'s walker analysis is re-run and its findings are qualifier-strip holes.')
    ctx.not_decided = ['meaning preservation of the qualifier removal for every query (needs SQL scope resolution)',
                       'execution on the integration']
    tq = ctx.src.tree(QP)
    tj = ctx.src.tree(PJ)
    qp = class_named(tq, 'QueryPlanner')
    pj = class_named(tj, 'PlanJoin')
    ctx.need(qp is not None and pj is not None, 'QueryPlanner / PlanJoin not found')
    gates = [('QueryPlanner.check_single_integration', function_named(qp, 'check_single_integration'), 'self', QP),
             ('PlanJoin.check_single_integration', function_named(pj, 'check_single_integration'), 'self.planner', PJ)]
    nrows = 0
    for name, fn, gself, file in gates:
        ctx.need(fn is not None, f'{name} not found')
        for facts, catalog, want, label in fact_space():
            r = interpret_gate(ctx, fn, file, name.split('.')[0], facts, catalog)
            accepted = bool(r['result'])
            nrows += 1
            ctx.ob('C11.gate', f'{name}:{label}', accepted == want,
                   f'{name} {"accepts" if accepted else "refuses"} the case [{label}] but the whole-query pushdown is defined for exactly: no '
                   f'MindsDB entities, one integration that is not files/views, no user-defined functions, not an api-type integration',
                   file=file, line=fn.lineno)
            # the facts the gate decides on are those of the WHOLE query (tables in WHERE / targets sub-selects included), not of a part of it
            asked = [e[1][0] for e in r['effects'] if e[0] == 'get_query_info']
            ctx.ob('C11.gate', f'{name}:classifies-whole-query', len(asked) >= 1 and all(a is r['query'] for a in asked),
                   f'{name} classifies {[repr(a)[:40] for a in asked] or "nothing"} instead of the query it decides about: a table of another integration (or a model) in a '
                   f'part that is not looked at is sent along inside the single query', file=file, line=fn.lineno,
                   witness='select * from int1.a join int1.b on a.id = b.id where a.x in (select y from int2.c)')
            effs = [e for e in r['effects'] if e[0] in ('add_step', 'prepare_integration_select')]
            if name.startswith('QueryPlanner'):
                if not accepted:
                    ctx.ob('C11.one-step', f'{name}:refuse-no-effect', not effs,
                           f'{name} refuses [{label}] but has already {"; ".join(e[0] for e in effs)}: the query object or the plan is modified on a refused pushdown',
                           file=file, line=fn.lineno)
                elif want:
                    _check_effects(ctx, name, fn, r, effs, file, label, sorted(facts['integrations'])[0])
            else:
                ctx.ob('C11.one-step', f'{name}:pure', not effs, f'{name} is expected to decide only', file=file, line=fn.lineno)
                if accepted and want:
                    ctx.ob('C11.gate', f'{name}:returns-integration:{label}', [r['result']] == sorted(facts['integrations']),
                           f'{name} returns {r["result"]!r} instead of the single integration', file=file, line=fn.lineno)
    ctx.setcount('gate_rows', nrows)
    # PlanJoin.plan and QueryPlanner.from_query, interpreted with the gate's answer given: on acceptance nothing but the one fetch happens --------------
    plan = function_named(pj, 'plan')
    ctx.need(plan is not None, 'PlanJoin.plan not found')

    class Delegate:
        _interp_safe = True

        def __init__(self, name, log):
            self.name, self.log = name, log

        def plan(self, *a, **k):
            self.log.append((f'{self.name}.plan', list(a)))
            return Obj('DelegatedStep')
    for answer in ('int1', None):
        effects = []
        query = Obj('Select', _analysed=True)

        def add_step(step):
            effects.append(('add_step', [step]))
            return Obj('AddedStep', step=step)
        planner = Obj('QueryPlanner', plan=Obj('QueryPlan', add_step=add_step), integrations={'int1': {}},
                      prepare_integration_select=lambda *a: effects.append(('prepare_integration_select', list(a))))
        stubs = {'self.check_single_integration': lambda it, q: (effects.append(('gate', [q])), answer)[1],
                 'self.is_timeseries': lambda it, q: False,
                 'FetchDataframeStep': lambda it, *a, **k: Obj('FetchDataframeStep', _pos=a, **k),
                 'PlanJoinTSPredictorQuery': lambda it, *a: Delegate('PlanJoinTSPredictorQuery', effects),
                 'PlanJoinTablesQuery': lambda it, *a: Delegate('PlanJoinTablesQuery', effects)}
        it = Interp.for_file(ctx.src, PJ, {}, stubs)
        try:
            res = it.call_function(plan, [Obj('PlanJoin', planner=planner), query], {}, Env())
        except Raised as r:
            res = f'<{r.exc_name}>'
        kinds = [e[0] for e in effects]
        ctx.ob('C11.one-step', 'PlanJoin.plan:gate-first', kinds[:1] == ['gate'] and effects[0][1][0] is query and kinds.count('gate') == 1,
               f'PlanJoin.plan must consult the single-integration gate once, with the query, before anything else; it did {kinds}', file=PJ, line=plan.lineno)
        if answer:
            r = dict(result=res, query=query)
            _check_effects(ctx, 'PlanJoin.plan', plan, r, [e for e in effects if e[0] != 'gate'], PJ, 'the gate accepted')
        else:
            ctx.ob('C11.one-step', 'PlanJoin.plan:refuse-no-effect', not [k for k in kinds if k in ('prepare_integration_select', 'add_step')],
                   f'PlanJoin.plan: the gate refused but the query was rewritten / fetched by plan() itself: {kinds}', file=PJ, line=plan.lineno)
    fq = function_named(qp, 'from_query')
    ctx.need(fq is not None, 'from_query not found')
    for kind, accept in itertools.product(('Select', 'Union', 'Except', 'Intersect'), (True, False)):
        effects = []
        query = Obj(kind, _analysed=True)
        stubs = {'QueryPlan': lambda it, *a, **k: Obj('QueryPlan', _new=True),
                 'self.check_single_integration': lambda it, q: (effects.append(('gate', [q])), Obj('AddedStep') if accept else None)[1]}
        for m in _class_method_names(qp):
            if m.startswith('plan_'):
                stubs[f'self.{m}'] = (lambda m_: (lambda it, *a, **k: effects.append((m_, list(a)))))(m)
        it = Interp.for_file(ctx.src, QP, {k: set() for k in ('Select', 'Union', 'Except', 'Intersect')}, stubs)
        self_ = Obj('QueryPlanner', query=Obj('Select', _own=True), plan=None)
        try:
            res = it.call_function(fq, [self_, query], {}, Env())
        except Raised as r:
            res = f'<{r.exc_name}>'
        kinds = [e[0] for e in effects]
        new_plan = self_.attrs.get('plan')
        if accept:
            ok = kinds == ['gate'] and effects[0][1][0] is query and isinstance(res, Obj) and res is new_plan and res.attrs.get('_new')
            msg = (f'from_query({kind}) with an accepting gate must consult check_single_integration(query) once and return the (new) plan at once; it did {kinds} '
                   f'and returned {res!r}')
        else:
            ok = kinds[:1] == ['gate'] and kinds.count('gate') == 1 and len(kinds) == 2 and effects[1][1][:1] == [query] and res is new_plan
            msg = f'from_query({kind}) with a refusing gate must go on to plan the same query once; it did {kinds}'
        ctx.ob('C11.one-step', f'from_query:{kind}:{"accepted" if accept else "refused"}', ok, msg, file=QP, line=fq.lineno)
    # rewrite write-set -------------------------------------------------------------------------------------------------------
    pis = function_named(qp, 'prepare_integration_select')
    ctx.need(pis is not None, 'prepare_integration_select not found')
    cbs = [n for n in pis.body if isinstance(n, ast.FunctionDef)]
    methods_ = {m.name: m for m in qp.body if isinstance(m, ast.FunctionDef)}
    # the callback may also be a method of the planner with its leading arguments bound: functools.partial(self._m, database) / self._m
    bound_cbs = []          # (method, name of its node parameter, text of the callback expression)
    for c_ in [n for n in walk_no_nested(pis) if isinstance(n, ast.Call) and dotted(n.func) == 'query_traversal' and len(n.args) > 1]:
        e_ = c_.args[1]
        nbound = 0
        if isinstance(e_, ast.Call) and (dotted(e_.func) or '').split('.')[-1] == 'partial' and e_.args:
            nbound = len(e_.args) - 1
            target = e_.args[0]
        else:
            target = e_
        if isinstance(target, ast.Attribute) and isinstance(target.value, ast.Name) and target.value.id in ('self', 'cls') and target.attr in methods_:
            m_ = methods_[target.attr]
            decos_ = {norm(d) for d in m_.decorator_list}
            params_ = [a.arg for a in m_.args.args]
            if 'staticmethod' not in decos_:
                params_ = params_[1:]
            if nbound < len(params_):
                bound_cbs.append((m_, params_[nbound], norm(e_)))
    ctx.need(len(cbs) + len(bound_cbs) >= 1, 'prepare_integration_select: callback not found')
    trav = [n for n in walk_no_nested(pis) if isinstance(n, ast.Call) and dotted(n.func) == 'query_traversal']
    ctx.need(len(trav) >= 1, 'prepare_integration_select: query_traversal call not found')
    qparam = pis.args.args[2].arg
    dbparam = pis.args.args[1].arg
    for t in trav:
        ctx.ob('C11.rewrite-write-set', 'traversal-target', norm(t.args[0]) == qparam,
               f'prepare_integration_select rewrites `{norm(t.args[0])}` instead of the query it was given', file=QP, line=t.lineno)
    used_cb = {norm(t.args[1]) for t in trav if len(t.args) > 1}
    nw = 0
    mod_fns = {n.name: n for n in ctx.src.tree(QP).body if isinstance(n, ast.FunctionDef)}

    def writes_of(fn_, node, seen):
        """(statement, canonical target text) of every store / mutating call in fn_ and in the module-level helpers it hands the node to; local names bound once
        to an attribute of the node are read as that attribute (`parts = node.parts; parts.pop(0)`)"""
        alias = {}
        for n in walk_no_nested(fn_):
            if isinstance(n, ast.Assign) and len(n.targets) == 1 and isinstance(n.targets[0], ast.Name) and isinstance(n.value, ast.Attribute) \
                    and norm(n.value.value) == node:
                alias[n.targets[0].id] = f'NODE.{n.value.attr}'
        out = []

        def canon(e):
            t = norm(e)
            if isinstance(e, ast.Name) and e.id in alias:
                return alias[e.id]
            if t == node or t.startswith(node + '.') or t.startswith(node + '['):
                return 'NODE' + t[len(node):]
            return t
        for n in walk_no_nested(fn_):
            tgt = None
            if isinstance(n, (ast.Assign, ast.AugAssign)):
                for t in (n.targets if isinstance(n, ast.Assign) else [n.target]):
                    if isinstance(t, (ast.Attribute, ast.Subscript)):
                        tgt = t
            if isinstance(n, ast.Call) and isinstance(n.func, ast.Attribute) and n.func.attr in ('pop', 'append', 'insert', 'remove', 'extend', 'clear', 'update', 'add') \
                    and (not isinstance(n.func.value, ast.Name) or n.func.value.id in alias):
                tgt = n.func.value
            if isinstance(n, ast.Call) and dotted(n.func) in ('setattr', 'delattr'):
                tgt = n
            if tgt is not None:
                out.append((n, canon(tgt)))
            if isinstance(n, ast.Call) and isinstance(n.func, ast.Name) and n.func.id in mod_fns and n.func.id not in seen:
                callee = mod_fns[n.func.id]
                for i_, a_ in enumerate(n.args):
                    if isinstance(a_, ast.Name) and a_.id == node and i_ < len(callee.args.args):
                        out += writes_of(callee, callee.args.args[i_].arg, seen | {n.func.id})
            # ... and in the methods of the planner it hands the node to (self._m(node) / cls._m(node, ...))
            if isinstance(n, ast.Call) and isinstance(n.func, ast.Attribute) and isinstance(n.func.value, ast.Name) and n.func.value.id in ('self', 'cls') \
                    and n.func.attr in methods_ and n.func.attr not in seen:
                callee = methods_[n.func.attr]
                cps = [a.arg for a in callee.args.args]
                if 'staticmethod' not in {norm(d) for d in callee.decorator_list}:
                    cps = cps[1:]
                for i_, a_ in enumerate(n.args):
                    if isinstance(a_, ast.Name) and a_.id == node and i_ < len(cps):
                        out += writes_of(callee, cps[i_], seen | {n.func.attr})
        return out
    for cb, node in [(cb, cb.args.args[0].arg) for cb in cbs if cb.name in used_cb] + [(m_, pn_) for m_, pn_, _txt in bound_cbs]:
        for n, txt in writes_of(cb, node, frozenset()):
            nw += 1
            if txt == 'NODE.parts' and isinstance(n, ast.Call) and n.func.attr == 'pop':
                pass        # when and what is removed: decided by the truth table (C11.rewrite-table)
            elif txt == 'NODE.alias' and isinstance(n, ast.Assign):
                pass        # when and which alias is added: decided by the truth table
            else:
                ctx.ob('C11.rewrite-write-set', f'foreign-write:{txt}', False,
                       f'the rewrite callback modifies `{txt}`: the pushed query must differ from the original only by the removed qualifier and the '
                       f'output-name aliases', file=QP, line=n.lineno)
        for r in [n for n in walk_no_nested(cb) if isinstance(n, ast.Return)]:
            ctx.ob('C11.rewrite-write-set', 'returns-none', r.value is None or (isinstance(r.value, ast.Constant) and r.value.value is None),
                   f'the rewrite callback returns `{norm(r.value) if r.value else None}`: query_traversal replaces the node with it', file=QP, line=r.lineno)
    ctx.setcount('callback_writes', nw)
    from .C10 import rewrite_table, query_info_table
    for label, ok, msg, line in query_info_table(ctx):
        ctx.ob('C11.classification', label, ok, 'the single-integration gate decides on this classification: ' + msg, file=QP, line=line,
               witness='with Sales as (select * from int1.t) select * from Sales')
    table = rewrite_table(ctx)
    ctx.setcount('rewrite_rows', len(table))
    for label, ok, msg, line in table:
        ctx.ob('C11.rewrite-table', label, ok, msg, file=QP, line=line, witness='select int1.tbl1.* from int1.tbl1')
    # walker (C13's analysis) -------------------------------------------------------------------------------------------------
    from . import C13
    sub = core.Ctx('C13', ctx.src, ctx.tier)
    C13.run(sub)
    rel = ('C13.field-unvisited', 'C13.visit-once', 'C13.flags', 'C13.class-dispatched', 'C13.replace-exact', 'C13.callback-first', 'C13.callback-once',
           'C13.visit-unconditional')
    ctx.setcount('walker_obligations', sum(v[0] for k, v in sub.rules.items() if k in rel))
    bad = [f for f in sub.findings if f.rule in rel]
    ctx.ob('C11.walker', 'all', True, '')
    for f in bad:
        ctx.ob('C11.walker', f'{f.rule}:{f.construct}', False,
               f'the qualifier rewrite and the single-integration gate rely on query_traversal: {f.msg}', file=f.file, line=f.line, witness=f.witness)
    ctx.floor('gate_rows', 320)
    ctx.floor('callback_writes', 2)
    ctx.floor('walker_obligations', 100)


def _check_effects(ctx, name, fn, r, effs, file, label, the_int='int1'):
    qparam = fn.args.args[1].arg
    kinds = [e[0] for e in effs]
    ok = kinds == ['prepare_integration_select', 'add_step']
    detail = ''
    step = None
    if ok:
        prep, add = effs
        ok = len(prep[1]) == 2 and prep[1][0] == the_int and prep[1][1] is r['query']
        step = add[1][0]
        if ok and isinstance(step, Obj) and step.kind == 'FetchDataframeStep':
            kw = {k: v for k, v in step.attrs.items() if not k.startswith('_')}
            ok = set(kw) == {'integration', 'query'} and kw['integration'] == the_int and kw['query'] is r['query'] and not step.attrs.get('_pos')
            detail = f'FetchDataframeStep({sorted(kw)})'
        else:
            ok = False
    ctx.ob('C11.one-step', f'{name}:accept-effects', ok,
           f'{name} on [{label}]: expected exactly prepare_integration_select(<the integration>, {qparam}) then one '
           f'add_step(FetchDataframeStep(integration=<the integration>, query={qparam})); found {kinds} {detail}', file=file, line=fn.lineno)
    res = r['result']
    ctx.ob('C11.one-step', f'{name}:returns-step', isinstance(res, Obj) and res.kind == 'AddedStep' and res.attrs.get('step') is step,
           f'{name} must return the added step (truthy) on acceptance', file=file, line=fn.lineno)
