"""C20 - calls are isolated: same input, same result, whatever ran before or alongside.

Interleavings and hash seeds cannot be enumerated statically.  Isolation is decided by the standard
static argument: a result can depend on history or on another thread only through state that outlives
the call.  The check computes that state and every write to it.
"""
import ast

from ..source import AnalysisError, norm, dotted, walk_no_nested, enclosing_class, const_str
from ..shared import scan_file, import_time_only, CACHE_DECORATORS, _mutable_value
from ..pymodel import model_for
from ..grammar import load_dialect
from ..lalr import tables_for
from ..suggest import suggest_for

INIT = 'mindsdb_sql/__init__.py'
STATEFUL_BASES = ('Lexer', 'Parser', 'SqlalchemyRender', 'QueryPlanner', 'ErrorHandling', 'PreparedStatementPlanner',
                  'PlanJoin', 'PlanJoinTablesQuery', 'PlanJoinTSPredictorQuery', 'QueryPlan')


def files_of(ctx):
    return [f for f in ctx.src.py_files('mindsdb_sql', 'sly') if not f.startswith('sly/docs')]


# ---- (1) shared writes ------------------------------------------------------------------------------------

def monotone_idempotent(ctx, file, site):
    """A mutation of a module global is harmless when the values added are a function of import-time constants only
    (no parameter, no self, no call argument) and the operation only grows a set: discharge is re-derived each run."""
    tree = ctx.src.tree(file)
    fn = None
    for n in ast.walk(tree):
        if isinstance(n, ast.FunctionDef) and any(x is site.node for x in ast.walk(n)):
            fn = n
    if fn is None or site.detail not in ('add', 'update'):
        return False, 'not a set add/update'
    params = {a.arg for a in fn.args.args + fn.args.kwonlyargs}
    if fn.args.vararg:
        params.add(fn.args.vararg.arg)
    if fn.args.kwarg:
        params.add(fn.args.kwarg.arg)
    loopvars = {}
    p = getattr(site.node, '_parent', None)
    while p is not None and p is not fn:
        if isinstance(p, ast.For) and isinstance(p.target, ast.Name):
            loopvars.setdefault(p.target.id, p.iter)
        p = getattr(p, '_parent', None)
    for a in site.node.args:
        for x in ast.walk(a):
            if isinstance(x, ast.Name):
                if x.id in params or x.id == 'self':
                    return False, f'value depends on parameter {x.id}'
                if x.id in loopvars:
                    it = loopvars[x.id]
                    for y in ast.walk(it):
                        if isinstance(y, ast.Name) and (y.id in params or y.id == 'self'):
                            return False, f'loop source depends on parameter {y.id}'
                        if isinstance(y, ast.Call):
                            # a parameterless module-level function that only combines class-level constants is such a constant itself
                            callee = next((d_ for d_ in tree.body if isinstance(d_, ast.FunctionDef) and isinstance(y.func, ast.Name) and d_.name == y.func.id), None)
                            const_fn = callee is not None and not y.args and not y.keywords and not callee.args.args and not callee.args.vararg and not callee.args.kwarg \
                                and all(isinstance(st_, (ast.Import, ast.ImportFrom, ast.Return, ast.Expr)) for st_ in callee.body) \
                                and not any(isinstance(z, (ast.Call, ast.Global, ast.Nonlocal)) for st_ in callee.body if isinstance(st_, ast.Return) for z in ast.walk(st_))
                            if not const_fn:
                                return False, 'loop source calls a function'
            if isinstance(x, ast.Call):
                return False, 'value is computed by a call'
    return True, 'values are a function of class-level constants only; set growth is idempotent'


def check_shared_writes(ctx):
    files = files_of(ctx)
    ito = import_time_only(ctx.src, files)
    ctx.setcount('functions_scanned', sum(1 for f in files for n in ast.walk(ctx.src.tree(f)) if isinstance(n, ast.FunctionDef)))
    ctx.setcount('import_time_functions', len(ito))
    nsites = 0
    for f in files:
        for s in scan_file(ctx.src, f):
            nsites += 1
            cons = f'{s.kind}:{s.key}'
            if s.kind == 'cache':
                check_cache(ctx, f, s)
                continue
            if s.fn in ito:
                ctx.ob('C20.no-shared-writes', cons, True)
                ctx.note(f'{s.file}:{s.node.lineno} {s.fn} writes {s.target} - class-construction (import-time) code, discharged')
                continue
            if s.kind == 'global-mutation':
                ok, why = monotone_idempotent(ctx, f, s)
                if ok:
                    ctx.ob('C20.no-shared-writes', cons, True)
                    ctx.note(f'{s.file}:{s.node.lineno} {s.fn} mutates module global {s.target}: discharged - {why}')
                    continue
                ctx.ob('C20.no-shared-writes', cons, False,
                       f'{s.fn} mutates the module-level object {s.target} ({norm(s.node)[:80]}) at call time - {why}: state shared '
                       f'by all calls and threads', file=f, line=s.node.lineno)
                continue
            what = {'classattr': 'a class-level (shared by every instance and thread) attribute',
                    'global': 'a module-level object', 'default': 'a default-argument object'}.get(s.kind.split('-')[0], 'shared state')
            ctx.ob('C20.no-shared-writes', cons, False,
                   f'{s.fn} writes {what} `{s.target}` at call time (`{norm(s.node)[:90]}`): the result of later or concurrent calls '
                   f'can depend on it', file=f, line=s.node.lineno,
                   witness='render the same identifier with two dialects in one process / parse from two threads')
    ctx.setcount('shared_write_sites', nsites)


def check_cache(ctx, file, s):
    tree = ctx.src.tree(file)
    fn = None
    for n in ast.walk(tree):
        if isinstance(n, ast.FunctionDef) and s.node in n.decorator_list:
            fn = n
    model = model_for(ctx.src)
    mutable = []
    for r in [n for n in walk_no_nested(fn) if isinstance(n, ast.Return) and n.value is not None]:
        for x in ast.walk(r.value):
            if isinstance(x, ast.Call):
                d = (dotted(x.func) or '').split('.')[-1]
                if d in model.classes or _mutable_value(x):
                    mutable.append(norm(x))
            if isinstance(x, (ast.List, ast.Dict, ast.Set)):
                mutable.append(norm(x))
            if isinstance(x, ast.Name):
                for a in walk_no_nested(fn):
                    if isinstance(a, ast.Assign):
                        for t in a.targets:
                            for e in (t.elts if isinstance(t, ast.Tuple) else [t]):
                                if isinstance(e, ast.Name) and e.id == x.id:
                                    for y in ast.walk(a.value):
                                        if isinstance(y, ast.Call) and ((dotted(y.func) or '').split('.')[-1] in model.classes or _mutable_value(y)):
                                            mutable.append(f'{x.id} = ... {norm(y)}')
    ctx.ob('C20.fresh-instances', f'cache:{s.key}', not mutable,
           f'{s.fn} is memoised ({s.target}) and returns mutable/stateful objects ({sorted(set(mutable))[:3]}): every caller and '
           f'thread gets the same instances, so concurrent calls corrupt each other\'s state', file=file, line=fn.lineno,
           witness='two threads calling parse_sql at the same time')


# ---- (2) fresh instances ------------------------------------------------------------------------------------

def check_fresh(ctx):
    model = model_for(ctx.src)
    stateful = set()
    for b in STATEFUL_BASES:
        for lst in model.classes.values():
            for ci in lst:
                if model.is_subclass(ci, b):
                    stateful.add(ci.name)
    # sly bases are outside the mindsdb_sql model: add by base name
    for lst in model.classes.values():
        for ci in lst:
            if any((bn or '').split('.')[-1] in ('Lexer', 'Parser') for bn in ci.base_names):
                stateful.add(ci.name)
                for sub in model.subclasses(ci.name):
                    stateful.add(sub.name)
    ctx.setcount('stateful_classes', len(stateful))
    tree = ctx.src.tree(INIT)
    glp = ps = None
    for n in tree.body:
        if isinstance(n, ast.FunctionDef) and n.name == 'get_lexer_parser':
            glp = n
        if isinstance(n, ast.FunctionDef) and n.name == 'parse_sql':
            ps = n
    ctx.need(glp is not None and ps is not None, 'get_lexer_parser / parse_sql not found')
    # every return of get_lexer_parser returns names bound, in this invocation, to constructor calls
    ctor_bound = {}
    for n in walk_no_nested(glp):
        if isinstance(n, ast.Assign):
            tg, v = n.targets[0], n.value
            if isinstance(tg, ast.Tuple) and isinstance(v, ast.Tuple) and len(tg.elts) == len(v.elts):
                for t, e in zip(tg.elts, v.elts):
                    if isinstance(t, ast.Name):
                        ctor_bound.setdefault(t.id, []).append(isinstance(e, ast.Call) and not e.args and not e.keywords
                                                                and isinstance(e.func, ast.Name))
            elif isinstance(tg, ast.Name):
                ctor_bound.setdefault(tg.id, []).append(isinstance(v, ast.Call) and isinstance(v.func, ast.Name) and not v.args)
    rets = [n for n in walk_no_nested(glp) if isinstance(n, ast.Return)]
    ctx.need(rets, 'get_lexer_parser has no return')
    for r in rets:
        v = r.value
        elts = v.elts if isinstance(v, ast.Tuple) else [v]
        ok = all((isinstance(e, ast.Name) and ctor_bound.get(e.id) and all(ctor_bound[e.id])) or
                 (isinstance(e, ast.Call) and isinstance(e.func, ast.Name) and not e.args) for e in elts)
        ctx.ob('C20.fresh-instances', f'get_lexer_parser:return {norm(v)}', ok,
               f'get_lexer_parser returns `{norm(v)}`, which is not a pair of objects constructed in this invocation: lexer and '
               f'parser keep per-parse state (text/index/lineno, state and symbol stacks, error_info) and must not be shared',
               file=INIT, line=r.lineno)
    ctx.ob('C20.fresh-instances', 'get_lexer_parser:decorators', not glp.decorator_list,
           f'get_lexer_parser is decorated ({[norm(d) for d in glp.decorator_list]}): a wrapper can hand out shared instances',
           file=INIT, line=glp.lineno)
    # parse_sql obtains them by calling get_lexer_parser in its own body
    calls = [n for n in walk_no_nested(ps) if isinstance(n, ast.Call) and dotted(n.func) == 'get_lexer_parser']
    if not calls:
        # ... or in a helper of the module that parse_sql calls (`_parse_statement(text, dialect)`): that helper is then where lexer and parser live
        mod_fns_ = {n.name: n for n in ctx.src.tree(INIT).body if isinstance(n, ast.FunctionDef)}
        for c_ in walk_no_nested(ps):
            if isinstance(c_, ast.Call) and isinstance(c_.func, ast.Name) and c_.func.id in mod_fns_ and c_.func.id != 'get_lexer_parser':
                h_ = mod_fns_[c_.func.id]
                hc_ = [n for n in walk_no_nested(h_) if isinstance(n, ast.Call) and dotted(n.func) == 'get_lexer_parser']
                if hc_:
                    ps, calls = h_, hc_
                    break
    ctx.ob('C20.fresh-instances', 'parse_sql:calls-get_lexer_parser', len(calls) >= 1,
           'parse_sql does not obtain its lexer/parser from one call of get_lexer_parser per invocation', file=INIT, line=ps.lineno)
    used = [n for n in walk_no_nested(ps) if isinstance(n, ast.Call) and isinstance(n.func, ast.Attribute)
            and n.func.attr in ('tokenize', 'parse')]
    bound = set()
    for n in walk_no_nested(ps):
        if isinstance(n, ast.Assign) and n.value in calls and isinstance(n.targets[0], ast.Tuple):
            bound = {e.id for e in n.targets[0].elts if isinstance(e, ast.Name)}
    for c in used:
        ctx.ob('C20.fresh-instances', f'parse_sql:{norm(c.func)}', isinstance(c.func.value, ast.Name) and c.func.value.id in bound,
               f'parse_sql calls `{norm(c.func)}` on an object that does not come from this invocation\'s get_lexer_parser call',
               file=INIT, line=c.lineno)
    # no stateful instance is created at module level or in a class body, or stored in a default argument
    n_mod = 0
    for f in files_of(ctx):
        tree = ctx.src.tree(f)
        def ctor_of_stateful(e):
            return isinstance(e, ast.Call) and (dotted(e.func) or '').split('.')[-1] in stateful
        for st in tree.body:
            n_mod += 1
            if isinstance(st, (ast.Assign, ast.AnnAssign, ast.Expr)):
                v = st.value
                if v is not None and any(ctor_of_stateful(x) for x in ast.walk(v)):
                    ctx.ob('C20.fresh-instances', f'module-level:{f}:{norm(st)[:60]}', False,
                           f'{f}: a stateful object is created at import time and kept in a module global (`{norm(st)[:80]}`)',
                           file=f, line=st.lineno)
        for cls in [n for n in ast.walk(tree) if isinstance(n, ast.ClassDef)]:
            for st in cls.body:
                if isinstance(st, ast.Assign) and any(ctor_of_stateful(x) for x in ast.walk(st.value)):
                    ctx.ob('C20.fresh-instances', f'class-level:{cls.name}:{norm(st)[:60]}', False,
                           f'{cls.name}: a stateful object is created in the class body and shared by all instances (`{norm(st)[:80]}`)',
                           file=f, line=st.lineno)
        for fn in [n for n in ast.walk(tree) if isinstance(n, ast.FunctionDef)]:
            for d in fn.args.defaults + [k for k in fn.args.kw_defaults if k is not None]:
                if any(ctor_of_stateful(x) for x in ast.walk(d)):
                    ctx.ob('C20.fresh-instances', f'default-arg:{fn.name}:{norm(d)[:60]}', False,
                           f'{fn.name}: a stateful object is created once as a default argument', file=f, line=fn.lineno)
    check_mutable_defaults(ctx, files_of(ctx), 'C20.fresh-instances')
    ctx.setcount('module_level_statements', n_mod)
    # ... and no object built by a LIBRARY constructor is kept in a module global / class attribute / default argument and used at call time: such objects
    # (sa.MetaData(), a lock-free cache, a defaultdict) are registries that every call writes into.  Immutable factories are listed with their reason.
    IMMUTABLE_FACTORIES = {'re.compile': 'compiled patterns are immutable', 'compile': 'compiled patterns are immutable', 'frozenset': 'immutable', 'tuple': 'immutable',
                           'namedtuple': 'a class', 'collections.namedtuple': 'a class', 'field': 'dataclass field descriptor', 'dataclasses.field': 'dataclass field descriptor',
                           'TypeVar': 'typing', 'typing.TypeVar': 'typing', 'logging.getLogger': 'logger registry of the standard library (not query state)',
                           'Decimal': 'immutable', 'decimal.Decimal': 'immutable', 'str': 'immutable', 'int': 'immutable', 'float': 'immutable', 'bool': 'immutable',
                           'functools.partial': 'a function with bound arguments (no state of its own)', 'partial': 'a function with bound arguments',
                           'operator.itemgetter': 'a pure function', 'operator.attrgetter': 'a pure function', 'itemgetter': 'a pure function',
                           'attrgetter': 'a pure function', 'os.getenv': 'a string', 'os.environ.get': 'a string', 'hasattr': 'a bool', 'getattr': 'reads an attribute', 'isinstance': 'a bool', 'len': 'an int'}
    nlib = 0
    for f in files_of(ctx):
        tree = ctx.src.tree(f)
        libs = set()
        for st in tree.body:
            if isinstance(st, ast.Import):
                libs |= {(a.asname or a.name.split('.')[0]) for a in st.names if not a.name.startswith(('mindsdb_sql', 'sly'))}
            elif isinstance(st, ast.ImportFrom) and st.module and st.level == 0 and not st.module.startswith(('mindsdb_sql', 'sly')):
                libs |= {(a.asname or a.name) for a in st.names}

        def library_ctor(e):
            for x in ast.walk(e):
                if isinstance(x, ast.Call):
                    d = dotted(x.func) or ''
                    if d and d.split('.')[0] in libs and d not in IMMUTABLE_FACTORIES and d.split('.')[-1] not in IMMUTABLE_FACTORIES:
                        return d
            return None
        used_in_functions = {x.id for fn in ast.walk(tree) if isinstance(fn, ast.FunctionDef) for x in ast.walk(fn) if isinstance(x, ast.Name)} | \
                            {x.attr for fn in ast.walk(tree) if isinstance(fn, ast.FunctionDef) for x in ast.walk(fn) if isinstance(x, ast.Attribute)}
        holders = [(st, 'module-level') for st in tree.body if isinstance(st, (ast.Assign, ast.AnnAssign)) and st.value is not None]
        holders += [(st, f'class-level:{c.name}') for c in ast.walk(tree) if isinstance(c, ast.ClassDef) for st in c.body
                    if isinstance(st, (ast.Assign, ast.AnnAssign)) and st.value is not None]
        for st, where in holders:
            tg = st.targets[0] if isinstance(st, ast.Assign) else st.target
            if isinstance(st.value, (ast.ListComp, ast.DictComp, ast.SetComp, ast.GeneratorExp)):
                continue            # a table computed FROM library data at import time (names of types): plain data of the repository
            d = library_ctor(st.value)
            nlib += 1
            if d is None or not isinstance(tg, ast.Name):
                continue
            ctx.ob('C20.fresh-instances', f'library-object:{f}:{tg.id}', tg.id not in used_in_functions,
                   f'{f}: `{norm(st)[:80]}` keeps an object built by the library call {d}() in a {where.split(":")[0]} name and functions use it at call time: '
                   f'whatever the calls register in it (tables of a MetaData, cached elements) is shared by all later calls, dialects and threads', file=f, line=st.lineno,
                   witness='render CREATE TABLE t (a int, b int), then CREATE TABLE t (a int)')
        for fn in [n for n in ast.walk(tree) if isinstance(n, ast.FunctionDef)]:
            for dflt in fn.args.defaults + [k for k in fn.args.kw_defaults if k is not None]:
                d = library_ctor(dflt)
                if d is not None:
                    ctx.ob('C20.fresh-instances', f'library-object:default-arg:{fn.name}', False,
                           f'{fn.name}: an object built by {d}() is created once as a default argument and shared by all calls', file=f, line=fn.lineno)
    ctx.setcount('module_level_values', nlib)


# ---- (3) caller-supplied catalog objects ----------------------------------------------------------------------

CATALOG_ATTRS = ('predictor_info', 'integrations')
CATALOG_PARAMS = ('integrations', 'predictor_metadata')
WRITERS = {'update', 'pop', 'setdefault', 'clear', 'popitem', 'append', 'extend', 'remove', 'insert', '__setitem__'}


_PURE_READERS = {'len', 'list', 'tuple', 'sorted', 'str', 'repr', 'iter', 'enumerate', 'isinstance', 'dict', 'set', 'frozenset', 'bool', 'any', 'all', 'sum', 'min', 'max',
                 'zip', 'map', 'filter', 'reversed', 'print', 'id', 'type', 'copy.copy', 'copy.deepcopy', 'copy', 'deepcopy', 'str.join', 'range'}
_MUTATORS = {'append', 'extend', 'insert', 'pop', 'remove', 'clear', 'sort', 'reverse', 'update', 'setdefault', 'popitem', 'add', 'discard', '__setitem__', '__delitem__'}


def _mutable_display(d):
    return isinstance(d, (ast.List, ast.Dict, ast.Set, ast.ListComp, ast.DictComp, ast.SetComp)) or (
        isinstance(d, ast.Call) and dotted(d.func) in ('list', 'dict', 'set', 'bytearray', 'collections.defaultdict', 'defaultdict', 'OrderedDict', 'collections.OrderedDict',
                                                         'collections.deque', 'deque'))


def _default_escapes(fn, pname):
    """how the object bound to parameter `pname` is kept or changed by the function (text), or None: it is only read"""
    names = {pname}
    changed = True
    while changed:          # local aliases: y = x / y = x or [...]
        changed = False
        for n in ast.walk(fn):
            if isinstance(n, ast.Assign) and len(n.targets) == 1 and isinstance(n.targets[0], ast.Name) and n.targets[0].id not in names:
                v = n.value
                vs = [v] + (list(v.values) if isinstance(v, ast.BoolOp) else []) + ([v.body, v.orelse] if isinstance(v, ast.IfExp) else [])
                if any(isinstance(x, ast.Name) and x.id in names for x in vs):
                    names.add(n.targets[0].id)
                    changed = True

    def is_it(e):
        return isinstance(e, ast.Name) and e.id in names

    def carries(e):
        """the object itself (not a copy) is part of the value of e"""
        if is_it(e):
            return True
        if isinstance(e, (ast.List, ast.Tuple, ast.Set)):
            return any(carries(x) for x in e.elts)
        if isinstance(e, ast.Dict):
            return any(carries(x) for x in e.values if x is not None)
        if isinstance(e, ast.BoolOp):
            return any(carries(x) for x in e.values)
        if isinstance(e, ast.IfExp):
            return carries(e.body) or carries(e.orelse)
        if isinstance(e, ast.Starred):
            return False
        return False
    for n in ast.walk(fn):
        if isinstance(n, (ast.Assign, ast.AnnAssign)) and n.value is not None and carries(n.value):
            tgs = n.targets if isinstance(n, ast.Assign) else [n.target]
            for t in tgs:
                if isinstance(t, (ast.Attribute, ast.Subscript)):
                    return f'stores it in `{norm(t)}`'
        if isinstance(n, ast.AugAssign) and is_it(n.target):
            return f'changes it in place (`{norm(n)[:50]}`)'
        if isinstance(n, (ast.Subscript, ast.Attribute)) and isinstance(n.ctx, (ast.Store, ast.Del)) and is_it(n.value):
            return f'changes it in place (`{norm(n)[:50]}`)'
        if isinstance(n, (ast.Return, ast.Yield)) and n.value is not None and carries(n.value):
            return 'returns it'
        if isinstance(n, ast.Call):
            if isinstance(n.func, ast.Attribute) and is_it(n.func.value) and n.func.attr in _MUTATORS:
                return f'changes it in place (`{norm(n)[:50]}`)'
            if (dotted(n.func) or '') not in _PURE_READERS and not (isinstance(n.func, ast.Attribute) and is_it(n.func.value)):
                if any(carries(x) for x in n.args) or any(carries(k.value) for k in n.keywords):
                    return f'hands it on to `{norm(n.func)[:40]}(...)`'
    return None


def check_mutable_defaults(ctx, files, rule):
    """a mutable default ([] / {} / set() ...) is ONE object for all calls: it may be read, but not kept (stored in an object, returned, handed on) or changed"""
    n_mdef = 0
    for f in files:
        tree = ctx.src.tree(f)
        for fn in [n for n in ast.walk(tree) if isinstance(n, ast.FunctionDef)]:
            pos = fn.args.posonlyargs + fn.args.args
            pairs = list(zip(pos[len(pos) - len(fn.args.defaults):], fn.args.defaults)) + [(a, d) for a, d in zip(fn.args.kwonlyargs, fn.args.kw_defaults) if d is not None]
            for a, d in pairs:
                if not _mutable_display(d):
                    continue
                n_mdef += 1
                how = _default_escapes(fn, a.arg)
                ctx.ob(rule, f'mutable-default:{f.split("/")[-1]}:{fn.name}:{a.arg}', how is None,
                       f'{fn.name}: the default `{a.arg}={norm(d)}` is one object shared by every call, and the function {how}: what one call puts into it is seen by '
                       f'the next call (a later plan contains the steps of an earlier one)', file=f, line=fn.lineno)
    ctx.setcount('mutable_defaults', n_mdef)
    ctx.ob(rule, 'mutable-default:all', True, '')
    # the rule has no instance today: a built-in positive example keeps it honest
    demo = ast.parse('class K:\n    def __init__(self, values, step=[], flag=False):\n        self.step = step\n    def ok(self, xs=[]):\n        return len(xs)\n')
    k_init, k_ok = demo.body[0].body
    ctx.need(_mutable_display(k_init.args.defaults[0]) and _default_escapes(k_init, 'step') is not None and _default_escapes(k_ok, 'xs') is None,
             'self-test of the mutable-default rule failed')


_WRITE_METHODS = {'append', 'extend', 'insert', 'add', 'update', 'setdefault', 'pop', 'popitem', 'remove', 'discard', 'clear', 'sort', 'reverse', 'appendleft', 'popleft'}
_UNDO_METHODS = {'pop', 'popitem', 'remove', 'discard', 'clear', 'popleft'}


def instance_state_writes(cls):
    """writes of a class's methods (other than __init__) to the state of `self` that are neither undone on every exit nor a reset at the top of the method:
    [(method, node, attribute, why)].  A push is balanced when it stands directly before / inside a `try` whose `finally` undoes it on the same attribute."""
    out = []
    # constructor code: __init__ and the methods that are called from constructor code only (an extracted part of __init__)
    meths = {x.name: x for x in cls.body if isinstance(x, ast.FunctionDef)}
    callers = {}
    for mm in meths.values():
        for c in ast.walk(mm):
            if isinstance(c, ast.Call) and isinstance(c.func, ast.Attribute) and isinstance(c.func.value, ast.Name) and c.func.value.id == 'self' and c.func.attr in meths:
                callers.setdefault(c.func.attr, set()).add(mm.name)
            elif isinstance(c, ast.Attribute) and isinstance(c.value, ast.Name) and c.value.id == 'self' and c.attr in meths and not (
                    isinstance(getattr(c, '_parent', None), ast.Call) and c._parent.func is c):
                callers.setdefault(c.attr, set()).add('<value>')         # the method is taken as a value: callable from anywhere
    ctor_code = {'__init__'}
    changed = True
    while changed:
        changed = False
        for nm in meths:
            if nm not in ctor_code and callers.get(nm) and callers[nm] <= ctor_code and not nm.startswith('__'):
                ctor_code.add(nm)
                changed = True
    for m in [x for x in cls.body if isinstance(x, ast.FunctionDef) and x.name not in ctor_code]:
        if not m.args.args or m.args.args[0].arg != 'self' or any(norm(d) in ('staticmethod', 'classmethod') for d in m.decorator_list):
            continue

        def attr_of(e):
            # self.X / self.X[...] / self.X.y -> X
            while isinstance(e, (ast.Subscript, ast.Attribute)) and not (isinstance(e, ast.Attribute) and isinstance(e.value, ast.Name) and e.value.id == 'self'):
                e = e.value
            return e.attr if isinstance(e, ast.Attribute) and isinstance(e.value, ast.Name) and e.value.id == 'self' else None
        finals = {}     # attribute -> try statements whose finally undoes / rebinds it
        for t in [x for x in ast.walk(m) if isinstance(x, ast.Try) and x.finalbody]:
            for n in [y for f_ in t.finalbody for y in ast.walk(f_)]:
                a = None
                if isinstance(n, ast.Call) and isinstance(n.func, ast.Attribute) and n.func.attr in _UNDO_METHODS:
                    a = attr_of(n.func.value)
                elif isinstance(n, (ast.Assign, ast.AugAssign, ast.Delete)):
                    for tg in (n.targets if isinstance(n, (ast.Assign, ast.Delete)) else [n.target]):
                        a = a or attr_of(tg)
                if a:
                    finals.setdefault(a, []).append(t)
        for n in walk_no_nested(m):
            a, what = None, None
            if isinstance(n, ast.Call) and isinstance(n.func, ast.Attribute) and n.func.attr in _WRITE_METHODS:
                a, what = attr_of(n.func.value), f'`{norm(n)[:50]}`'
            elif isinstance(n, (ast.Assign, ast.AugAssign, ast.AnnAssign, ast.Delete)):
                for tg in (n.targets if isinstance(n, (ast.Assign, ast.Delete)) else [n.target]):
                    for e_ in (tg.elts if isinstance(tg, (ast.Tuple, ast.List)) else [tg]):
                        if attr_of(e_):
                            a, what = attr_of(e_), f'`{norm(n)[:50]}`'
            if a is None:
                continue
            stmt = n
            while not isinstance(stmt, ast.stmt):
                stmt = stmt._parent
            balanced = False
            for t in finals.get(a, []):
                in_final = any(stmt is y for f_ in t.finalbody for y in ast.walk(f_))
                in_body = any(stmt is y for b_ in t.body for y in ast.walk(b_))
                par = getattr(t, '_parent', None)
                blk = next((getattr(par, fld) for fld in ('body', 'orelse', 'finalbody') if isinstance(getattr(par, fld, None), list) and t in getattr(par, fld)), [])
                just_before = t in blk and blk.index(t) > 0 and blk[blk.index(t) - 1] is stmt
                if in_final or in_body or just_before:
                    balanced = True
            # a reset = the attribute itself is bound anew (`self.X = ...`) at the top of the method; a store INTO what the attribute holds (`self.X[k] = v`) is not
            top_reset = isinstance(n, ast.Assign) and stmt in m.body and all(not isinstance(x, (ast.If, ast.For, ast.While, ast.Try)) for x in m.body[:m.body.index(stmt)]) \
                and any(isinstance(t_, ast.Attribute) and isinstance(t_.value, ast.Name) and t_.value.id == 'self' and t_.attr == a for t_ in n.targets)
            # a memo entry: self.X[key] = <function of the key and of attributes only the constructor assigns>: the same for every call, whenever it is stored
            memo = False
            if isinstance(n, ast.Assign) and len(n.targets) == 1 and isinstance(n.targets[0], ast.Subscript) and attr_of(n.targets[0].value) == a \
                    and isinstance(n.targets[0].value, ast.Attribute):
                key_names = {x.id for x in ast.walk(n.targets[0].slice) if isinstance(x, ast.Name)}
                local_names = {x.id for x in ast.walk(m) if isinstance(x, ast.Name) and isinstance(x.ctx, ast.Store)} | {p_.arg for p_ in m.args.args}
                written_elsewhere = {attr_of(t_) for mm in cls.body if isinstance(mm, ast.FunctionDef) and mm.name != '__init__' for x in ast.walk(mm)
                                     if isinstance(x, (ast.Assign, ast.AugAssign)) for t_ in (x.targets if isinstance(x, ast.Assign) else [x.target])} - {a, None}
                memo = True
                for x in ast.walk(n.value):
                    if isinstance(x, ast.Name) and x.id in local_names and x.id not in key_names and x.id != 'self':
                        memo = False
                    if isinstance(x, ast.Attribute) and isinstance(x.value, ast.Name) and x.value.id == 'self' and (x.attr in written_elsewhere or x.attr == a):
                        memo = False
            if not balanced and not top_reset and not memo:
                out.append((m, n, a, what))
    return out


def check_instance_state(ctx):
    """A renderer object serves many calls: what a method writes into `self` during one rendering must be gone when that rendering ends - also when it ends with
    an exception (the renderer's own fallback catches those and carries on).  Every write to instance state outside __init__ is undone in a `finally`, or is a
    reset at the top of the method."""
    RENDER = 'mindsdb_sql/render/sqlalchemy_render.py'
    tree = ctx.src.tree(RENDER)
    n = 0
    for cls in [x for x in tree.body if isinstance(x, ast.ClassDef)]:
        n += len([x for x in cls.body if isinstance(x, ast.FunctionDef)])
        for m, node, a, what in instance_state_writes(cls):
            ctx.ob('C20.instance-state', f'{cls.name}.{m.name}:self.{a}:{norm(node)[:40]}', False,
                   f'{cls.name}.{m.name} changes the renderer\'s own state ({what}) and does not undo it on every exit (no `finally`): a rendering that fails half-way - the '
                   f'fallback swallows the exception - or a second thread leaves `self.{a}` changed, and later renderings on the same object come out differently',
                   file=RENDER, line=node.lineno, witness='render.get_string(<a query that fails>); render.get_string(q) != SqlalchemyRender(d).get_string(q)')
    ctx.setcount('renderer_methods', n)
    ctx.ob('C20.instance-state', 'all', True, '')
    demo = ast.parse('class R:\n    def __init__(self):\n        self.st = []\n    def bad(self, q):\n        self.st.append(1)\n        self.work(q)\n        self.st.pop()\n'
                     '    def good(self, q):\n        self.st.append(1)\n        try:\n            return self.work(q)\n        finally:\n            self.st.pop()\n')
    for x in ast.walk(demo):
        for c in ast.iter_child_nodes(x):
            c._parent = x
    bad = {m.name for m, *_ in instance_state_writes(demo.body[0])}
    ctx.need(bad == {'bad'}, f'self-test of the instance-state rule failed ({sorted(bad)})')


def entry_prelude_resets(cls, entry):
    """[(attribute, assignment statement)] of the resets `self.A = <fresh value>` that an entry point performs before it does anything else: the simple statements at
    the top of its body (up to the first compound statement / return), where a statement `self.h()` without arguments counts as the body of h when h is a method
    of the class that consists of such resets only (a reset helper)."""
    methods = {m.name: m for m in cls.body if isinstance(m, ast.FunctionDef)}

    def resets_of(stmts, depth):
        out, complete = [], True
        for st in stmts:
            if isinstance(st, ast.Expr) and isinstance(st.value, ast.Constant):
                continue        # docstring
            if isinstance(st, ast.Assign):
                for tg in st.targets:
                    if isinstance(tg, ast.Attribute) and isinstance(tg.value, ast.Name) and tg.value.id == 'self' and not any(
                            isinstance(x, ast.Attribute) and isinstance(x.value, ast.Name) and x.value.id == 'self' and x.attr == tg.attr for x in ast.walk(st.value)):
                        out.append((tg.attr, st))
                continue
            if depth == 0 and isinstance(st, ast.Expr) and isinstance(st.value, ast.Call) and isinstance(st.value.func, ast.Attribute) \
                    and isinstance(st.value.func.value, ast.Name) and st.value.func.value.id == 'self' and not st.value.args and not st.value.keywords \
                    and st.value.func.attr in methods:
                sub, whole = resets_of(methods[st.value.func.attr].body, 1)
                if whole:
                    out.extend(sub)
                    continue
            complete = False
            break
        return out, complete
    return resets_of(entry.body, 0)[0]


def check_planner_reuse(ctx, rule='C20.planner-reuse'):
    """A QueryPlanner object plans many statements (the prepared-statement path calls from_query once per statement): whatever a planning method stores in the
    planner while it plans one statement must be reset by the entry point before the next - otherwise a later plan reads results of an earlier one.  Every
    attribute of `self` that a method other than __init__ writes is assigned a fresh value at the top of from_query (before anything is planned)."""
    QP = 'mindsdb_sql/planner/query_planner.py'
    tree = ctx.src.tree(QP)
    cls = next((x for x in tree.body if isinstance(x, ast.ClassDef) and x.name == 'QueryPlanner'), None)
    ctx.need(cls is not None, 'QueryPlanner not found')
    entry = next((m for m in cls.body if isinstance(m, ast.FunctionDef) and m.name == 'from_query'), None)
    ctx.need(entry is not None, 'QueryPlanner.from_query not found')
    resets = {a for a, _st in entry_prelude_resets(cls, entry)}
    n = 0
    for m, node, a, what in instance_state_writes(cls):
        n += 1
        ctx.ob(rule, f'QueryPlanner.{m.name}:self.{a}', a in resets,
               f'QueryPlanner.{m.name} stores into the planner ({what}) while it plans one statement, and from_query does not reset `self.{a}` before it plans the next '
               f'(reset there: {sorted(resets)}): a planner that is used again - every prepared statement is planned that way - plans the next statement with what the '
               f'previous one left behind (a step that reads a result of the other plan)', file=QP, line=node.lineno,
               witness="p.from_query(<with c as (...) select ...>); p.from_query(<select * from c join proj.model>) differs from the plan of a fresh planner")
    ctx.setcount('planner_state_writes', n)
    ctx.setcount('planner_entry_resets', len(resets))
    ctx.ob(rule, 'all', True, '')


PRINTERISH = {'to_tree', 'to_string', 'get_string', '__repr__', '__str__', '__eq__', '__ne__', 'render', 'to_value'}
PROCESS_SOURCES = {'random.random', 'random.randint', 'random.choice', 'random.shuffle', 'uuid.uuid4', 'uuid.uuid1', 'os.getpid', 'time.time', 'time.time_ns',
                   'time.monotonic', 'datetime.now', 'datetime.datetime.now', 'dt.datetime.now', 'datetime.utcnow', 'datetime.datetime.utcnow', 'date.today',
                   'datetime.date.today', 'dt.date.today', 'os.urandom', 'secrets.token_hex', 'threading.get_ident', 'threading.current_thread'}


def process_dependent_calls(tree, file):
    """calls whose value differs from process to process (or from object to object) and that can reach a result: builtin hash() outside __hash__ (salted for text
    by PYTHONHASHSEED), id() inside printers / comparison methods and anywhere in the renderer, clocks / random / pid -> [(function name, call, why)]"""
    out = []
    for fn in [n for n in ast.walk(tree) if isinstance(n, ast.FunctionDef)]:
        for n in walk_no_nested(fn):
            if not isinstance(n, ast.Call):
                continue
            d = dotted(n.func) or ''
            if d == 'hash' and fn.name != '__hash__':
                out.append((fn, n, 'the builtin hash() of text is salted per process (PYTHONHASHSEED)'))
            elif d == 'id' and n.args and (fn.name in PRINTERISH or '/render/' in file):
                out.append((fn, n, 'id() is the address of the object: it differs between a tree and its copy and from run to run'))
            elif d in PROCESS_SOURCES:
                out.append((fn, n, f'{d}() differs from call to call'))
    return out


def check_process_dependent(ctx):
    """Trees, plans, rendered text and messages are functions of the input: no value that depends on the process (hash seed, addresses, clock, random) may be
    computed where it can reach them."""
    n = 0
    for f in ctx.src.py_files('mindsdb_sql'):
        tree = ctx.src.tree(f)
        n += 1
        for fn, call, why in process_dependent_calls(tree, f):
            ctx.ob('C20.process-independent', f'{f.split("/")[-1]}:{fn.name}:{norm(call)[:40]}', False,
                   f'{fn.name} computes `{norm(call)[:60]}`: {why} - the same input then gives a different tree / plan / text in another process or for an equal object',
                   file=f, line=call.lineno, witness='PYTHONHASHSEED=0 vs PYTHONHASHSEED=1')
    ctx.setcount('process_dependence_files', n)
    ctx.ob('C20.process-independent', 'all', True, '')
    demo = ast.parse('class N:\n    def __repr__(self):\n        return f"<{id(self):#x}>"\n    def __hash__(self):\n        return hash((1, 2))\n'
                     'def label(s):\n    return "%08x" % (hash(s) & 0xffffffff)\n')
    for x in ast.walk(demo):
        for c in ast.iter_child_nodes(x):
            c._parent = x
    got = sorted(fn.name for fn, _, _ in process_dependent_calls(demo, 'mindsdb_sql/x.py'))
    ctx.need(got == ['__repr__', 'label'], f'self-test of the process-independence rule failed ({got})')


def check_caller_objects(ctx):
    nfn = 0
    for f in ctx.src.py_files('mindsdb_sql/planner'):
        tree = ctx.src.tree(f)
        for fn in [n for n in ast.walk(tree) if isinstance(n, ast.FunctionDef)]:
            nfn += 1
            params = {a.arg for a in fn.args.args}
            roots = {p for p in params if p in CATALOG_PARAMS and fn.name == '__init__'}
            derived = {}        # name -> description

            def is_catalog_expr(e):
                """expression denotes (an element of) a caller-supplied catalog object"""
                if isinstance(e, ast.Name):
                    return e.id in roots or e.id in derived
                if isinstance(e, ast.Attribute):
                    if e.attr in CATALOG_ATTRS and norm(e.value) in ('self', 'self.planner', 'planner'):
                        return True
                    return False
                if isinstance(e, ast.Subscript):
                    return is_catalog_expr(e.value)
                if isinstance(e, ast.Call) and isinstance(e.func, ast.Attribute):
                    if e.func.attr in ('get', 'items', 'values', '__getitem__'):
                        return is_catalog_expr(e.func.value)
                    if e.func.attr == 'get_predictor' and norm(e.func.value) in ('self', 'self.planner', 'planner'):
                        return False        # returns a copy iff get_predictor copies - decided where get_predictor is analysed
                if isinstance(e, ast.IfExp):
                    return is_catalog_expr(e.body) or is_catalog_expr(e.orelse)
                return False
            # flow-insensitive derivation, but a rebinding to a fresh dict (dict(x, ...), {...}, copy) clears it: use order
            events = []
            for n in walk_no_nested(fn):
                if isinstance(n, (ast.Assign, ast.For, ast.AugAssign, ast.Expr, ast.Delete)):
                    events.append(n)
            events.sort(key=lambda n: (n.lineno, n.col_offset))
            for n in events:
                if isinstance(n, ast.For):
                    if is_catalog_expr(n.iter):
                        for t in ast.walk(n.target):
                            if isinstance(t, ast.Name):
                                derived[t.id] = norm(n.iter)
                elif isinstance(n, ast.Assign):
                    fresh = isinstance(n.value, (ast.Dict, ast.List)) or (isinstance(n.value, ast.Call) and (
                        dotted(n.value.func) in ('dict', 'list', 'copy.copy', 'copy.deepcopy', 'deepcopy', 'copy')
                        or (isinstance(n.value.func, ast.Attribute) and n.value.func.attr == 'copy')))
                    for t in n.targets:
                        if isinstance(t, ast.Name):
                            if fresh:
                                derived.pop(t.id, None)
                                roots.discard(t.id)
                            elif is_catalog_expr(n.value):
                                derived[t.id] = norm(n.value)
                        elif isinstance(t, ast.Subscript) and is_catalog_expr(t.value) and not (
                                isinstance(t.value, ast.Attribute) and t.value.attr in CATALOG_ATTRS and fn.name == '__init__'):
                            ctx.ob('C20.caller-objects', f'{fn.name}:{norm(t)}', False,
                                   f'{fn.name} stores into `{norm(t)}`, an object supplied by the caller as catalog metadata '
                                   f'(derived from {derived.get(norm(t.value), norm(t.value))}): planning changes the caller\'s '
                                   f'catalog, and two plans sharing it overwrite each other', file=f, line=n.lineno,
                                   witness='two threads planning `... join mindsdb.pred.1` and `... join mindsdb.pred.2` with one catalog')
                        elif isinstance(t, ast.Subscript):
                            ctx.ob('C20.caller-objects', f'{fn.name}:{norm(t)}', True)
                elif isinstance(n, ast.Expr) and isinstance(n.value, ast.Call) and isinstance(n.value.func, ast.Attribute) \
                        and n.value.func.attr in WRITERS and is_catalog_expr(n.value.func.value) and not (
                        isinstance(n.value.func.value, ast.Attribute) and fn.name == '__init__'):
                    ctx.ob('C20.caller-objects', f'{fn.name}:{norm(n.value)[:60]}', False,
                           f'{fn.name} mutates a caller-supplied catalog object: `{norm(n.value)[:80]}`', file=f, line=n.lineno)
    ctx.setcount('planner_functions', nfn)


# ---- (4) hash order ------------------------------------------------------------------------------------------------

def set_kinded_names(fn_or_tree, body):
    out = set()
    for n in body:
        for a in ast.walk(n) if not isinstance(n, (ast.FunctionDef, ast.ClassDef)) else []:
            if isinstance(a, ast.Assign) and len(a.targets) == 1 and isinstance(a.targets[0], ast.Name) and is_set_expr(a.value, out):
                out.add(a.targets[0].id)
    return out


def is_set_expr(e, names=()):
    if isinstance(e, (ast.Set, ast.SetComp)):
        return True
    if isinstance(e, ast.Call):
        d = dotted(e.func) or ''
        if d in ('set', 'frozenset'):
            return True
        if isinstance(e.func, ast.Attribute) and e.func.attr in ('union', 'intersection', 'difference', 'symmetric_difference', 'copy') \
                and is_set_expr(e.func.value, names):
            return True
    if isinstance(e, ast.Attribute) and e.attr == 'tokens' and isinstance(e.value, ast.Name) and \
            e.value.id[:1].isupper() and e.value.id.endswith(('Lexer', 'Parser')):
        return True         # sly token sets are class attributes: `XLexer.tokens`
    if isinstance(e, ast.BinOp) and isinstance(e.op, (ast.BitOr, ast.BitAnd, ast.Sub, ast.BitXor)):
        return is_set_expr(e.left, names) or is_set_expr(e.right, names)
    if isinstance(e, ast.Name) and e.id in names:
        return True
    if (isinstance(e, ast.Attribute) and e.attr == 'expected_tokens') or (isinstance(e, ast.Name) and e.id == 'expected_tokens'):
        # what sly hands to the error callback: list(actions[state].keys()) - the keys in the order the table generator met the terminals, which follows the
        # order of the productions; the mindsdb grammar expands a SET into productions (`@_(*all_tokens_list)`), so that order differs from process to process
        return True
    if isinstance(e, ast.Subscript) and isinstance(e.slice, ast.Constant) and e.slice.value in ('integrations',):
        return True         # query_info['integrations'] is built as set() in get_query_info (checked below)
    return False


ORDER_SENSITIVE_CALLS = {'append', 'extend', 'insert', 'write', 'join', 'print'}


def check_hash_order(ctx):
    nsites = 0
    model = model_for(ctx.src)
    for f in files_of(ctx):
        if f.startswith('sly/'):
            continue
        tree = ctx.src.tree(f)
        mod_sets = set_kinded_names(tree, tree.body)
        scopes = [(None, tree.body, mod_sets)]
        for fn in [n for n in ast.walk(tree) if isinstance(n, ast.FunctionDef)]:
            local = set(mod_sets)
            for a in walk_no_nested(fn):
                if isinstance(a, ast.Assign) and len(a.targets) == 1 and isinstance(a.targets[0], ast.Name):
                    if is_set_expr(a.value, local):
                        local.add(a.targets[0].id)
            scopes.append((fn, fn.body, local))
        seen = set()
        for fn, body, names in scopes:
            nodes = []
            if fn is None:
                for st in body:
                    if isinstance(st, ast.ClassDef):
                        for st2 in st.body:
                            if isinstance(st2, ast.FunctionDef):
                                nodes.extend(st2.decorator_list)
                            elif not isinstance(st2, ast.ClassDef):
                                nodes.append(st2)
                    elif isinstance(st, ast.FunctionDef):
                        nodes.extend(st.decorator_list)
                    else:
                        nodes.append(st)
            else:
                nodes = list(body)
            for top in nodes:
                for n in (ast.walk(top) if fn is None else [x for x in walk_no_nested(ast.Module(body=[top], type_ignores=[]))]):
                    if id(n) in seen:
                        continue
                    where = fn.name if fn is not None else '<module>'
                    # *set unpacking into a call
                    if isinstance(n, ast.Starred) and is_set_expr(n.value, names):
                        seen.add(id(n))
                        nsites += 1
                        handle_star(ctx, f, n, where)
                    # list(set)[i] / tuple(set)[i] / next(iter(set))
                    if isinstance(n, ast.Subscript) and isinstance(n.value, ast.Call) and dotted(n.value.func) in ('list', 'tuple') \
                            and n.value.args and is_set_expr(n.value.args[0], names):
                        seen.add(id(n))
                        nsites += 1
                        handle_index(ctx, f, n, where)
                    # x = list(set): every consumer of x must be order-free
                    if isinstance(n, ast.Assign) and isinstance(n.value, ast.Call) and dotted(n.value.func) in ('list', 'tuple') \
                            and n.value.args and is_set_expr(n.value.args[0], names):
                        seen.add(id(n))
                        nsites += 1
                        handle_list_of_set(ctx, f, n, where, tree)
                    if isinstance(n, ast.For) and is_set_expr(n.iter, names):
                        seen.add(id(n))
                        nsites += 1
                        sens = [x for x in ast.walk(n) if (isinstance(x, ast.Call) and isinstance(x.func, ast.Attribute)
                                                            and x.func.attr in ORDER_SENSITIVE_CALLS)
                                or isinstance(x, (ast.Break, ast.Return, ast.Yield, ast.YieldFrom))]
                        ctx.ob('C20.hash-order', f'{f.split("/")[-1]}:{where}:for {norm(n.target)} in {norm(n.iter)}'[:110], not sens,
                               f'{where}: iterates a set (`{norm(n.iter)}`) and its body is order-sensitive (`{norm(sens[0])[:60] if sens else ""}`): '
                               f'the result depends on PYTHONHASHSEED', file=f, line=n.lineno)
    ctx.setcount('set_iteration_sites', nsites)


def handle_index(ctx, f, n, where):
    """list(s)[i] is order-free only under a dominating `len(s) == 1` test."""
    from ..cfg import dominating_conditions
    sname = norm(n.value.args[0])
    guarded = False
    for t, pol in dominating_conditions(n):
        txt = norm(t)
        if (pol and txt in (f'len({sname}) == 1', f'1 == len({sname})')) or (not pol and txt in (f'len({sname}) != 1', f'1 != len({sname})')):
            guarded = True
    ctx.ob('C20.hash-order', f'{f.split("/")[-1]}:{where}:{norm(n)}', guarded,
           f'{where}: `{norm(n)}` picks an element of a set by position without a dominating `len({sname}) == 1` test: which '
           f'element it gets depends on PYTHONHASHSEED', file=f, line=n.lineno)


def handle_list_of_set(ctx, f, n, where, tree):
    """`self.X = list(set)`: discharged iff every consumer of X (in this file) is a membership test, len(), or a
    concatenation whose own consumers are such."""
    tg = n.targets[0]
    if not (isinstance(tg, ast.Attribute) and isinstance(tg.value, ast.Name) and tg.value.id == 'self'):
        # local: consumers inside the function
        name = norm(tg)
        return ctx.ob('C20.hash-order', f'{f.split("/")[-1]}:{where}:{norm(n)[:60]}', True) if not isinstance(tg, ast.Name) else \
            _consumers_orderfree(ctx, f, where, n, tg.id, None)
    _consumers_orderfree(ctx, f, where, n, None, tg.attr)


def _consumers_orderfree(ctx, f, where, n, local, attr):
    # attributes assigned from an order-dependent list, transitively (self.databases = list(...) + self.projects)
    tainted = {attr} if attr else set()
    files = [f] + [x for x in ctx.src.py_files('mindsdb_sql/planner') if x != f]
    if attr:
        for _ in range(3):
            for ff in files:
                for a in ast.walk(ctx.src.tree(ff)):
                    if isinstance(a, ast.Assign) and isinstance(a.targets[0], ast.Attribute) and any(
                            isinstance(x, ast.Attribute) and x.attr in tainted and norm(x.value) in ('self', 'self.planner')
                            for x in ast.walk(a.value)):
                        tainted.add(a.targets[0].attr)
    bad = []
    nuse = 0
    for ff in (files if attr else [f]):
        for x in ast.walk(ctx.src.tree(ff)):
            hit = (attr and isinstance(x, ast.Attribute) and x.attr in tainted and isinstance(x.ctx, ast.Load)
                   and norm(x.value) in ('self', 'self.planner', 'planner')) or \
                  (local and isinstance(x, ast.Name) and x.id == local and isinstance(x.ctx, ast.Load))
            if not hit:
                continue
            nuse += 1
            p = getattr(x, '_parent', None)
            ok = False
            if isinstance(p, ast.Compare) and any(isinstance(o, (ast.In, ast.NotIn)) for o in p.ops) and x in p.comparators:
                ok = True
            elif isinstance(p, ast.Call) and dotted(p.func) in ('len', 'set', 'frozenset', 'sorted'):
                ok = True
            elif isinstance(p, ast.BinOp) and isinstance(getattr(p, '_parent', None), ast.Assign):
                ok = True       # concatenation stored into another tainted attribute (followed transitively)
            elif isinstance(p, ast.Assign) and x is p.value:
                ok = True
            elif isinstance(p, ast.Starred) and isinstance(getattr(p, '_parent', None), (ast.List, ast.Tuple, ast.Set)) \
                    and isinstance(getattr(p._parent, '_parent', None), ast.Assign):
                ok = True       # [*a, *self.X] stored into another attribute: a concatenation (followed transitively)
            if not ok:
                bad.append((ff, x.lineno, norm(p)[:70]))
    ctx.ob('C20.hash-order', f'{f.split("/")[-1]}:{where}:{norm(n)[:70]}', not bad,
           f'{where}: `{norm(n)}` fixes an arbitrary (hash-seed dependent) order of a set, and it is consumed order-sensitively at '
           f'{bad[:2]}', file=f, line=n.lineno)
    ctx.count('list_of_set_consumers', nuse)


def handle_star(ctx, f, n, where):
    """`@_(*all_tokens_list)`: the order of the generated productions depends on the hash seed.  Discharged on the tables:
    the set expands to single-terminal alternatives of ONE nonterminal, and in every LALR state in which one of these
    productions takes part the message built by make_suggestion does not depend on key order (the ID special case
    replaces the whole candidate set, or there are >= N candidates so nothing is printed, or at most one)."""
    if 'parser' not in f:
        return ctx.ob('C20.hash-order', f'{f.split("/")[-1]}:{where}:*{norm(n.value)}', False,
                      f'{where}: a set is *-unpacked into a call: argument order depends on PYTHONHASHSEED', file=f, line=n.lineno)
    g = load_dialect(ctx.src, 'mindsdb')
    if g.file != f:
        return ctx.ob('C20.hash-order', f'{f.split("/")[-1]}:{where}:*{norm(n.value)}', False,
                      f'{where}: a set is *-unpacked into @_(...) of a grammar the analysis does not cover', file=f, line=n.lineno)
    t = tables_for(ctx.src, 'mindsdb')
    sm = suggest_for(ctx.src)
    star = [p for p in g.productions[1:] if p.from_star]
    names = {p.name for p in star}
    single = all(len(p.rhs) == 1 and p.rhs[0] in g.tokens for p in star)
    ctx.ob('C20.hash-order', f'{f.split("/")[-1]}:*{norm(n.value)}:shape', len(names) == 1 and single,
           f'*{norm(n.value)} expands (in hash-seed order) into productions that are not single-terminal alternatives of one '
           f'nonterminal: the LALR automaton itself, not only its numbering, can depend on the order', file=f, line=n.lineno)
    ctx.setcount('star_productions', len(star))
    nums = {p.number for p in star}
    bad = []
    nst = 0
    for st, act in enumerate(t.action):
        involved = any((v is not None and v < 0 and -v in nums) for v in act.values()) or any(
            (p, 0) in t.states[st] for p in nums)
        if not involved:
            continue
        nst += 1
        mode, disp = sm.display_set(g.lexer, list(act.keys()))
        if mode == 'identifier-only' or len(disp) <= 1 or len(disp) >= sm.hi:
            continue
        bad.append((st, sorted(disp)[:5]))
    ctx.setcount('star_states', nst)
    ctx.ob('C20.hash-order', f'{f.split("/")[-1]}:*{norm(n.value)}:messages', not bad,
           f'in {len(bad)} parser state(s) reached through the hash-ordered raw_query productions the error message lists '
           f'between 2 and {sm.hi - 1} candidates, whose order follows the production order: the message text depends on '
           f'PYTHONHASHSEED (e.g. state {bad[0] if bad else ""})', file=f, line=n.lineno)


MUTATING_METHODS = {'add', 'update', 'discard', 'remove', 'append', 'extend', 'insert', 'pop', 'clear', 'sort', 'reverse', 'setdefault', 'popitem',
                    'difference_update', 'intersection_update', 'symmetric_difference_update', '__setitem__', '__delitem__'}


def check_library_state(ctx):
    """Objects handed out by an external library (the SQLAlchemy dialect and what hangs below it, module attributes of imported packages) are
    shared with the rest of the process unless proven otherwise: class-level tables (reserved words, colspecs, type maps) are common.  Rebinding an
    attribute ON the instance this call created is private; mutating IN PLACE anything reached THROUGH it is a write to state that may outlive the call."""
    model = model_for(ctx.src)
    own_callables = set(model.classes) | {'dict', 'list', 'set', 'tuple', 'frozenset', 'OrderedDict', 'defaultdict', 'deepcopy', 'copy'}
    nroots = nsites = 0
    for f in ctx.src.py_files('mindsdb_sql'):
        tree = ctx.src.tree(f)
        ext_modules = set()
        for st in tree.body:
            if isinstance(st, ast.Import):
                for a in st.names:
                    if not a.name.startswith('mindsdb_sql'):
                        ext_modules.add((a.asname or a.name).split('.')[0])
            elif isinstance(st, ast.ImportFrom) and st.module and not st.module.startswith('mindsdb_sql') and st.level == 0:
                for a in st.names:
                    ext_modules.add(a.asname or a.name)
        ext_modules -= {'copy', 're', 'ast', 'typing', 'dataclasses', 'collections', 'itertools', 'json', 'datetime', 'dt', 'os', 'sys', 'List', 'dataclass', 'field'}
        for cls in [n for n in ast.walk(tree) if isinstance(n, ast.ClassDef)]:
            roots = set()       # self.<attr> holding an object built by an external callable
            for n in ast.walk(cls):
                if isinstance(n, ast.Assign) and isinstance(n.value, ast.Call):
                    callee = n.value.func
                    cname = (dotted(callee) or '').split('.')
                    external = False
                    if isinstance(callee, ast.Name):
                        # a local name that holds a class looked up dynamically (getattr(module, ...)) or imported from outside
                        # a class imported from outside, or a local variable holding a class of unknown origin (looked up in a table of dialect modules)
                        local_funcs = {x.name for x in tree.body if isinstance(x, (ast.FunctionDef, ast.ClassDef))}
                        external = callee.id in ext_modules or (callee.id not in own_callables and callee.id not in local_funcs)
                    elif cname and cname[0] in ext_modules:
                        external = True
                    if external:
                        for t in n.targets:
                            if isinstance(t, ast.Attribute) and norm(t.value) == 'self':
                                roots.add(f'self.{t.attr}')
            if not roots:
                continue
            nroots += len(roots)
            for fn in [m for m in cls.body if isinstance(m, ast.FunctionDef)]:
                alias = {}
                for n in walk_no_nested(fn):
                    if isinstance(n, ast.Assign) and len(n.targets) == 1 and isinstance(n.targets[0], ast.Name) and isinstance(n.value, ast.Attribute):
                        alias[n.targets[0].id] = n.value

                def chain(e, depth=0):
                    """-> (root text, hops below the root) or None"""
                    hops = 0
                    while True:
                        txt = norm(e)
                        if txt in roots:
                            return txt, hops
                        if isinstance(e, ast.Name) and e.id in alias and depth < 4:
                            r = chain(alias[e.id], depth + 1)
                            return (r[0], r[1] + hops) if r else None
                        if isinstance(e, (ast.Attribute, ast.Subscript)):
                            e = e.value
                            hops += 1
                            continue
                        return None
                for n in walk_no_nested(fn):
                    recv = None
                    what = None
                    if isinstance(n, ast.AugAssign) and isinstance(n.target, (ast.Attribute, ast.Subscript)):
                        recv, what = n.target, f'{norm(n.target)} {type(n.op).__name__}='
                    elif isinstance(n, ast.Call) and isinstance(n.func, ast.Attribute) and n.func.attr in MUTATING_METHODS:
                        recv, what = n.func.value, f'{norm(n.func)}()'
                    elif isinstance(n, ast.Assign) and isinstance(n.targets[0], ast.Subscript):
                        recv, what = n.targets[0].value, f'{norm(n.targets[0])} ='
                    elif isinstance(n, ast.Assign) and isinstance(n.targets[0], ast.Attribute):
                        # rebinding an attribute: private on the root instance itself, shared one level below
                        r = chain(n.targets[0].value)
                        if r is not None and r[1] >= 1:
                            recv, what = n.targets[0].value, f'{norm(n.targets[0])} ='
                    elif isinstance(n, ast.Delete):
                        for t in n.targets:
                            if isinstance(t, (ast.Subscript, ast.Attribute)):
                                recv, what = t.value, f'del {norm(t)}'
                    if recv is None:
                        continue
                    r = chain(recv)
                    if r is None:
                        continue
                    root, hops = r
                    if isinstance(n, ast.AugAssign) and hops == 0:
                        continue
                    nsites += 1
                    ctx.ob('C20.library-state', f'{cls.name}.{fn.name}:{what}'[:110], False,
                           f'{cls.name}.{fn.name}: `{what}` changes, in place, an object reached through {root} (built by an external library): tables hanging below a '
                           f'library object (reserved words, type maps) are class-level and shared by every other instance in the process, so a later call sees the change',
                           file=f, line=n.lineno, witness="SqlalchemyRender('Snowflake') then SqlalchemyRender('oracle')")
    ctx.setcount('library_roots', nroots)
    ctx.ob('C20.library-state', 'all', True, '')


def run(ctx):
    ctx.explanation = (
        'Isolation by the standard static argument: a result can depend on history or another thread only through state '
        'that outlives the call. (1) Every function of mindsdb_sql and sly is scanned for writes to module globals, class '
        'attributes (also class-level mutable attributes reached through self), default-argument objects and memoisation '
        'decorators; class-construction (import-time) code is separated by reachability on a name-based call graph; each '
        'remaining write must be discharged by a re-derived monotone/idempotent argument. (2) parse_sql obtains lexer and '
        'parser from constructor calls of the same invocation; no stateful object is built at module/class level, in a '
        'default argument or behind a cache. (3) No store/mutation whose receiver derives from caller-supplied catalog '
        'objects in the planner. (4) Every iteration/indexing/unpacking of a set is classified by its consumers; the '
        'hash-ordered @_(*all_tokens_list) productions are discharged on the LALR tables (no error message depends on their '
        'order). NOT decided: races inside CPython/SQLAlchemy, actual interleavings.')
    ctx.not_decided = ['data races inside CPython / SQLAlchemy internals', 'actual thread interleavings (only shared state is decided)']
    ctx.assumptions = ['instance attributes of objects created inside a call are private to that call',
                       'SQLAlchemy dialect/compiler objects created per SqlalchemyRender instance are not shared']
    check_shared_writes(ctx)
    check_fresh(ctx)
    check_caller_objects(ctx)
    check_hash_order(ctx)
    check_library_state(ctx)
    check_instance_state(ctx)
    check_planner_reuse(ctx)
    ctx.floor('planner_state_writes', 1)
    ctx.floor('planner_entry_resets', 1)
    check_process_dependent(ctx)
    ctx.floor('process_dependence_files', 60)
    ctx.floor('renderer_methods', 20)
    ctx.floor('library_roots', 1)
    ctx.floor('functions_scanned', 450)
    ctx.floor('shared_write_sites', 20)
    ctx.floor('stateful_classes', 8)
    ctx.floor('planner_functions', 100)
    ctx.floor('set_iteration_sites', 3)
    ctx.floor('star_productions', 190)
    ctx.floor('star_states', 5)
